//! Standalone confirmations of the C08 findings against the real API (no engine involved).
use cascette_formats::CascFormat;
use std::io::Cursor;

fn main() {
    // 1. archive index with 9-byte keys / 5-byte offsets through the CascFormat trait
    {
        use cascette_formats::archive::{ArchiveIndex, ArchiveIndexBuilder};
        let mut b = ArchiveIndexBuilder::with_config(9, 5, 4);
        for i in 0..3u8 {
            let mut k = vec![0u8; 9];
            k[0] = i + 1;
            b.add_entry(k, 100, 0x1_0000_0000 + u64::from(i));
        }
        let mut data = Vec::new();
        b.build(Cursor::new(&mut data)).unwrap();
        let parsed = <ArchiveIndex as CascFormat>::parse(&data).unwrap();
        let rebuilt = <ArchiveIndex as CascFormat>::build(&parsed).unwrap();
        println!("1 archive-index k9/o5: rebuilt == original: {}, reparse: {:?}", rebuilt == data, <ArchiveIndex as CascFormat>::parse(&rebuilt).map(|x| x.entries.len()).map_err(|e| e.to_string()));
    }
    // 2. encoding: a non-UTF-8 byte inside the ESpec table
    {
        let f = vharness::props::seeds::encoding_file(1, false, false).unwrap();
        let mut data = f.build().unwrap();
        assert_eq!(&data[22..24], b"z\0");
        data[22] = 0xFF;
        let p = cascette_formats::encoding::EncodingFile::parse(&data);
        println!("2 encoding espec byte 0xFF: parse ok: {}, build: {:?}", p.is_ok(), p.map(|f| f.build().map(|b| b.len()).map_err(|e| e.to_string())).ok());
    }
    // 3. root: a file whose only block has no records
    {
        let data = vec![0u8; 12];
        let p = cascette_formats::root::RootFile::parse(&data);
        println!("3 root, one empty V1 block: parse ok: {}, build: {:?}", p.is_ok(), p.map(|f| CascFormat::build(&f).map(|b| b.len()).map_err(|e| e.to_string())).ok());
        let mut v2 = b"TSFM".to_vec();
        v2.extend_from_slice(&[0u8; 8]);
        let p = cascette_formats::root::RootFile::parse(&v2);
        println!("3 root, V2 header only: parse ok: {}, build: {:?}", p.is_ok(), p.map(|f| CascFormat::build(&f).map(|b| b.len()).map_err(|e| e.to_string())).ok());
    }
    // 4. patch archive: 9-byte source keys
    {
        use cascette_formats::patch_archive::PatchArchive;
        let mut data = vharness::props::seeds::patch_archive_bytes(false).unwrap();
        // header: "PA" ver file_key old_key patch_key block_bits count(2) flags
        println!("4 patch-archive header key sizes before: {:?}", &data[3..6]);
        // rewrite the file with 9-byte old keys by hand: simplest is a 1-entry file
        let _ = &mut data;
        let mut f = Vec::new();
        f.extend_from_slice(b"PA");
        f.extend_from_slice(&[2, 16, 9, 16, 12, 0, 1, 0]);
        let block_off = (10 + 16 + 16 + 4) as u32;
        f.extend_from_slice(&[0xAA; 16]); // last ckey
        let mut block = vec![1u8];
        block.extend_from_slice(&[0xAA; 16]);
        block.extend_from_slice(&[0, 0, 0, 3, 232]);
        block.extend_from_slice(&[0xBB; 9]);
        block.extend_from_slice(&[0, 0, 0, 1, 244]);
        block.extend_from_slice(&[0xCC; 16]);
        block.extend_from_slice(&200u32.to_be_bytes());
        block.push(0);
        block.push(0);
        f.extend_from_slice(&md5::compute(&block).0);
        f.extend_from_slice(&block_off.to_be_bytes());
        f.extend_from_slice(&block);
        let p = <PatchArchive as CascFormat>::parse(&f).unwrap();
        let y = CascFormat::build(&p).unwrap();
        let p2 = <PatchArchive as CascFormat>::parse(&y).unwrap();
        println!("4 patch-archive old_key_size {} -> after rebuild {}; source key {} -> {}", p.header.old_key_size, p2.header.old_key_size, hex::encode(&f[46 + 22..46 + 31]), hex::encode(p2.blocks[0].file_entries[0].patches[0].source_ekey));
    }
    // 5. TVFS: a real file does not come back byte for byte; a builder-made file with a trailing CFT byte changes meaning
    {
        use cascette_formats::tvfs::TvfsFile;
        let x = std::fs::read("/repo/crates/cascette-formats/test_fixtures/tvfs/wow_classic_cbd15a9f67c4d28d.bin").unwrap();
        let v = TvfsFile::parse(&x).unwrap();
        let y = v.build().unwrap();
        println!("5 tvfs fixture: {} bytes -> {} bytes, identical: {}; est size header {:?} vs rebuilt specs {}", x.len(), y.len(), x == y, v.header.est_table_size, v.est_table.as_ref().map(|e| e.specs.iter().map(|s| s.len() + 1).sum::<usize>()).unwrap_or(0));
    }
    // 6. size: esize wider than esize_bytes
    {
        use cascette_formats::size::{SizeManifest, SizeManifestBuilder};
        let m = SizeManifestBuilder::new().version(1).esize_bytes(1).add_entry(vec![1; 9], 256).build();
        println!("6 size builder esize=256 width=1: builder: {:?}", m.as_ref().map(|_| "Ok").map_err(|e| e.to_string()));
        if let Ok(m) = m {
            let y = m.build();
            println!("6   manifest.build: {:?}; parse: {:?}", y.as_ref().map(|b| b.len()).map_err(|e| e.to_string()), y.ok().map(|b| SizeManifest::parse(&b).map(|_| "Ok").map_err(|e| e.to_string())));
        }
    }
    // 7. encoding builder without entries
    {
        let f = cascette_formats::encoding::EncodingBuilder::new().build();
        println!("7 empty EncodingBuilder: build: {:?}", f.as_ref().map(|_| "Ok").map_err(|e| e.to_string()));
        if let Ok(f) = f {
            let y = f.build().unwrap();
            println!("7   parse of its {} bytes: {:?}", y.len(), cascette_formats::encoding::EncodingFile::parse(&y).map(|_| "Ok").map_err(|e| e.to_string()));
        }
    }
    // 8. build config with an empty value list
    {
        use cascette_formats::config::BuildConfig;
        let mut c = BuildConfig::new();
        c.set("root", vec![]);
        c.set("build-name", vec!["x".into()]);
        let y = c.build();
        let p = BuildConfig::parse(&y[..]).unwrap();
        println!("8 build-config set(root, []): text {:?}; after parse root = {:?}, build-name = {:?}", String::from_utf8_lossy(&y), p.get("root"), p.get("build-name"));
    }
}
