#![allow(clippy::expect_used, clippy::unwrap_used)]
use cascette_client_storage::index::IndexManager;
use cascette_crypto::EncodingKey;

fn build(dir: &std::path::Path) -> (Vec<EncodingKey>, std::path::PathBuf, Vec<u8>) {
    let keys: Vec<EncodingKey> = (0..4u8)
        .map(|i| {
            let mut k = [0u8; 16];
            k[0] = 0x01;
            k[1] = 0x30 + i;
            k[2] = 0x30 + i;
            EncodingKey::from_bytes(k)
        })
        .collect();
    let mut m = IndexManager::new(dir);
    for (i, k) in keys.iter().enumerate() {
        m.add_entry(k, 3 + i as u16, 0x1000 + 0x345 * i as u32, 500 + 77 * i as u32).unwrap();
    }
    m.flush_all_updates().unwrap();
    let path = dir.join("0100000001.idx");
    let good = std::fs::read(&path).unwrap();
    assert_eq!(good.len(), 0x28 + 4 * 18);
    (keys, path, good)
}

#[tokio::test]
async fn entry_block_bit_flip_is_rejected() {
    let dir = tempfile::tempdir().unwrap();
    let (keys, path, good) = build(dir.path());
    let mut bad = good.clone();
    bad[0x28 + 9] ^= 0x01; // archive high byte of the first record
    std::fs::write(&path, &bad).unwrap();
    let mut m = IndexManager::new(dir.path());
    let r = m.load_all().await;
    let e = m.lookup(&keys[0]);
    assert!(r.is_err() || e.is_none() || e.as_ref().unwrap().archive_id() == 3, "load {:?}, lookup serves archive {:?} (written 3)", r.is_ok(), e.map(|e| e.archive_id()));
}

#[tokio::test]
async fn header_block_bit_flip_is_rejected() {
    let dir = tempfile::tempdir().unwrap();
    let (_keys, path, good) = build(dir.path());
    let mut bad = good.clone();
    bad[12] ^= 0x01; // encoded_size_length 4 -> 5, inside the hashed 16-byte header
    std::fs::write(&path, &bad).unwrap();
    let mut m = IndexManager::new(dir.path());
    let r = m.load_all().await;
    let served: Vec<String> = m.iter_entries().map(|(_, e)| format!("{}@{}/{}/{}", hex::encode(e.key), e.archive_id(), e.archive_offset(), e.size)).collect();
    let mut good_m = IndexManager::new(dir.path());
    std::fs::write(&path, &good).unwrap();
    good_m.load_all().await.unwrap();
    let orig: Vec<String> = good_m.iter_entries().map(|(_, e)| format!("{}@{}/{}/{}", hex::encode(e.key), e.archive_id(), e.archive_offset(), e.size)).collect();
    let alien: Vec<&String> = served.iter().filter(|s| !orig.contains(s)).collect();
    assert!(r.is_err() || alien.is_empty(), "header byte changed, load Ok, records never written are served: {alien:?}");
}

#[test]
fn writer_formula_vs_documented_accumulation() {
    use cascette_crypto::jenkins::{hashlittle, hashlittle2};
    let dir = tempfile::tempdir().unwrap();
    let (_k, _p, good) = build(dir.path());
    let stored = u32::from_le_bytes(good[0x24..0x28].try_into().unwrap());
    let whole = hashlittle(&good[0x28..], 0);
    let (mut pc, mut pb) = (0u32, 0u32);
    for rec in good[0x28..].chunks(18) {
        hashlittle2(rec, &mut pc, &mut pb);
    }
    println!("stored {stored:08x} hashlittle(block,0) {whole:08x} per-entry hashlittle2 accumulation pc {pc:08x} pb {pb:08x}");
    assert_eq!(stored, whole);
    assert_ne!(stored, pc);
    assert_ne!(stored, pb);
}
