#!/bin/bash
# Runs the repository's pinned baseline suite (hooks feature OFF: it is off by default).
cd /repo || exit 2
if command -v cargo-nextest >/dev/null 2>&1 && [ -f /w/lib/nextest.toml ]; then
  cargo nextest run --workspace --no-fail-fast --tool-config-file pb:/w/lib/nextest.toml --profile pb --test-threads 8 --offline 2>&1 | tail -${TAIL:-15}
  exit ${PIPESTATUS[0]}
else
  cargo test --workspace --no-fail-fast --offline 2>&1 | tail -${TAIL:-40}
  exit ${PIPESTATUS[0]}
fi
