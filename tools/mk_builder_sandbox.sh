#!/bin/bash
# usage: mk_builder_sandbox.sh <id>   — prepares /tmp/hb/<id>/{repo,harness,target,out,fixes}
set -e
ID="$1"; W=/tmp/hb/$ID
mkdir -p "$W/out" "$W/fixes"
git -C /repo worktree add --detach "$W/repo" HEAD >/dev/null 2>&1
mkdir -p "$W/harness"
rsync -a --exclude target /verif/harness/ "$W/harness/"
sed -i "s#/repo/crates/#$W/repo/crates/#g" "$W/harness/Cargo.toml"
cp -r /verif/harness/target "$W/target"
echo '{"findings": []}' > "$W/out/KNOWN_FINDINGS.json"
echo "$W ready"
