#!/usr/bin/env python3
import json, sys, glob, jsonschema
schema = json.load(open("/root/.vp/EVIDENCE.schema.json"))
bad = 0
for f in sorted(glob.glob("/verif/evidence/*.json")):
    try:
        jsonschema.validate(json.load(open(f)), schema)
        print("ok  ", f)
    except Exception as e:
        bad += 1
        print("BAD ", f, str(e)[:300])
sys.exit(1 if bad else 0)
