#!/usr/bin/env python3
"""Generates /verif/MANIFEST.json from the table below (single source of truth)."""
import json, os, subprocess, sys

ROOT = os.path.dirname(os.path.dirname(os.path.abspath(__file__)))

# property id -> (engine, level category, technique, level text, level note, design ref)
CHECKS = {
    "C11": ("SCHED", "model_checking",
            "stateless exploration of all interleavings of the real code at hook granularity under a controlled scheduler with preemption bounding; brute-force linearizability check per execution",
            "Every schedule with at most 2 (quick) / 3 (thorough; 2 for the three-task DynamicContainer bodies) preemptions of 2-3 tasks x 1-2 operations from {get, contains, put, put_with_ttl(0), remove, clear} on the same and on different keys on the real MemoryCache (non-evicting; evicting under LRU and FIFO with an entry limit of 2 and with a byte limit, incl. replacing puts of another size), DiskCache (both layouts, incl. keys that used to share a temp file), MultiLayerCacheImpl [Memory, Disk], and of write/read/remove/query on one DynamicContainer; tasks run on real threads, the repository's vp_sched! points hand control to the explorer. Per execution: no operation fails unless a concurrent operation of another task touches the same key; no torn or foreign value; the call/return history is linearizable w.r.t. the map (set) specification by brute force over all orders consistent with real time; after join the reported entry count and usage equal the retrievable contents. The first schedule of every body is replayed twice (determinism), every violating schedule once more.",
            "Trusted: sequential consistency at hook granularity (Relaxed counters not explored under weak memory); the std RwLocks of cascette-cache and the parking_lot RwLocks of DynamicContainer and ArchiveManager are wrapped (acquire/release are scheduling points, blocked acquires are modelled, all-blocked = deadlock); MemoryCache's DashMap is wrapped so that get/insert/remove/remove_if are scheduling points taken before the shard lock; no scheduling point sits inside a DashMap shard guard; layered gets may miss (lenient). Hooks: cargo feature verif-hooks (commits 02e2645, 40a9c77, 0da5b95, b72114b, a395111, a160769).",
            "DESIGN.md §2.2, §4 C11"),
    "C14": ("SEQ (outcome trees)", "model_checking",
            "exhaustive enumeration of the complete outcome tree of every policy on a grid, each path one run of the real RetryPolicy::execute under tokio's paused clock",
            "For every policy on the grid max_attempts 0..=5 x initial back-off {0,1 ms,100 ms,20 s} x max back-off {0,1 ms,10 s} x multipliers {0,0.5,1,2,10,1e308,inf,NaN,-1} x jitter on/off plus every distinct policy RetryPolicy::from_env produces from the environment-string grid: the complete tree of outcome sequences over {Ok, retryable, rate-limited with hint none/0 s/5 s, non-retryable} (a path ends where the policy stops) is executed on the real code with a scripted closure that records virtual time. Oracle: invocations <= max_attempts+1; stop at first Ok / first non-retryable and return exactly that; gap >= hint and <= 1.3 x hint with a hint, otherwise <= 1.3 x max_backoff and within [d,1.3d] for sane policies; no panic; finite virtual time. CDN part (NET, real time): the complete tree of server answer sequences {200, 304, 404, 429 without / with integer / with junk Retry-After, 503; thorough + 403, 500, Retry-After 0} of depth 4 is served by a scripted loopback endpoint to the real CdnClient::download and download_archive_index; request count, result class and lower bounds on the gaps between request arrivals are judged (upper bounds are the paused-clock part's).",
            "Trusted: tokio's paused clock is exact for pure timers (+1 ms granularity allowance); jitter judged through intervals only. Waits beyond 200 virtual days are judged by their lower bound; policies with an astronomical initial back-off are parsed but not executed.",
            "DESIGN.md §4 C14"),
    "C20": ("ENUM", "exploration",
            "exhaustive enumeration of key/endpoint/name strings composed of path-significant tokens through every API that turns a string into a path or URL, judged by a directory diff of a sandbox parent",
            "Every string of <=3 (thorough 4) tokens from {.., ., /, a, a.b, a.tmp, empty, NUL, backslash, :, ~, 300-byte name, /abs, hex hash, ../../..} used as raw DiskCache key (both layouts), as every string field of the ten typed keys, as ProtocolCache key, as RibbitTactClient::query endpoint (only those the real validation accepts) and as CDN endpoint path / archive key against a loopback mock, as Storage::open_installation name; content keys of every length 0..=32 through seven CdnClient calls; offsets/lengths over {0,1,2^64-1}^2; boundary binary keys for path helpers; every ordered pair of distinct keys of a universe of well-formed typed keys (numeric fields incl. values with more digits that share their low digits). Oracle: nothing outside the configured root changes (metadata and content hashes of a 13-level-deep sandbox), no get returns the sentinel's content, no panic, distinct well-formed keys never share a file.",
            "Trusted: the sandbox snapshot. Strings of more tokens, CDN host strings, symlinks and Windows path semantics are not covered.",
            "DESIGN.md §4 C20"),
    "C02": ("ENUM (isolated workers)", "exploration",
            "deviation-bounded exhaustive mutation of fixtures and builder-made artifacts per parser target inside isolated worker processes with a counting allocator",
            "For each of 29 parser/decoder targets and every seed (repository fixtures, builder-made artifacts, minimal text documents): every byte substitution (all 255 values for seeds up to 4 KiB, boundary values otherwise), every truncation length, extensions, every 2/3/4/5/8-byte window near start/end set to boundary values in both endiannesses, every *stride* case (the same 2/4-byte field of two — thorough: three — consecutive records at strides 4..40 set to the same boundary value), (thorough) every pair of boundary windows in headers/footers, every short string over the grammar tokens of the text formats (incl. a numeric boundary token), every token sequence of length <= 2 repeated 2 000 and 100 000 times (unbounded recursion, quadratic loops), every byte of a text seed replaced by a 2/3/4-byte UTF-8 character, a builder-made TVFS with 200 000 nested folder nodes. Each case runs in a worker process: a panic, an abort (incl. a single allocation request beyond 1 GiB + 64 MiB, refused by the counting allocator), 5 s of CPU time without returning, or a disproportionate allocation in a non-decompressing parser is a violation attributed to exactly that case.",
            "Trusted: worker isolation and the allocator's limits. Inputs more than one (thorough: two header/footer) deviations away from every seed are not reached; overflow checks are on (as in cargo test).",
            "DESIGN.md §4 C02"),
    "C08": ("ENUM (isolated workers)", "exploration",
            "deviation-bounded exhaustive mutation of builder-made artifacts and CDN fixtures per format; every accepted mutant is rebuilt, re-parsed and rebuilt again and compared byte-wise and through a per-format logical projection; exhaustive small builder programs; byte identity of every fixture",
            "(i) For each format (BLTE, encoding, archive index/group, root V1-V4, install, download V1-V3, size, TVFS, patch archive, patch index, ZBSDIFF, build/CDN/patch/product/keyring config, BPSV, ESpec) every one-deviation mutant (byte substitution, truncation, extension, boundary windows; thorough: header/footer pairs) of 34 builder-made seeds and of the repository's fixtures that the parser accepts: build(parse(x)) must succeed, parse again, build again to identical bytes, and the logical projection (entries, keys, sizes, flags, tags; derived fields such as checksums, offsets and block grouping left out) must be unchanged. (ii) every builder program over small per-format alphabets (a few dozen to ~2000 programs per format): parse(build(v)) has the logical content of v. (iii) every fixture file and every ESpec string of the fixture lists round-trips to identical bytes. Cases run in isolated worker processes as in C02.",
            "Trusted: the per-format projections (what counts as logical content) and worker isolation. Inputs more than one (thorough: two, header/footer) deviations from every seed are not reached; positions deep inside zero fill get boundary values only in the quick tier; fixtures above 32 KiB get quick positions even in the thorough tier. 12 known findings (KNOWN_FINDINGS.json).",
            "DESIGN.md §4 C08, Appendix B.5"),
    "C03": ("ENUM", "exploration",
            "bounded-exhaustive enumeration of key sets straddling every page/block boundary, key sizes x offset widths, root versions x file counts, TVFS path trees and counts; built, serialized, parsed, then probed through every lookup flavour against a map model and a linear scan",
            "Encoding tables (1 KiB pages, 1-3 EKeys per CKey), CDN archive indices and archive groups (key sizes 1..16 x offset widths 4/5/6), root manifests V1-V4 x 0..=130 records x named counts x locales x FDID layouts, TVFS manifests (all path sets up to 4/5 paths, file counts crossing the offset-width switches, component lengths 1..511) and the ContentResolver chain: fillers put the page/block boundary at every position of an 8-key window, every subset of the window is inserted, every key, key+-1, all-00 and all-FF is probed through every lookup flavour incl. batch variants. Oracle: BTreeMap model; batch = single; every flavour = linear scan of the parsed entries.",
            "Trusted: the map model. Duplicate keys, pages other than 1 KiB, more than 130 root records and multi-span TVFS files are not covered.",
            "DESIGN.md §4 C03"),
    "C16": ("ENUM", "exploration",
            "exhaustive enumeration of (old,new) pairs over a 2-letter alphabet under four encodings x builders x block sizes x patchers, and of all small control blocks; judged against the new file, the length law and an independent bspatch",
            "Every (old,new) in {a,b}^<=6 (thorough <=8) as single bytes, 4-byte blocks and 256-byte blocks x simple/chunked/suffix-array builders x max_diff_block_size grid x in-memory / parsed / streaming patchers (buffer grid) plus an independent bspatch written from the format description: apply(old, build(old,new)) = new everywhere. Every control block of <=2 (thorough 3) triples with diff/extra 0..=3, seek -3..=3, data lengths needed-1/needed/needed+1, output_size 0..=8: Ok(out) implies out.len() = header.output_size, never a panic; plus control blocks with one or two leading seeks of +-(2^63-1) before every triple (position saturation / overflow).",
            "Trusted: the independent bspatch (self-checked on hand-computed vectors; shares only the zlib inflater). Data comes from a 2-letter alphabet; real CDN patches are left to the repository's fixture tests.",
            "DESIGN.md §4 C16"),
    "C18": ("ENUM", "exploration",
            "exhaustive enumeration of files and span sets on a byte grid and a buffer grid, mover cases, and all small segment populations for the merge planner",
            "Files of 0..=8 (thorough 10) bytes with every ordered tuple of <=3 spans on the grid (overlapping, duplicate, zero-length, unsorted), larger disjoint sets, the same on a 64 KiB buffer grid with budgets 128 KiB..1 MiB; compact_in_place / move_data cases; every population of <=5 (thorough 6) segments x 7 write positions x Frozen/other x thresholds x segment sizes for plan_archive_merge. Oracle: result = concatenation of the live spans in offset order, bytes saved truthful, overlapping sets refused with the file untouched; no planned move onto live bytes, no two moves overlapping, no segment overfilled.",
            "Trusted: the concatenation oracle and the three geometry invariants. I/O errors and spans beyond EOF are not covered; there is no executor for merge plans, only their geometry is judged.",
            "DESIGN.md §4 C18"),
    "C04": ("SEQ", "model_checking",
            "explicit-state exploration of all write/read/query/remove/flush/reopen histories up to a depth bound on the real DynamicContainer, Installation and ArchiveManager, lock-step with a map model",
            "Every history up to depth 4 (quick) / 5 (thorough) with at most 3 writes over size classes {0,1,50,100,1000,70000} x payload classes (random, zeros, starts with BLTE, BLTE at 0x1E, nested BLTE file, local header + BLTE), reads/queries/removes of any earlier object, flush and reopen, on DynamicContainer (with and without LRU), Installation and ArchiveManager (ZLib/LZ4), also from pre-states with a 200 000-byte object already mapped; no state merging (the mmap snapshot is hidden state). The encoding key is computed independently (MD5 of the single-chunk BLTE). Oracle: a read of a live key returns exactly the written bytes, query is true, reopen keeps everything.",
            "Trusted: the map model and the independent key computation. Histories beyond the depth bound, more than 3 writes, data files above 64 MiB and concurrent use (C11) are not covered.",
            "DESIGN.md §4 C04"),
    "C10": ("SEQ", "model_checking",
            "explicit-state exploration of all cache operation histories up to a depth bound per configuration on the real MemoryCache / DiskCache, lock-step with a bounded-map model with TTL classes",
            "Every history up to the depth bound over put / put_with_ttl(0 | 1 h) / get / contains / remove / clear / size / stats (+ new instance on the same directory for the disk cache) x eviction policies x tiny limits (max_entries 1..3, max_memory_bytes from 1 byte) x value sizes from 0 to above the limit x colliding keys (incl. x.y / x.tmp), no state merging. Oracle: a get returns the latest successful put for that exact key or nothing (nothing only after remove/clear/expiry or a put at a limit), limits hold after every operation, books equal what is retrievable after a settling pass, a disk value survives a new instance until its TTL ends and not after.",
            "Trusted: the bounded-map model and the settling rule for expired-but-untouched entries (DESIGN §6). The Random policy is judged on victim-independent clauses only.",
            "DESIGN.md §4 C10"),
    "C13": ("NET", "model_checking",
            "exhaustive enumeration of endpoint-behaviour assignments x endpoint class x query script x TTL class x cache kind on the real RibbitTactClient over loopback mocks; every single cut position of valid TCP responses",
            "The full product of 12 (thorough 13) HTTP behaviours for each TACT endpoint x 7 (8) Ribbit TCP behaviours for versions/qq/1h/disk, a reduced behaviour set across all endpoint classes, scripts (query twice; query, new client on the same cache directory, query), TTL {0, 1 h} and cache kinds, endpoint URLs present/empty, every single cut position of every valid V1/V2 TCP response (CRLF and LF-only), every pair of cuts (first anywhere, second at every later line end), TTL classes set alike or split (own class vs the others), and query scripts around the expiry of a 2 s TTL in real time (same client, new client adopting the stored answer at once / mid-TTL / after expiry; judged only where the measured times leave no doubt). Oracle: a reference decision function (good / transient / definitive / unclassified) over the request logs of the mocks: order HTTPS, HTTP, TCP; go on only after a transient failure; first good answer returned with the rows of the endpoint that answered; cached answers served without traffic until the TTL ends; failures never cached; parsed document independent of the cut.",
            "Trusted: loopback stands for the network; plain HTTP for the HTTPS endpoint; 200+malformed, accept-and-close and close-mid-body are not judged on stop-vs-continue. Stall behaviours (30 s client timeouts) run in the thorough tier only.",
            "DESIGN.md §4 C13"),
    "C01": ("ENUM", "exploration",
            "bounded-exhaustive enumeration of BLTE builder programs (configuration prefix + up to 2/3 add-calls over payload classes, modes, chunk sizes, encryption specs), judged by identity, an independent decoder and a chunk-table audit",
            "Every builder program up to depth 2 (quick) / 3 (thorough) over add_data / add_mixed_data / add_encrypted_data (honest and foreign block index) / add_chunk x 21 payload classes (empty, 1 byte, mode bytes, chunk_size-1/0/+1, compressible, incompressible, nested BLTE, 258-chunk) x modes N/Z/4 x chunk sizes {0,4,5,default,1024} x Salsa20/ARC4 specs, plus compress/single_chunk. If every call returned Ok the container must decode (real decoder and an independent decoder with its own Salsa20/RC4/LZ4/table parser) to the concatenation of the payloads, and every table entry (compressed size, decompressed size, MD5) must describe its chunk. Chunk-size-0 programs run in child processes under an address-space limit.",
            "Trusted: the independent decoder (self-tested on published Salsa20/RC4/LZ4/MD5 vectors and a hand-assembled container) and flate2/md5. Payload bytes come from classes; chunks above 2 KiB, 8-byte IVs and the 0x10 table format are not reached.",
            "DESIGN.md §4 C01"),
    "C05": ("SEQ", "model_checking",
            "explicit-state exploration of all operation histories up to a depth bound from non-initial pre-states on the real IndexManager / ResidencyDb, lock-step with a map model",
            "Every history up to depth 3 (quick) / 4 (thorough) over 28 index mutators (add/update/status/remove on 4 colliding keys incl. a shared 9-byte prefix and an all-zero prefix, flush_bucket, flush_all, save_all, reload, clear_bucket) from 8 pre-states (empty; update section with 1259/1260 un-flushed entries in memory and saved; 1260 sorted; sorted+mixed updates), and over 16 residency operations from 11 configurations (pages at 24/25/26/50 entries, raw db and container, incl. the >10000-key batch delete). After every history all observers (lookup, has_entry, full iter_entries, counts) must agree with a map keyed by the 9-byte prefix, mutator booleans must tell the truth, reload must show a state at or after the last explicit persist point.",
            "Trusted: the map model and the documented not-alarming decisions about implicit flushes and approximate counts. Histories longer than the bound from a pre-state, other buckets filling, and crash behaviour (C06) are not covered.",
            "DESIGN.md §4 C05"),
    "C12": ("SEQ", "model_checking",
            "explicit-state exploration of all multi-layer operation/fault histories up to a depth bound, executed in killable worker processes, lock-step with a latest-value model",
            "Every history up to depth 3/4 (quick) and 4/5 (thorough) over put / put_with_ttl / put_to_layer / get / get_from_layer / promote / remove / clear / contains / batch ops / validated put+get / corrupt / delete the disk layer's file or break its header (the layer's read then fails instead of missing), on [Memory(1), Disk] and [Memory(1), Memory(2), Disk] with three promotion strategies and MD5 hooks, runs on the real MultiLayerCacheImpl inside worker processes with a progress watchdog (a call that never returns is a violation, not a stuck run). Oracle: latest-value model across layers, nothing answers after remove/clear/detected corruption, validated reads return only bytes that hash to the key, a batch read is not failed for a healthy key by another key's damaged file, every call returns.",
            "Trusted: the latest-value model with its six documented not-alarming decisions (DESIGN Appendix B), the watchdog's hang proof (same untimed futex wait for >=60 ms with a single thread, or 2.5 s without progress confirmed on a second run). Background cleanup tasks are pinned (ten-year intervals, paused clock) and not explored.",
            "DESIGN.md §4 C12"),
    "C19": ("SEQ+ENUM", "model_checking",
            "explicit-state exploration of builder programs (states merged on the serialized manifest) plus exhaustive file-count x tag-pattern grid, judged by a set model and an independent bit-mask reader",
            "Every install/download builder program up to depth 8 (quick) / 11 (thorough) over 32 operations x 2 tags x 3 file slots from empty and from 7-file pre-states, states merged on the serialized manifest (a complete description of the builder; the hidden name->index map is probed before merging); every file count 0..=70 (thorough: 255/256/257/1023) x 7 tag patterns x 0..=3 tags x 16 formats, followed by add/remove_file at byte boundaries. Oracle: set model for every non-empty tag subset through all query APIs and size totals, and an independent reader written from the format description (MSB-first bit order, anchored on the repository's real CDN fixtures).",
            "Trusted: the set model, the independent reader (self-checked on hand-assembled vectors and on real fixtures), and that distinct tag names make the serialized manifest a complete state description. Tag counts above 3 (thorough: 20) and programs deeper than the bound are not covered.",
            "DESIGN.md §4 C19"),
    "C07": ("ENUM+SEQ", "fault_enumeration",
            "exhaustive enumeration of single-bit flips, byte substitutions, deletions and insertions inside the protected region of small artifacts; explicit-state exploration of put/corrupt/get histories on the validating cache",
            "For encoding-table pages, the archive-index footer, an LRU checkpoint file, update-section entries/pages and a saved .idx with pending updates, a local entry header and a V1 Ribbit response with a checksum line: every single-bit flip, every byte substitution (all 255 values for small artifacts), every suffix deletion, 1-byte deletion and 1-byte insertion inside the protected region is applied; accept(mutant) implies that no logical item differs from the original's. Every history <= depth 4/5 over put_validated / mismatching put / get_validated / corrupt-backing-file / reopen on ContentAddressedCache<DiskCache>: a validating get returns bytes only if their MD5 equals the key.",
            "Trusted: the location of the protected regions (self-checked: at least one mutant must be rejected per artifact) and the logical projections. Second level: every length-preserving single mutation that is accepted with the value unchanged (a byte the check does not notice) is combined with every bit flip and 0x00/0xFF substitution of the region — the pair that switches a check off and then alters the data. Other multi-byte corruption and artifacts larger than the fixtures are not covered.",
            "DESIGN.md §4 C07"),
    "C09": ("ENUM", "exploration",
            "bounded-exhaustive enumeration of lengths/splits/alignments/boundary parameters against independent reference implementations (self-checked on published vectors)",
            "Every message length 0..=1024, every split point for piecewise application, boundary keys/IVs/seeds/block indices, counter carries by direct state construction, every CPU-feature subset of the host for the SIMD helpers: the repository's Salsa20, ARC4, lookup3, MD5 keys and accelerated helpers are compared with reference implementations written from the algorithm descriptions; the references check themselves against 51 published known-answer vectors at start-up (a failing reference is a machinery error, never a verdict).",
            "Trusted: the reference implementations (validated on published vectors) and value-obliviousness of the algorithms for keys/IVs outside the boundary set. Lengths above 1024 and features the host lacks are not covered. ARC4 'A' blocks are judged against the documented bare-key rule only.",
            "DESIGN.md §4 C09"),
    "C15": ("NET", "model_checking",
            "exhaustive enumeration of accepted build databases x requests x transports through the real server and client code (function level and over loopback sockets), plus all arrival orders of misbehaving clients",
            "Every single-record database over the field alphabets and the multi-record time-order databases that BuildDatabase::from_file accepts, x product x endpoint x TCP v1/v2 through the server's handle_command and the client's own parse path; the real tcp/http servers and RibbitClient/TactClient over loopback for a spanning subset; every multiset of <=2 misbehaving request classes with one well-formed client in every arrival order. Oracle: client-parsed rows equal the newest record field by field; a well-formed client is answered within 2 s; the server survives.",
            "Trusted: loopback sockets stand for the network; 'newest' means chronologically newest; tied timestamps accept any tied record. Field values outside the alphabets are not covered.",
            "DESIGN.md §4 C15"),
    "C06": ("CRASH", "fault_enumeration",
            "crash-point x torn-write enumeration over the strace-recorded syscall log of the real save routines, recovery with the real loaders",
            "For every scenario (short pre-history, then the save under test: IndexManager::save_all after add/remove/flush, ResidencyDb::save, LruManager::checkpoint_to_disk/shutdown, DiskCache::put/remove) the syscalls of the real routine are recorded with strace; every crash point, every durable prefix of the name-space operations and every prefix/tear/zero-tail variant of every un-synced write is materialised as a directory; the real loader must succeed and every object must equal its state before or after the save. The log interpretation is self-checked (full replay must reproduce the final directory).",
            "Trusted: the persistence model of DESIGN §2.3 (name-space ops durable in program order up to an adversarial prefix, data durable only up to the last fsync, byte-granular tearing), strace completeness, and that the pre-history is durable. File systems that persist a rename before the renamed file's fsynced data are outside the model.",
            "DESIGN.md §2.3, §4 C06"),
    "C17": ("SEQ", "model_checking",
            "explicit-state exploration of all operation histories up to a depth bound on the real LruManager, lock-step with a textbook LRU model",
            "Every history of <=5 (quick) / <=6 (thorough) operations over touch/remove/evict_tail/evict_to_target/bump_generation/checkpoint/load/run_cycle/reset/shutdown x 4 keys (one all-zero) x capacities 0..3 is executed on the real LruManager and compared after every step with a VecDeque LRU (contents, order, len, contains, return values). Exhaustive within the bound; the first counterexample is the shortest.",
            "Trusted: the 60-line VecDeque reference model and the generation->snapshot map that follows the documented checkpoint protocol. In addition every history of <=3 (quick) / <=5 (thorough) operations from two checkpointed pre-states ([touch,touch,checkpoint] and [touch x3,checkpoint,bump]) at capacities 2 and 3. Quick: histories of depth 5 carry at most one disk operation (two up to depth 4 and from the pre-states). Histories longer than the bounds are not covered.",
            "DESIGN.md §4 C17"),
}


# additions of the third build session (appended to the level text / note of the table above)
ADD_TEXT = {
    "C01": " Both tiers also run chunk size 1 over 1 029 and 65 537 bytes (chunk counts beyond 8 and 16 bits of the 24-bit field); quick has a depth-3 level over {1 byte, empty, chunk size + 1} x N/Z x plain/Salsa20.",
    "C03": " Root manifests additionally: unnamed records without NO_NAME_HASH, paths handed in only together with NO_NAME_HASH next to an ordinary block without a named file, and builder programs that remove a FileDataID again (first / middle / last record) before build.",
    "C05": " Index pre-states include a sorted section that ends exactly on a 64 KiB boundary (25 484 entries) next to the two that end just past one.",
    "C06": " Disk-cache scenarios include a value at the cache's large-file size (16 MiB) on the plain instance and on the instance built with its background tasks. Every crash image that loads must also take the next save of the same kind and show it to the next instance. (Session 4) plus the background-task instance with a one-second periodic sync (a configuration value nothing in the repository sets).",
    "C07": " Both tiers run every position of every artifact and cache histories of depth 5 (thorough 6); the cache subjects include the empty size class (a backing file with a header and no payload, an empty value put below a non-empty key). (Session 4) The update-page artifact also comes completely full (21 entries: no empty slot ends the log).",
    "C09": " The quick tier runs the thorough bounds except the 256 MiB Salsa20 stream (16 MiB instead).",
    "C10": " Also: the memory cache built with its cleanup task (paused clock, tick), with statistics collection off, and expiry scripts - every script to depth 5 (thorough 6) over {put_short (900 ms, real time), put_hour, get, contains, reopen, wait} that starts with put_short, has one wait and observes after it, judged only where the measured times leave no doubt.",
    "C11": " The entry-count and usage counters of MemoryCache and DiskCache are scheduling points too (every load / store / fetch_* / compare_exchange), and the lock wrappers model writer preference (a read() behind a waiting writer blocks), so a nested read on a wrapped lock is reported as a deadlock. (Session 4) One pass of the DiskCache background cleanup task is a scheduled task too: the cache is built with new_with_background_tasks on a private runtime with a paused clock, the task that executes `cleanup` advances that clock and polls the spawned task on its own thread, so the pass (index write lock, counter updates, unlinks) interleaves at every scheduling point with each foreground operation on the same key - from pre-states with an expired entry, a live entry, both, and three live entries over max_files = 2 (the pass evicts).",
    "C12": " (Session 4) The core alphabet contains RESTART (at most one per history, never first): the cache object is dropped and a new MultiLayerCacheImpl is built on the same directories; the model empties its memory layers, keeps the disk layer's holdings and forgets which value had been the visible answer.",
    "C13": " (8) a TACT endpoint answering 200 with the full Content-Length and the body cut by the peer after every proper prefix.",
    "C15": " Both tiers run the full date grid, every ordered pair of misbehaving request classes and every request line; product names include letters and digits outside ASCII, build times lie on both sides of 2^31 and 2^32 seconds and in the year 9999 (thorough adds the years 2038, 2106, 2400 to the grid).",
    "C16": " A fifth encoding, z128k (128 KiB per letter, extremely compressible), runs with large diff-block sizes over strings of length <= 1 (thorough 2).",
    "C18": " A wide part compacts sparse files whose first live span (2^31-4096 ... 2^32+2^31 bytes) is already in place and is followed by a gap and 100 live bytes: length, reported saving, the small span and both ends of the large one are compared. (Session 4) The merge-plan grid has a headered segment size (2048 bytes: the 480-byte segment header plus payload; write positions 0, 480, 481, quarter points of the payload area, s-1, s) next to the header-less sizes 8 and 100.",
    "C19": " The quick tier runs the thorough bounds. (Session 4) Two more subjects start from two files and three tags (a, b and a third tag that selects file 0), depth 5 (thorough 6): removals of a tag that is neither last nor second to last, followed by by-name operations.",
    "C20": " Also: the raw-key sequence on the disk cache built with its background tasks (an entry expired at once and an entry over max_files, each followed by a cleanup pass on a paused clock), and every ordered pair of distinct accepted endpoints (product segments differing only in _ - . / and case) through RibbitTactClient::query on one cache directory against a mock whose answers name the request target.",
}
ADD_NOTE = {
    "C11": " Further hook commits: 2621226 (atomics wrapper, counted DashMap guards), 0bb4597 (writer preference). Counter operations inside the scope of a DashMap shard guard are deliberately not scheduling points.",
    "C10": " The expiry scripts run in real time: observations too close to the end of the TTL are counted as unjudged, never alarmed on.",
}

NOT_YET = {
}

def main():
    hooks_commits = []
    hc = os.path.join(ROOT, "tools", "hook_commits.txt")
    if os.path.exists(hc):
        hooks_commits = [l.split()[0] for l in open(hc) if l.strip() and not l.startswith("#")]
    props = [json.loads(l)["id"] for l in open(os.path.join(ROOT, "properties.jsonl"))]
    checks = []
    for pid in props:
        if pid not in CHECKS:
            continue
        eng, cat, tech, text, note, ref = CHECKS[pid]
        text += ADD_TEXT.get(pid, "")
        note += ADD_NOTE.get(pid, "")
        checks.append({
            "property_id": pid,
            "quick_cmd": f"./check {pid} quick",
            "thorough_cmd": f"./check {pid} thorough",
            "evidence_file": f"/verif/evidence/{pid}.json",
            "replay_cmd_template": f"./check {pid} replay {{path}}",
            "engine": eng,
            "level_claimed": {"category": cat, "text": text, "design_ref": ref},
            "level_note": note,
            "technique": tech,
        })
    na = []
    for pid in props:
        if pid not in CHECKS:
            na.append({"property_id": pid, "reason": NOT_YET.get(pid, "check under construction in this round (engine designed in DESIGN.md, not yet registered); not claimed until it runs clean on the unchanged tree")})
    man = {
        "version": 1,
        "setup_cmd": "./check build",
        "hooks": {
            "guard": "verif-hooks",
            "enable": "cargo feature `verif-hooks` on cascette-cache and cascette-client-storage, switched on by the path dependencies in harness/Cargo.toml",
            "baseline_off_cmd": "/verif/tools/repo_tests.sh",
            "source_commits": hooks_commits,
            "add_only": False,  # 0da5b95 and b72114b rewrite one import line each in disk_cache.rs, multi_layer.rs and container/dynamic.rs (cfg-switched RwLock import); a395111 hoists one atomic load of fast_snapshot() into a local so that a point fits between the two loads; a160769 rewrites the DashMap import of memory_cache.rs and the RwLock import of storage/archive_file.rs; 2621226 rewrites the atomic imports of memory_cache.rs and disk_cache.rs; everything else only adds
        },
        "engines": [
            {"name": "SEQ", "path": "harness/src/seq.rs", "serves_properties": [p for p in props if p in CHECKS and CHECKS[p][0].startswith("SEQ")], "kind_free_text": "explicit-state exploration of operation histories on the real object in lock-step with a reference model; state = history, rebuilt by replay; BFS by depth; 1-minimal counterexamples"},
            {"name": "ENUM", "path": "harness/src/enumx.rs", "serves_properties": [p for p in props if p in CHECKS and CHECKS[p][0].startswith("ENUM")], "kind_free_text": "bounded-exhaustive enumeration of inputs/programs (deviation-bounded mutants, all small builder programs), optional process isolation with counting allocator"},
            {"name": "SCHED", "path": "harness/src/sched.rs", "serves_properties": [p for p in props if p in CHECKS and CHECKS[p][0].startswith("SCHED")], "kind_free_text": "stateless exploration of thread interleavings of the real code under a controlled scheduler (hook points), iterative preemption bounding, brute-force linearizability oracle"},
            {"name": "CRASH", "path": "harness/src/crash.rs", "serves_properties": [p for p in props if p in CHECKS and CHECKS[p][0].startswith("CRASH")], "kind_free_text": "crash-point x torn-write enumeration over the strace-recorded syscall log of the real save routine; recovery with the real loader; oracle old|new"},
            {"name": "NET", "path": "harness/src/net.rs", "serves_properties": [p for p in props if p in CHECKS and CHECKS[p][0].startswith("NET")], "kind_free_text": "enumeration of environment answers over loopback mock endpoints driving the real clients/servers"},
        ],
        "checks": checks,
        "not_applicable": na,
        "notes": "All checks: ./check <id> quick|thorough rebuilds the harness against /repo's working tree (path dependencies) and runs vcheck. Exit 0 held / 1 VIOLATION / 2 MACHINERY-ERROR. Known findings: KNOWN_FINDINGS.json (read-only at run time).",
    }
    with open(os.path.join(ROOT, "MANIFEST.json"), "w") as f:
        json.dump(man, f, indent=1)
        f.write("\n")
    # validate
    try:
        import jsonschema
        schema = json.load(open("/root/.vp/MANIFEST.schema.json"))
        jsonschema.validate(man, schema)
        print("MANIFEST.json valid;", len(checks), "checks,", len(na), "not yet claimed")
    except ImportError:
        print("jsonschema not importable here; wrote MANIFEST.json unvalidated")

if __name__ == "__main__":
    main()
