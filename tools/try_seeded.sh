#!/bin/bash
# usage: try_seeded.sh <patch.diff> <Cxx> [quick|thorough]
# Applies a seeded change to /repo, runs the check, and ALWAYS restores /repo afterwards.
PATCH="$(realpath "$1")"; PROP="$2"; TIER="${3:-quick}"
if [ -n "$(git -C /repo status --porcelain)" ]; then echo "REFUSING: /repo has uncommitted changes"; exit 3; fi
if ! git -C /repo apply --check "$PATCH" 2>/dev/null; then echo "PATCH DOES NOT APPLY (3-way attempt)"; git -C /repo apply -3 "$PATCH" || { git -C /repo reset -q --hard HEAD; echo "(restored /repo)"; exit 4; }; else git -C /repo apply "$PATCH"; fi
# evidence written while a seeded change is applied must not replace the evidence of the unchanged tree
EV="/verif/evidence/$PROP.json"; [ -f "$EV" ] && cp "$EV" "/tmp/try_seeded.$$.ev"
cd /verif && ./check "$PROP" "$TIER" > /tmp/try_seeded.$$.log 2>&1; rc=$?
[ -f "/tmp/try_seeded.$$.ev" ] && mv "/tmp/try_seeded.$$.ev" "$EV"
git -C /repo reset -q --hard HEAD; git -C /repo clean -fdq -- crates >/dev/null 2>&1
grep -E "^VIOLATION|^KNOWN-FINDING|MACHINERY|done in" /tmp/try_seeded.$$.log | head -12
grep -A2 "^VIOLATION" /tmp/try_seeded.$$.log | grep -E "kind=|detail" | head -6 | cut -c1-300
echo "exit=$rc  (1 = detected)"; rm -f /tmp/try_seeded.$$.log
exit $rc
