#!/usr/bin/env python3
"""Confirm a seeded change independently and, if everything holds, store it under /verif/seeded/<id>/.

usage: confirm_seeded.py <source dir with patch.diff + demo *.rs + meta.json> <seeded id> <property> [<check that catches it> ...]

Steps (all in a scratch worktree of /repo HEAD under /tmp/confirm, never in /repo):
  1. demo on the unchanged tree            -> must PASS
  2. apply the patch (3-way if needed), regenerate patch.diff against the current HEAD
  3. cargo build                            -> must compile
  4. cargo test -p <touched crates>         -> must PASS (existing tests, without the demo)
  5. demo with the change                   -> must FAIL
Writes /verif/seeded/<id>/{patch.diff, demo.rs, meta.json}.
"""
import json, os, shutil, subprocess, sys, glob, re

def sh(cmd, cwd=None, env=None, timeout=3600):
    p = subprocess.run(cmd, shell=True, cwd=cwd, env=env, capture_output=True, text=True, timeout=timeout)
    return p.returncode, (p.stdout + p.stderr)

def main():
    src, sid, prop = sys.argv[1], sys.argv[2], sys.argv[3]
    caught_by = sys.argv[4:]
    W = os.environ.get("CONFIRM_DIR", "/tmp/confirm")
    repo = f"{W}/repo"
    env = dict(os.environ, CARGO_TARGET_DIR=f"{W}/target", CARGO_NET_OFFLINE="true")
    os.makedirs(W, exist_ok=True)
    if os.path.isdir(repo):
        sh(f"git -C /repo worktree remove --force {repo}")
    rc, out = sh(f"git -C /repo worktree add --detach {repo} HEAD")
    if rc != 0:
        print("cannot create worktree", out); return 2
    try:
        patch = os.path.join(src, "patch.diff")
        demos = [f for f in glob.glob(os.path.join(src, "*.rs"))]
        if not demos:
            print("no demo .rs in", src); return 2
        demo = demos[0]
        crates = sorted(set(re.findall(r"^\+\+\+ b/crates/([^/]+)/", open(patch).read(), re.M)))
        demo_text = open(demo).read()
        # the demo goes into the crate it exercises: prefer a crate named in the demo's `use` lines, else the first touched crate
        demo_crate = crates[0]
        for c in ["cascette-ribbit", "cascette-protocol", "cascette-client-storage", "cascette-cache", "cascette-formats", "cascette-crypto"]:
            if c in crates and c.replace("-", "_") in demo_text:
                demo_crate = c; break
        # a demo may drive a crate downstream of the touched one (override: DEMO_CRATE=<crate>)
        demo_crate = os.environ.get("DEMO_CRATE", demo_crate)
        tname = f"seeded_{sid.replace('-', '_').lower()}"
        tdir = f"{repo}/crates/{demo_crate}/tests"
        os.makedirs(tdir, exist_ok=True)
        shutil.copy(demo, f"{tdir}/{tname}.rs")
        demo_cmd = f"cargo test -p {demo_crate} --offline -j 12 --test {tname}"
        rc1, out1 = sh(demo_cmd, cwd=repo, env=env)
        clean_pass = rc1 == 0
        # apply
        rc, out = sh(f"git apply {patch}", cwd=repo)
        if rc != 0:
            rc, out = sh(f"git apply -3 {patch}", cwd=repo)
            if rc != 0:
                print("PATCH DOES NOT APPLY to current HEAD:", out[-500:]); return 1
        rcd, newdiff = sh("git diff HEAD -- crates ':!crates/*/tests/seeded_*'", cwd=repo)
        # remove the demo while running the existing tests
        os.rename(f"{tdir}/{tname}.rs", f"{W}/{tname}.rs.keep")
        rc2, out2 = sh("cargo build --offline -j 12 " + " ".join(f"-p {c}" for c in crates), cwd=repo, env=env)
        compiles = rc2 == 0
        rc3, out3 = sh("cargo test --offline -j 12 " + " ".join(f"-p {c}" for c in crates), cwd=repo, env=env)
        tests_pass = rc3 == 0
        os.rename(f"{W}/{tname}.rs.keep", f"{tdir}/{tname}.rs")
        rc4, out4 = sh(demo_cmd, cwd=repo, env=env)
        mutant_fails = rc4 != 0 and ("test result: FAILED" in out4 or "panicked" in out4)
        summary = {"demo_passes_on_unchanged_tree": clean_pass, "compiles_with_change": compiles,
                   "existing_tests_pass_with_change": tests_pass, "demo_fails_with_change": mutant_fails}
        print(sid, summary)
        if not all(summary.values()):
            print("NOT KEPT"); print(out1[-400:] if not clean_pass else ""); print(out3[-600:] if not tests_pass else ""); print(out4[-400:] if not mutant_fails else "")
            return 1
        dst = f"/verif/seeded/{sid}"
        os.makedirs(dst, exist_ok=True)
        open(f"{dst}/patch.diff", "w").write(newdiff)
        shutil.copy(demo, f"{dst}/demo.rs")
        meta = {}
        mp = os.path.join(src, "meta.json")
        if os.path.exists(mp):
            try: meta = json.load(open(mp))
            except Exception: meta = {"raw": open(mp).read()}
        keep = {"property": prop,
                "what_changed": meta.get("what_changed", meta.get("title", "")),
                "why_it_breaks_the_property": meta.get("why_it_breaks_the_property", ""),
                "needs_to_manifest": meta.get("needs_to_manifest", ""),
                "origin": "written by a fresh sub-agent that saw only the property record and a scratch worktree (nothing from /verif)",
                "confirmed_by_me": {
                    "where": "scratch worktree of /repo HEAD under /tmp/confirm (removed afterwards)",
                    "repo_head": subprocess.run("git -C /repo rev-parse --short HEAD", shell=True, capture_output=True, text=True).stdout.strip(),
                    "demo": f"demo.rs copied to crates/{demo_crate}/tests/{tname}.rs; `{demo_cmd}`",
                    "results": summary,
                    "existing_tests_cmd": "cargo test --offline " + " ".join(f"-p {c}" for c in crates),
                },
                "caught_by_checks": caught_by,
                }
        json.dump(keep, open(f"{dst}/meta.json", "w"), indent=1)
        print("KEPT", dst)
        return 0
    finally:
        sh(f"git -C /repo worktree remove --force {repo}")

if __name__ == "__main__":
    sys.exit(main())
