#!/bin/bash
# all thorough tiers in a private sandbox (scratch worktree + copy of /verif)
W=/tmp/thor
git -C /repo worktree remove --force $W/repo 2>/dev/null; rm -rf $W; mkdir -p $W
git -C /repo worktree add --detach $W/repo HEAD >/dev/null 2>&1
rsync -a --exclude .git --exclude replays --exclude seeded /verif/ $W/verif/
sed -i "s#/repo/crates/#$W/repo/crates/#g" $W/verif/harness/Cargo.toml
cd $W/verif
for p in ${PROPS:-C01 C03 C04 C05 C06 C07 C09 C10 C11 C12 C13 C14 C15 C16 C17 C18 C20}; do
  s=$(date +%s)
  env -u VERIF_ROOT CARGO_NET_OFFLINE=true ./check $p thorough > $W/$p.log 2>&1; rc=$?
  e=$(date +%s)
  echo "$p thorough rc=$rc secs=$((e-s)) $(grep -E 'done in' $W/$p.log | cut -c1-160)"
  grep -E "^VIOLATION|MACHINERY" $W/$p.log | head -5
  cp $W/verif/evidence/$p.json $W/$p.evidence.json 2>/dev/null
done
echo ALL-THOROUGH-DONE
