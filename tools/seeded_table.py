#!/usr/bin/env python3
"""Print the markdown table of DESIGN.md Appendix B.4 from seeded/*/meta.json and seeded/RESULTS.json."""
import json, os
ROOT = "/verif"
res = json.load(open(f"{ROOT}/seeded/RESULTS.json")) if os.path.exists(f"{ROOT}/seeded/RESULTS.json") else {}
notes = json.load(open(f"{ROOT}/seeded/NOTES.json")) if os.path.exists(f"{ROOT}/seeded/NOTES.json") else {}
print("| seeded change | what it does | needs | caught by | note |")
print("|---|---|---|---|---|")
for i in sorted(d for d in os.listdir(f"{ROOT}/seeded") if os.path.isdir(f"{ROOT}/seeded/{d}")):
    m = json.load(open(f"{ROOT}/seeded/{i}/meta.json"))
    def short(s, n):
        s = " ".join(str(s).split())
        return (s[: n - 1] + "…") if len(s) > n else s
    r = res.get(i)
    if r is None:
        by = "(not run yet)"
    elif r["detected"]:
        hit = [x for x in r["runs"] if x["exit"] == 1][0]
        sig = hit["first_signatures"][0] if hit["first_signatures"] else ""
        sig = sig.split("sig=")[-1] if "sig=" in sig else sig
        by = f"**{hit['check']}** ({hit['seconds']:.0f} s) `{short(sig, 70)}`"
        missed_first = [x["check"] for x in r["runs"] if x["exit"] == 0]
        if missed_first:
            by += f"; not by {', '.join(missed_first)}"
    else:
        by = "**MISSED** by " + ", ".join(x["check"] for x in r["runs"])
    if m.get("superseded"):
        by += " (superseded at HEAD, see meta.json)"
    print(f"| `{i}` | {short(m.get('what_changed') or '', 150)} | {short(m.get('needs_to_manifest') or '', 120)} | {by} | {notes.get(i, '')} |")
