#!/bin/bash
# usage: mk_mutant_sandbox.sh <id> <property-id>  — prepares /tmp/mut/<id>/{repo (git worktree of /repo HEAD), out/, PROPERTY.json}
set -e
ID="$1"; PROP="$2"; W=/tmp/mut/$ID
mkdir -p "$W/out"
git -C /repo worktree add --detach "$W/repo" HEAD >/dev/null 2>&1
python3 - "$PROP" "$W/PROPERTY.json" <<'PY'
import json,sys
for l in open('/verif/properties.jsonl'):
    p=json.loads(l)
    if p['id']==sys.argv[1]:
        json.dump(p,open(sys.argv[2],'w'),indent=1)
PY
echo "$W ready"
