#!/usr/bin/env python3
"""Run every stored seeded change (/verif/seeded/<id>/patch.diff) against the checks recorded in its
meta.json (caught_by_checks; default: "<property> quick") and write /verif/seeded/RESULTS.json.

Runs in a private sandbox (scratch worktree of /repo HEAD + copy of /verif with the harness' path
dependencies pointed at the worktree) under /tmp/seedrun, so /repo and /verif/evidence are never
touched; the sandbox is removed at the end. usage: run_seeded_all.py [--keep] [id-prefix ...]"""
import json, os, subprocess, sys, time, shutil
ROOT = "/verif"
W = os.environ.get("SEEDRUN_DIR", "/tmp/seedrun")

def sh(cmd, **kw):
    return subprocess.run(cmd, shell=True, capture_output=True, text=True, **kw)

def mk_sandbox():
    if os.path.isdir(f"{W}/repo"):
        sh(f"git -C /repo worktree remove --force {W}/repo")
    shutil.rmtree(W, ignore_errors=True)
    os.makedirs(W)
    r = sh(f"git -C /repo worktree add --detach {W}/repo HEAD")
    if r.returncode != 0:
        sys.exit("cannot create worktree: " + r.stderr)
    sh(f"rsync -a --exclude .git --exclude replays --exclude seeded {ROOT}/ {W}/verif/")
    sh(f"sed -i 's#/repo/crates/#{W}/repo/crates/#g' {W}/verif/harness/Cargo.toml")

def rm_sandbox():
    sh(f"git -C /repo worktree remove --force {W}/repo")
    shutil.rmtree(W, ignore_errors=True)

def run_one(patch, prop, tier):
    repo = f"{W}/repo"
    r = sh(f"git apply --check {patch}", cwd=repo)
    r = sh(f"git apply {patch}" if r.returncode == 0 else f"git apply -3 {patch}", cwd=repo)
    if r.returncode != 0:
        sh("git reset -q --hard HEAD", cwd=repo)
        return 4, "PATCH DOES NOT APPLY: " + r.stderr[-300:]
    env = dict(os.environ, CARGO_NET_OFFLINE="true")
    env.pop("VERIF_ROOT", None)
    p = subprocess.run([f"{W}/verif/check", prop, tier], capture_output=True, text=True, env=env)
    sh("git reset -q --hard HEAD && git clean -fdq -- crates", cwd=repo)
    return p.returncode, p.stdout

def main():
    args = sys.argv[1:]
    keep = "--keep" in args
    sel = [a for a in args if not a.startswith("--")]
    ids = sorted(d for d in os.listdir(f"{ROOT}/seeded") if os.path.isfile(f"{ROOT}/seeded/{d}/patch.diff"))
    if sel:
        ids = [i for i in ids if any(i.startswith(s) for s in sel)]
    res_path = os.environ.get("SEEDRUN_RESULTS", f"{ROOT}/seeded/RESULTS.json")
    results = json.load(open(res_path)) if os.path.exists(res_path) else {}
    head = sh("git -C /repo rev-parse --short HEAD").stdout.strip()
    vhead = sh(f"git -C {ROOT} rev-parse --short HEAD").stdout.strip()
    mk_sandbox()
    try:
        # the unchanged tree must pass in the sandbox first (also warms the build)
        base = {}
        for i in ids:
            meta = json.load(open(f"{ROOT}/seeded/{i}/meta.json"))
            if meta.get("superseded"):
                print(i, "SKIPPED (superseded):", meta["superseded"][:80], flush=True)
                if i in results:
                    results[i]["superseded"] = meta["superseded"]
                continue
            checks = meta.get("caught_by_checks") or [f"{meta['property']} quick"]
            out, detected = [], False
            for c in checks:
                prop, tier = c.split()[0], (c.split() + ["quick"])[1]
                if tier == "quick" and (prop, tier) not in base:
                    env = dict(os.environ, CARGO_NET_OFFLINE="true"); env.pop("VERIF_ROOT", None)
                    b = subprocess.run([f"{W}/verif/check", prop, tier], capture_output=True, text=True, env=env)
                    base[(prop, tier)] = b.returncode
                    if b.returncode != 0:
                        print(f"WARNING: {prop} {tier} exits {b.returncode} on the unchanged tree in the sandbox", flush=True)
                t = time.time()
                rc, txt = run_one(f"{ROOT}/seeded/{i}/patch.diff", prop, tier)
                sig = [l.strip()[:240] for l in txt.splitlines() if "kind=" in l][:2]
                out.append({"check": f"{prop} {tier}", "exit": rc, "seconds": round(time.time() - t, 1), "first_signatures": sig,
                            "exit_on_unchanged_tree": base.get((prop, tier))})
                if rc == 1:
                    detected = True
                    break
            results[i] = {"property": meta["property"], "detected": detected, "runs": out, "repo_head": head, "verif_head": vhead}
            print(i, "DETECTED" if detected else "MISSED", [(o["check"], o["exit"]) for o in out], flush=True)
            json.dump(results, open(res_path, "w"), indent=1, sort_keys=True)
    finally:
        if not keep:
            rm_sandbox()
    missed = [i for i in results if not results[i]["detected"]]
    print(f"{len(results)} seeded changes, {len(results) - len(missed)} detected; missed: {missed}")

if __name__ == "__main__":
    main()
