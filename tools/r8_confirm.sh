#!/bin/bash
# usage: r8_confirm.sh <agent dir e.g. /tmp/mut/r8-C17/out/m2> <seeded id> <property> [DEMO_CRATE]
# confirm in a private scratch dir (parallel-safe), log to /tmp/r8log/<id>.confirm
SRC="$1"; ID="$2"; PROP="$3"; mkdir -p /tmp/r8log
[ -n "${4:-}" ] && export DEMO_CRATE="$4"
export CONFIRM_DIR=/tmp/confirm-$ID
python3 /verif/tools/confirm_seeded.py "$SRC" "$ID" "$PROP" "$PROP quick" > /tmp/r8log/$ID.confirm 2>&1
rc=$?
rm -rf "$CONFIRM_DIR"
git -C /repo worktree prune
tail -3 /tmp/r8log/$ID.confirm
exit $rc
