//! NET — loopback mock endpoints whose behaviour is chosen by the explorer (DESIGN §2.5).

use std::net::SocketAddr;
use std::sync::{Arc, Mutex};
use std::time::Duration;
use tokio::io::{AsyncReadExt, AsyncWriteExt};
use tokio::net::{TcpListener, TcpStream};

#[derive(Clone, Debug, PartialEq)]
pub enum HttpBehaviour {
    /// 200 with this body
    Ok(Vec<u8>),
    /// status code, optional Retry-After seconds
    Status(u16, Option<u32>),
    Refuse,
    AcceptClose,
    /// 200, Content-Length = full length, only the first half is sent, then close
    CloseMidBody(Vec<u8>),
    /// 200, Content-Length = full length, only the first n bytes are sent, then close
    CloseAfter(Vec<u8>, usize),
    Stall,
}

#[derive(Clone, Debug, PartialEq)]
pub enum TcpBehaviour {
    /// send these bytes, then close; `cut`: write [..cut], pause, write the rest;
    /// `cut2` (> cut): a second pause after [..cut2]
    Send { data: Vec<u8>, cut: Option<usize>, cut2: Option<usize> },
    Refuse,
    AcceptClose,
    /// send the first half, then close
    CloseMid(Vec<u8>),
    Stall,
}

/// A port that refuses connections for as long as the guard lives (bound, never listening),
/// so that no other scenario can be handed the same port.
pub struct RefusingPort {
    fd: i32,
    pub port: u16,
}

impl RefusingPort {
    pub fn new() -> RefusingPort {
        // SAFETY: plain socket/bind/getsockname on a fresh fd owned by the guard.
        unsafe {
            let fd = libc::socket(libc::AF_INET, libc::SOCK_STREAM, 0);
            assert!(fd >= 0);
            let mut addr: libc::sockaddr_in = std::mem::zeroed();
            addr.sin_family = libc::AF_INET as u16;
            addr.sin_addr.s_addr = u32::from_be_bytes([127, 0, 0, 1]).to_be();
            addr.sin_port = 0;
            let r = libc::bind(fd, std::ptr::addr_of!(addr).cast(), std::mem::size_of::<libc::sockaddr_in>() as u32);
            assert!(r == 0, "bind refusing port");
            let mut len = std::mem::size_of::<libc::sockaddr_in>() as u32;
            let r = libc::getsockname(fd, std::ptr::addr_of_mut!(addr).cast(), &mut len);
            assert!(r == 0);
            RefusingPort { fd, port: u16::from_be(addr.sin_port) }
        }
    }
}

impl Drop for RefusingPort {
    fn drop(&mut self) {
        // SAFETY: closing our own fd.
        unsafe { libc::close(self.fd) };
    }
}

/// A loopback port set aside for a server that insists on binding by address
/// (`start_server(addr, ..)`): the guard binds it with SO_REUSEADDR and never listens. While the
/// guard lives the kernel hands the port to nobody else — neither to a `bind(port 0)` nor as the
/// source port of an outgoing connection (automatic port selection skips every port that has a
/// bound socket, SO_REUSEADDR or not) — while an explicit `bind(addr:port)` by a listener that
/// also sets SO_REUSEADDR (tokio's `TcpListener::bind` does) succeeds, because the guard is not
/// listening. Connections go to the one listening socket. Picking a port by binding port 0,
/// closing that socket and letting the server bind the number leaves a window in which the number
/// is free; this does not. (Linux semantics; checked on this kernel by exhausting the ephemeral
/// range both ways while a guard was held — DESIGN B.9.)
pub struct ReservedPort {
    fd: i32,
    pub port: u16,
}

impl ReservedPort {
    pub fn new() -> ReservedPort {
        // SAFETY: plain socket/setsockopt/bind/getsockname on a fresh fd owned by the guard.
        unsafe {
            let fd = libc::socket(libc::AF_INET, libc::SOCK_STREAM | libc::SOCK_CLOEXEC, 0);
            assert!(fd >= 0, "socket for a reserved port");
            let one: libc::c_int = 1;
            let r = libc::setsockopt(fd, libc::SOL_SOCKET, libc::SO_REUSEADDR, std::ptr::addr_of!(one).cast(), std::mem::size_of::<libc::c_int>() as u32);
            assert!(r == 0, "SO_REUSEADDR on a reserved port");
            let mut addr: libc::sockaddr_in = std::mem::zeroed();
            addr.sin_family = libc::AF_INET as u16;
            addr.sin_addr.s_addr = u32::from_be_bytes([127, 0, 0, 1]).to_be();
            addr.sin_port = 0;
            let r = libc::bind(fd, std::ptr::addr_of!(addr).cast(), std::mem::size_of::<libc::sockaddr_in>() as u32);
            assert!(r == 0, "bind a reserved port");
            let mut len = std::mem::size_of::<libc::sockaddr_in>() as u32;
            let r = libc::getsockname(fd, std::ptr::addr_of_mut!(addr).cast(), &mut len);
            assert!(r == 0);
            ReservedPort { fd, port: u16::from_be(addr.sin_port) }
        }
    }
}

impl Drop for ReservedPort {
    fn drop(&mut self) {
        // SAFETY: closing our own fd.
        unsafe { libc::close(self.fd) };
    }
}

#[derive(Default, Clone, Debug)]
pub struct MockLog {
    /// one entry per accepted connection: the request line / command received
    pub requests: Vec<String>,
}

pub struct Mock {
    pub port: u16,
    pub log: Arc<Mutex<MockLog>>,
    _refuse: Option<RefusingPort>,
    task: Option<tokio::task::JoinHandle<()>>,
}

impl Mock {
    pub fn requests(&self) -> Vec<String> {
        self.log.lock().unwrap().requests.clone()
    }
    pub fn count(&self) -> usize {
        self.log.lock().unwrap().requests.len()
    }
}

impl Drop for Mock {
    fn drop(&mut self) {
        if let Some(t) = self.task.take() {
            t.abort();
        }
    }
}

async fn read_http_request(s: &mut TcpStream) -> Option<String> {
    let mut buf = Vec::new();
    let mut tmp = [0u8; 2048];
    loop {
        match tokio::time::timeout(Duration::from_secs(10), s.read(&mut tmp)).await {
            Ok(Ok(0)) | Ok(Err(_)) | Err(_) => break,
            Ok(Ok(n)) => {
                buf.extend_from_slice(&tmp[..n]);
                if buf.windows(4).any(|w| w == b"\r\n\r\n") {
                    break;
                }
            }
        }
    }
    let text = String::from_utf8_lossy(&buf);
    text.lines().next().map(|l| l.to_string())
}

pub async fn http_mock(b: HttpBehaviour) -> Mock {
    let log = Arc::new(Mutex::new(MockLog::default()));
    if b == HttpBehaviour::Refuse {
        let r = RefusingPort::new();
        return Mock { port: r.port, log, _refuse: Some(r), task: None };
    }
    let listener = TcpListener::bind("127.0.0.1:0").await.expect("bind http mock");
    let port = listener.local_addr().map(|a: SocketAddr| a.port()).unwrap_or(0);
    let log2 = log.clone();
    let task = tokio::spawn(async move {
        let mut held: Vec<TcpStream> = Vec::new();
        loop {
            let Ok((mut s, _)) = listener.accept().await else { break };
            let _ = s.set_nodelay(true);
            match &b {
                HttpBehaviour::AcceptClose => {
                    log2.lock().unwrap().requests.push("<accepted, closed>".into());
                    drop(s);
                }
                HttpBehaviour::Stall => {
                    let line = read_http_request(&mut s).await.unwrap_or_default();
                    log2.lock().unwrap().requests.push(line);
                    held.push(s);
                }
                HttpBehaviour::Ok(body) => {
                    let line = read_http_request(&mut s).await.unwrap_or_default();
                    log2.lock().unwrap().requests.push(line);
                    let head = format!("HTTP/1.1 200 OK\r\nContent-Type: text/plain\r\nContent-Length: {}\r\nConnection: close\r\n\r\n", body.len());
                    let _ = s.write_all(head.as_bytes()).await;
                    let _ = s.write_all(body).await;
                    let _ = s.shutdown().await;
                }
                HttpBehaviour::Status(code, ra) => {
                    let line = read_http_request(&mut s).await.unwrap_or_default();
                    log2.lock().unwrap().requests.push(line);
                    let ra = ra.map(|n| format!("Retry-After: {n}\r\n")).unwrap_or_default();
                    let head = format!("HTTP/1.1 {code} Status\r\n{ra}Content-Length: 0\r\nConnection: close\r\n\r\n");
                    let _ = s.write_all(head.as_bytes()).await;
                    let _ = s.shutdown().await;
                }
                HttpBehaviour::CloseMidBody(body) => {
                    let line = read_http_request(&mut s).await.unwrap_or_default();
                    log2.lock().unwrap().requests.push(line);
                    let head = format!("HTTP/1.1 200 OK\r\nContent-Type: text/plain\r\nContent-Length: {}\r\nConnection: close\r\n\r\n", body.len());
                    let _ = s.write_all(head.as_bytes()).await;
                    let _ = s.write_all(&body[..body.len() / 2]).await;
                    let _ = s.flush().await;
                    drop(s);
                }
                HttpBehaviour::CloseAfter(body, n) => {
                    let line = read_http_request(&mut s).await.unwrap_or_default();
                    log2.lock().unwrap().requests.push(line);
                    let head = format!("HTTP/1.1 200 OK\r\nContent-Type: text/plain\r\nContent-Length: {}\r\nConnection: close\r\n\r\n", body.len());
                    let _ = s.write_all(head.as_bytes()).await;
                    let _ = s.write_all(&body[..(*n).min(body.len())]).await;
                    let _ = s.flush().await;
                    drop(s);
                }
                HttpBehaviour::Refuse => unreachable!(),
            }
        }
    });
    Mock { port, log, _refuse: None, task: Some(task) }
}

pub async fn tcp_mock(b: TcpBehaviour) -> Mock {
    let log = Arc::new(Mutex::new(MockLog::default()));
    if b == TcpBehaviour::Refuse {
        let r = RefusingPort::new();
        return Mock { port: r.port, log, _refuse: Some(r), task: None };
    }
    let listener = TcpListener::bind("127.0.0.1:0").await.expect("bind tcp mock");
    let port = listener.local_addr().map(|a: SocketAddr| a.port()).unwrap_or(0);
    let log2 = log.clone();
    let task = tokio::spawn(async move {
        let mut held: Vec<TcpStream> = Vec::new();
        loop {
            let Ok((mut s, _)) = listener.accept().await else { break };
            let _ = s.set_nodelay(true);
            if b == TcpBehaviour::AcceptClose {
                log2.lock().unwrap().requests.push("<accepted, closed>".into());
                drop(s);
                continue;
            }
            // read the command line
            let mut buf = Vec::new();
            let mut tmp = [0u8; 1024];
            loop {
                match tokio::time::timeout(Duration::from_secs(10), s.read(&mut tmp)).await {
                    Ok(Ok(0)) | Ok(Err(_)) | Err(_) => break,
                    Ok(Ok(n)) => {
                        buf.extend_from_slice(&tmp[..n]);
                        if buf.contains(&b'\n') {
                            break;
                        }
                    }
                }
            }
            log2.lock().unwrap().requests.push(String::from_utf8_lossy(&buf).trim().to_string());
            match &b {
                TcpBehaviour::Send { data, cut, cut2 } => {
                    let mut cuts: Vec<usize> = [*cut, *cut2].iter().flatten().copied().filter(|c| *c > 0 && *c < data.len()).collect();
                    cuts.sort_unstable();
                    cuts.dedup();
                    let mut from = 0;
                    for c in cuts {
                        let _ = s.write_all(&data[from..c]).await;
                        let _ = s.flush().await;
                        tokio::time::sleep(Duration::from_millis(120)).await;
                        from = c;
                    }
                    let _ = s.write_all(&data[from..]).await;
                    let _ = s.shutdown().await;
                }
                TcpBehaviour::CloseMid(data) => {
                    let _ = s.write_all(&data[..data.len() / 2]).await;
                    let _ = s.flush().await;
                    drop(s);
                }
                TcpBehaviour::Stall => held.push(s),
                TcpBehaviour::Refuse | TcpBehaviour::AcceptClose => unreachable!(),
            }
        }
    });
    Mock { port, log, _refuse: None, task: Some(task) }
}
