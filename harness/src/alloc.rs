//! Counting global allocator (DESIGN §2.4). Inert unless a thread arms it: then it records
//! the largest single request of that thread and refuses (returns null for) any single
//! request above the hard limit, so that a 30–270 GB `Vec::with_capacity` aborts
//! immediately and attributably instead of depending on overcommit.

use std::alloc::{GlobalAlloc, Layout, System};
use std::cell::Cell;
use std::sync::atomic::{AtomicPtr, Ordering};

pub struct CountingAlloc;

/// Documented decompression cap (1 GiB) + slack.
pub const HARD_LIMIT: usize = (1 << 30) + (64 << 20);

thread_local! {
    static ARMED: Cell<bool> = const { Cell::new(false) };
    static MAX_REQ: Cell<usize> = const { Cell::new(0) };
}

/// Where a refused request is recorded (points into the worker's status mapping), if any.
static REFUSED_SLOT: AtomicPtr<u64> = AtomicPtr::new(std::ptr::null_mut());

pub fn set_refused_slot(p: *mut u64) {
    REFUSED_SLOT.store(p, Ordering::SeqCst);
}

pub fn arm() {
    ARMED.with(|a| a.set(true));
    MAX_REQ.with(|m| m.set(0));
}

/// Disarm and return the largest single request seen since `arm()`.
pub fn disarm() -> usize {
    ARMED.with(|a| a.set(false));
    MAX_REQ.with(|m| m.get())
}

#[inline]
fn note(size: usize) -> bool {
    // returns false when the request must be refused
    let armed = ARMED.try_with(|a| a.get()).unwrap_or(false);
    if !armed {
        return true;
    }
    let _ = MAX_REQ.try_with(|m| {
        if size > m.get() {
            m.set(size);
        }
    });
    if size > HARD_LIMIT {
        let p = REFUSED_SLOT.load(Ordering::SeqCst);
        if !p.is_null() {
            // SAFETY: the slot points into a live mapping owned by this process for its lifetime.
            unsafe { std::ptr::write_volatile(p, size as u64) };
        }
        return false;
    }
    true
}

// SAFETY: delegates to System; only adds bookkeeping and a refusal path that returns null,
// which the GlobalAlloc contract permits.
unsafe impl GlobalAlloc for CountingAlloc {
    unsafe fn alloc(&self, l: Layout) -> *mut u8 {
        if !note(l.size()) {
            return std::ptr::null_mut();
        }
        unsafe { System.alloc(l) }
    }
    unsafe fn alloc_zeroed(&self, l: Layout) -> *mut u8 {
        if !note(l.size()) {
            return std::ptr::null_mut();
        }
        unsafe { System.alloc_zeroed(l) }
    }
    unsafe fn dealloc(&self, p: *mut u8, l: Layout) {
        unsafe { System.dealloc(p, l) }
    }
    unsafe fn realloc(&self, p: *mut u8, l: Layout, new_size: usize) -> *mut u8 {
        if !note(new_size) {
            return std::ptr::null_mut();
        }
        unsafe { System.realloc(p, l, new_size) }
    }
}
