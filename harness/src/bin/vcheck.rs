//! `vcheck run <Cxx> --tier quick|thorough` | `vcheck replay <Cxx> <file>` | `vcheck worker …`

use vharness::report::Tier;

#[global_allocator]
static GLOBAL: vharness::alloc::CountingAlloc = vharness::alloc::CountingAlloc;

fn main() {
    let args: Vec<String> = std::env::args().collect();
    vharness::util::announce_scratch_root();
    let code = real_main(&args);
    vharness::util::cleanup_scratch_root();
    std::process::exit(code);
}

fn real_main(args: &[String]) -> i32 {
    let seed: u64 = std::env::var("VERIF_SEED").ok().and_then(|s| s.parse().ok()).unwrap_or(0);
    match args.get(1).map(String::as_str) {
        Some("run") => {
            let Some(prop) = args.get(2) else { return usage() };
            let mut tier = match std::env::var("VERIF_TIER").ok().as_deref() {
                Some("thorough") => Tier::Thorough,
                _ => Tier::Quick,
            };
            let mut i = 3;
            while i < args.len() {
                if args[i] == "--tier" {
                    tier = match args.get(i + 1).map(String::as_str) {
                        Some("thorough") => Tier::Thorough,
                        _ => Tier::Quick,
                    };
                    i += 1;
                }
                i += 1;
            }
            vharness::util::install_quiet_panic_hook();
            // safety net: a subject that allocates without bound must fail inside this process
            // (allocation error → MACHINERY-ERROR) instead of taking the machine down
            let lim = libc::rlimit { rlim_cur: 40 << 30, rlim_max: 40 << 30 };
            // SAFETY: plain setrlimit on our own process.
            unsafe { libc::setrlimit(libc::RLIMIT_AS, &lim) };
            let res = std::panic::catch_unwind(|| vharness::props::run(prop, tier, seed));
            match res {
                Ok(Some(code)) => code,
                Ok(None) => {
                    println!("MACHINERY-ERROR: unknown property {prop}");
                    2
                }
                Err(e) => {
                    println!(
                        "MACHINERY-ERROR: engine panicked: {} at {:?}",
                        vharness::util::panic_message(&e),
                        vharness::util::take_last_panic_loc()
                    );
                    2
                }
            }
        }
        Some("replay") => {
            let (Some(prop), Some(file)) = (args.get(2), args.get(3)) else { return usage() };
            let data = match std::fs::read(file) {
                Ok(d) => d,
                Err(e) => {
                    println!("MACHINERY-ERROR: cannot read {file}: {e}");
                    return 2;
                }
            };
            let v: serde_json::Value = match serde_json::from_slice(&data) {
                Ok(v) => v,
                Err(e) => {
                    println!("MACHINERY-ERROR: cannot parse {file}: {e}");
                    return 2;
                }
            };
            match vharness::props::replay(prop, &v) {
                Some(c) => c,
                None => {
                    println!("MACHINERY-ERROR: no replay for {prop}");
                    2
                }
            }
        }
        Some("worker") => match args.get(2).map(String::as_str) {
            Some("c02") => vharness::props::c02::worker_main(args.get(3).map(String::as_str).unwrap_or("")),
            Some("c12") => vharness::props::c12::worker_main(),
            _ => usage(),
        },
        Some("crash-driver") => vharness::props::c06::driver_main(&args[2..]),
        _ => usage(),
    }
}

fn usage() -> i32 {
    eprintln!("usage: vcheck run <Cxx> [--tier quick|thorough] | vcheck replay <Cxx> <file>");
    2
}
