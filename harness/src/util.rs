//! Small shared helpers: scratch directories, hashing, deterministic filler bytes,
//! a parallel-for, and a per-thread tokio runtime.

use std::path::{Path, PathBuf};
use std::sync::atomic::{AtomicU64, AtomicUsize, Ordering};

static SCRATCH_SEQ: AtomicU64 = AtomicU64::new(0);

/// Root of all scratch data of this process (tmpfs). Removed by `cleanup_scratch_root`.
pub fn scratch_root() -> PathBuf {
    let base = if Path::new("/dev/shm").is_dir() {
        PathBuf::from("/dev/shm")
    } else {
        std::env::temp_dir()
    };
    let own = base.join(format!("verif-{}", std::process::id()));
    // worker processes live inside the scratch root of the process that started them, so that a
    // killed worker leaves nothing behind once the parent cleans up
    match std::env::var_os("VERIF_SCRATCH_PARENT") {
        Some(p) if Path::new(&p) != own && Path::new(&p).is_dir() => PathBuf::from(p).join(format!("w{}", std::process::id())),
        _ => own,
    }
}

/// Called once by the top-level process before it starts workers.
pub fn announce_scratch_root() {
    if std::env::var_os("VERIF_SCRATCH_PARENT").is_none() {
        let r = scratch_root();
        let _ = std::fs::create_dir_all(&r);
        // SAFETY: called at the very start of main, before any thread exists.
        unsafe { std::env::set_var("VERIF_SCRATCH_PARENT", &r) };
    }
}

pub fn cleanup_scratch_root() {
    let _ = std::fs::remove_dir_all(scratch_root());
}

static THREAD_SEQ: AtomicU64 = AtomicU64::new(0);
thread_local! {
    static THREAD_DIR: PathBuf = {
        let t = THREAD_SEQ.fetch_add(1, Ordering::Relaxed);
        let p = scratch_root().join(format!("t{t}"));
        let _ = std::fs::create_dir_all(&p);
        p
    };
}

/// A fresh, empty, unique scratch directory; removed when the guard drops.
pub struct Scratch {
    pub path: PathBuf,
}

impl Scratch {
    pub fn new(tag: &str) -> Scratch {
        let n = SCRATCH_SEQ.fetch_add(1, Ordering::Relaxed);
        // one parent directory per thread: directory operations under a shared parent
        // serialise on the parent's inode lock
        let path = THREAD_DIR.with(|d| d.join(format!("{tag}-{n}")));
        std::fs::create_dir_all(&path).expect("create scratch dir");
        Scratch { path }
    }
    pub fn path(&self) -> &Path {
        &self.path
    }
}

impl Drop for Scratch {
    fn drop(&mut self) {
        let _ = std::fs::remove_dir_all(&self.path);
    }
}

/// FNV-1a 64 — stable across runs and platforms (std's SipHash is randomly keyed
/// per `RandomState`, which we never use for anything reported).
pub fn fnv64(data: &[u8]) -> u64 {
    let mut h: u64 = 0xcbf2_9ce4_8422_2325;
    for b in data {
        h ^= u64::from(*b);
        h = h.wrapping_mul(0x0000_0100_0000_01b3);
    }
    h
}

pub fn fnv64_str(s: &str) -> u64 {
    fnv64(s.as_bytes())
}

/// SplitMix64: deterministic filler bytes outside the structural alphabet.
#[derive(Clone)]
pub struct SplitMix(pub u64);

impl SplitMix {
    pub fn next_u64(&mut self) -> u64 {
        self.0 = self.0.wrapping_add(0x9e37_79b9_7f4a_7c15);
        let mut z = self.0;
        z = (z ^ (z >> 30)).wrapping_mul(0xbf58_476d_1ce4_e5b9);
        z = (z ^ (z >> 27)).wrapping_mul(0x94d0_49bb_1331_11eb);
        z ^ (z >> 31)
    }
    pub fn bytes(&mut self, n: usize) -> Vec<u8> {
        let mut v = Vec::with_capacity(n);
        while v.len() < n {
            let x = self.next_u64().to_le_bytes();
            let take = (n - v.len()).min(8);
            v.extend_from_slice(&x[..take]);
        }
        v
    }
}

pub fn seeded_bytes(seed: u64, tag: u64, n: usize) -> Vec<u8> {
    SplitMix(seed ^ tag.wrapping_mul(0x9e37_79b9_7f4a_7c15)).bytes(n)
}

/// Number of worker threads to use.
pub fn workers() -> usize {
    std::env::var("VERIF_THREADS")
        .ok()
        .and_then(|s| s.parse().ok())
        .unwrap_or_else(|| {
            std::thread::available_parallelism()
                .map(|n| n.get())
                .unwrap_or(4)
                .min(16)
        })
}

/// Run `f(i)` for every `i in 0..n` on `workers()` threads (dynamic distribution),
/// returning the results in index order. Panics inside `f` propagate.
pub fn par_map<T: Send, F: Fn(usize) -> T + Sync>(n: usize, f: F) -> Vec<T> {
    par_map_threads(n, workers(), f)
}

pub fn par_map_threads<T: Send, F: Fn(usize) -> T + Sync>(n: usize, threads: usize, f: F) -> Vec<T> {
    let next = AtomicUsize::new(0);
    let threads = threads.max(1).min(n.max(1));
    let mut parts: Vec<Vec<(usize, T)>> = Vec::new();
    std::thread::scope(|s| {
        let mut hs = Vec::new();
        for _ in 0..threads {
            hs.push(s.spawn(|| {
                let mut out = Vec::new();
                loop {
                    let i = next.fetch_add(1, Ordering::Relaxed);
                    if i >= n {
                        break;
                    }
                    out.push((i, f(i)));
                }
                out
            }));
        }
        for h in hs {
            match h.join() {
                Ok(v) => parts.push(v),
                Err(e) => std::panic::resume_unwind(e),
            }
        }
    });
    let mut all: Vec<(usize, T)> = parts.into_iter().flatten().collect();
    all.sort_by_key(|(i, _)| *i);
    all.into_iter().map(|(_, t)| t).collect()
}

thread_local! {
    static RT: tokio::runtime::Runtime = tokio::runtime::Builder::new_current_thread()
        .enable_all()
        .build()
        .expect("tokio runtime");
}

/// Block on a future using this thread's private current-thread runtime.
pub fn block_on<F: std::future::Future>(f: F) -> F::Output {
    RT.with(|rt| rt.block_on(f))
}

/// Run a closure catching panics; returns Err(message) on panic.
pub fn catch<T>(f: impl FnOnce() -> T) -> Result<T, String> {
    match std::panic::catch_unwind(std::panic::AssertUnwindSafe(f)) {
        Ok(v) => Ok(v),
        Err(e) => Err(panic_message(&e)),
    }
}

pub fn panic_message(e: &Box<dyn std::any::Any + Send>) -> String {
    if let Some(s) = e.downcast_ref::<&str>() {
        (*s).to_string()
    } else if let Some(s) = e.downcast_ref::<String>() {
        s.clone()
    } else {
        "<non-string panic payload>".to_string()
    }
}

thread_local! {
    pub static LAST_PANIC_LOC: std::cell::RefCell<Option<String>> = const { std::cell::RefCell::new(None) };
}

/// Install a quiet panic hook that records `file:line` of the last panic in a thread-local
/// (subjects are expected to panic on known defects; the default hook would flood stderr).
pub fn install_quiet_panic_hook() {
    std::panic::set_hook(Box::new(|info| {
        let loc = info
            .location()
            .map(|l| format!("{}:{}", l.file(), l.line()))
            .unwrap_or_else(|| "<unknown>".into());
        LAST_PANIC_LOC.with(|c| *c.borrow_mut() = Some(loc));
        if std::env::var_os("VERIF_SHOW_PANICS").is_some() {
            eprintln!("panic: {info}");
        }
    }));
}

pub fn take_last_panic_loc() -> Option<String> {
    LAST_PANIC_LOC.with(|c| c.borrow_mut().take())
}

pub fn hex(b: &[u8]) -> String {
    hex::encode(b)
}

/// Strip the `/repo/` prefix and line numbers so that a panic site is stable under
/// unrelated edits: `crates/x/src/y.rs`.
pub fn norm_loc(loc: &str) -> String {
    // the repository may be checked out elsewhere (scratch worktrees): keep from `crates/` on
    let l = match loc.find("/crates/") {
        Some(i) if !loc.contains("/registry/") => &loc[i + 1..],
        _ => loc.strip_prefix("/repo/").unwrap_or(loc),
    };
    match l.rfind(':') {
        Some(i) => l[..i].to_string(),
        None => l.to_string(),
    }
}

/// Replace digit runs by `#` so that messages with embedded sizes compare equal.
pub fn norm_msg(msg: &str) -> String {
    let mut out = String::new();
    let mut in_digits = false;
    for ch in msg.chars().take(160) {
        if ch.is_ascii_digit() {
            if !in_digits {
                out.push('#');
                in_digits = true;
            }
        } else {
            in_digits = false;
            out.push(ch);
        }
    }
    out
}

/// Offset of the payload inside a DiskCache backing file: the cache prefixes a 16-byte header
/// (magic `CSCCACH1` + expiry) since the expiry-persistence fix; older trees store the bare
/// payload. Fault injectors corrupt the payload and keep the header, otherwise the cache rejects
/// the file before any content validation is reached.
pub fn disk_cache_payload_offset(raw: &[u8]) -> usize {
    if raw.len() >= 16 && &raw[..8] == b"CSCCACH1" { 16 } else { 0 }
}
