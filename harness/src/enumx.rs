//! ENUM — process isolation for subjects that may panic, abort, hang or over-allocate
//! (DESIGN §2.4). A pool of worker processes (`vcheck worker <mode>`) receives tasks as JSON
//! lines; each worker announces the case it is about to run in a shared status mapping, so
//! that death by signal (abort from a refused/failed allocation, stack overflow) or a hang
//! is attributed to exactly one case; the rest of the task is re-issued after it.

use serde_json::{Value, json};
use std::io::{BufRead, BufReader, Write};
use std::path::PathBuf;
use std::process::{Child, Command, Stdio};
use std::sync::atomic::{AtomicBool, AtomicU64, Ordering};
use std::sync::{Arc, Mutex};
use std::time::{Duration, Instant};

const STATUS_WORDS: usize = 8;

struct StatusMap {
    ptr: *mut u64,
    path: PathBuf,
}
unsafe impl Send for StatusMap {}
unsafe impl Sync for StatusMap {}

impl StatusMap {
    fn create(path: PathBuf) -> StatusMap {
        let f = std::fs::OpenOptions::new().read(true).write(true).create(true).truncate(true).open(&path).expect("status file");
        f.set_len((STATUS_WORDS * 8) as u64).expect("status len");
        StatusMap::map(&f, path)
    }
    fn open(path: PathBuf) -> StatusMap {
        let f = std::fs::OpenOptions::new().read(true).write(true).open(&path).expect("status file open");
        StatusMap::map(&f, path)
    }
    fn map(f: &std::fs::File, path: PathBuf) -> StatusMap {
        use std::os::fd::AsRawFd;
        // SAFETY: maps a regular file of STATUS_WORDS*8 bytes shared read/write.
        let p = unsafe { libc::mmap(std::ptr::null_mut(), STATUS_WORDS * 8, libc::PROT_READ | libc::PROT_WRITE, libc::MAP_SHARED, f.as_raw_fd(), 0) };
        assert!(p != libc::MAP_FAILED, "mmap status");
        StatusMap { ptr: p.cast(), path }
    }
    fn get(&self, i: usize) -> u64 {
        // SAFETY: i < STATUS_WORDS, mapping live.
        unsafe { std::ptr::read_volatile(self.ptr.add(i)) }
    }
    fn set(&self, i: usize, v: u64) {
        // SAFETY: as above.
        unsafe { std::ptr::write_volatile(self.ptr.add(i), v) }
    }
}

// ---------------------------------------------------------------- worker side

pub struct WorkerCtx {
    status: StatusMap,
    serial: u64,
}

impl WorkerCtx {
    /// Announce the case about to run (must be called before every case).
    #[inline]
    pub fn begin_case(&self, idx: u64) {
        self.status.set(1, idx);
        self.status.set(3, self.status.get(3).wrapping_add(1));
    }
    /// Report a violation that did not kill the worker.
    pub fn emit(&self, v: &Value) {
        let mut out = std::io::stdout().lock();
        let _ = writeln!(out, "V {} {}", self.serial, v);
        let _ = out.flush();
    }
}

/// Worker main loop: `handler(ctx, task, start_case) -> summary`.
pub fn worker_loop(status_path: &str, handler: impl Fn(&WorkerCtx, &Value, u64) -> Value) -> i32 {
    let status = StatusMap::open(PathBuf::from(status_path));
    // SAFETY: word 2 of the live mapping.
    crate::alloc::set_refused_slot(unsafe { status.ptr.add(2) });
    let mut ctx = WorkerCtx { status, serial: 0 };
    let stdin = std::io::stdin();
    for line in stdin.lock().lines() {
        let Ok(line) = line else { break };
        if line.trim().is_empty() {
            continue;
        }
        let Ok(msg) = serde_json::from_str::<Value>(&line) else { continue };
        let serial = msg["serial"].as_u64().unwrap_or(0);
        let start = msg["start"].as_u64().unwrap_or(0);
        ctx.serial = serial;
        ctx.status.set(0, serial);
        ctx.status.set(1, u64::MAX);
        ctx.status.set(2, 0);
        let summary = handler(&ctx, &msg["task"], start);
        ctx.status.set(1, u64::MAX);
        let mut out = std::io::stdout().lock();
        let _ = writeln!(out, "D {serial} {summary}");
        let _ = out.flush();
    }
    0
}

// ---------------------------------------------------------------- parent side

#[derive(Clone, Debug)]
pub struct Death {
    pub task: Value,
    pub case_idx: u64,
    /// "abort" (killed by a signal / non-zero exit) or "hang"
    pub kind: String,
    pub signal: Option<i32>,
    /// size of the allocation request the counting allocator refused, if that is what happened
    pub refused_alloc: u64,
}

#[derive(Default)]
pub struct PoolResult {
    pub summaries: Vec<(Value, Value)>,
    pub violations: Vec<(Value, Value)>,
    pub deaths: Vec<Death>,
    pub abandoned_tasks: Vec<Value>,
}

struct Work {
    task: Value,
    start: u64,
    deaths: u32,
}

pub struct PoolConfig {
    pub mode: String,
    pub workers: usize,
    pub case_timeout: Duration,
    pub max_deaths_per_task: u32,
    pub deadline: Option<Instant>,
}

fn spawn_worker(mode: &str, status_path: &PathBuf) -> Child {
    let exe = std::env::current_exe().expect("current exe");
    Command::new(exe)
        .arg("worker")
        .arg(mode)
        .arg(status_path)
        .stdin(Stdio::piped())
        .stdout(Stdio::piped())
        .stderr(Stdio::null())
        .env("RUST_BACKTRACE", "0")
        .spawn()
        .expect("spawn worker")
}

pub fn run_pool(cfg: &PoolConfig, tasks: Vec<Value>) -> PoolResult {
    let queue: Arc<Mutex<Vec<Work>>> = Arc::new(Mutex::new(tasks.into_iter().rev().map(|t| Work { task: t, start: 0, deaths: 0 }).collect()));
    let result: Arc<Mutex<PoolResult>> = Arc::new(Mutex::new(PoolResult::default()));
    let serial = Arc::new(AtomicU64::new(1));
    let root = crate::util::scratch_root();
    let _ = std::fs::create_dir_all(&root);

    std::thread::scope(|s| {
        for w in 0..cfg.workers {
            let queue = queue.clone();
            let result = result.clone();
            let serial = serial.clone();
            let status_path = root.join(format!("worker-{w}.status"));
            s.spawn(move || {
                let status = Arc::new(StatusMap::create(status_path.clone()));
                let mut child: Option<Child> = None;
                loop {
                    let Some(work) = queue.lock().unwrap().pop() else { break };
                    if cfg.deadline.is_some_and(|d| Instant::now() > d) {
                        result.lock().unwrap().abandoned_tasks.push(work.task);
                        continue;
                    }
                    if child.is_none() {
                        child = Some(spawn_worker(&cfg.mode, &status_path));
                    }
                    let ch = child.as_mut().unwrap();
                    let my_serial = serial.fetch_add(1, Ordering::SeqCst);
                    status.set(1, u64::MAX);
                    status.set(2, 0);
                    let msg = json!({"serial": my_serial, "task": work.task, "start": work.start});
                    let sent = {
                        let stdin = ch.stdin.as_mut().unwrap();
                        writeln!(stdin, "{msg}").and_then(|()| stdin.flush()).is_ok()
                    };
                    // watchdog
                    let in_flight = Arc::new(AtomicBool::new(true));
                    let hung = Arc::new(AtomicBool::new(false));
                    let pid = ch.id() as i32;
                    let wd = {
                        let in_flight = in_flight.clone();
                        let hung = hung.clone();
                        let status = status.clone();
                        let timeout = cfg.case_timeout;
                        std::thread::spawn(move || {
                            // A case "hangs" when the worker has burnt `timeout` of CPU time on it
                            // (wall time is no measure on a loaded machine), or when it made no
                            // progress for 20x that long in wall time (blocked without using CPU).
                            let cpu_ticks = |pid: i32| -> u64 {
                                let Ok(st) = std::fs::read_to_string(format!("/proc/{pid}/stat")) else { return 0 };
                                let Some(rp) = st.rfind(')') else { return 0 };
                                let f: Vec<&str> = st[rp + 1..].split_whitespace().collect();
                                // after ')' the fields start at index 0 = state (field 3): utime = field 14, stime = 15
                                let ut: u64 = f.get(11).and_then(|x| x.parse().ok()).unwrap_or(0);
                                let stt: u64 = f.get(12).and_then(|x| x.parse().ok()).unwrap_or(0);
                                ut + stt
                            };
                            // SAFETY: sysconf is always safe to call.
                            let hz = unsafe { libc::sysconf(libc::_SC_CLK_TCK) }.max(1) as u64;
                            let mut last = (u64::MAX, u64::MAX);
                            let mut since = Instant::now();
                            let mut cpu_at = cpu_ticks(pid);
                            while in_flight.load(Ordering::SeqCst) {
                                std::thread::sleep(Duration::from_millis(100));
                                let cur = (status.get(1), status.get(3));
                                if cur != last {
                                    last = cur;
                                    since = Instant::now();
                                    cpu_at = cpu_ticks(pid);
                                } else if ((cpu_ticks(pid).saturating_sub(cpu_at)) * 1000 / hz > timeout.as_millis() as u64 || since.elapsed() > timeout * 20) && in_flight.load(Ordering::SeqCst) {
                                    hung.store(true, Ordering::SeqCst);
                                    // SAFETY: plain kill(2) on our own child.
                                    unsafe { libc::kill(pid, libc::SIGKILL) };
                                    break;
                                }
                            }
                        })
                    };
                    let mut done = false;
                    if sent {
                        let stdout = ch.stdout.as_mut().unwrap();
                        let mut reader = BufReader::new(stdout);
                        let mut line = String::new();
                        loop {
                            line.clear();
                            match reader.read_line(&mut line) {
                                Ok(0) | Err(_) => break,
                                Ok(_) => {}
                            }
                            let l = line.trim_end();
                            if let Some(rest) = l.strip_prefix("V ") {
                                if let Some((_, js)) = rest.split_once(' ') {
                                    if let Ok(v) = serde_json::from_str::<Value>(js) {
                                        result.lock().unwrap().violations.push((work.task.clone(), v));
                                    }
                                }
                            } else if let Some(rest) = l.strip_prefix("D ") {
                                if let Some((ser, js)) = rest.split_once(' ') {
                                    if ser.parse::<u64>().ok() == Some(my_serial) {
                                        let v = serde_json::from_str::<Value>(js).unwrap_or(Value::Null);
                                        result.lock().unwrap().summaries.push((work.task.clone(), v));
                                        done = true;
                                        break;
                                    }
                                }
                            }
                        }
                    }
                    in_flight.store(false, Ordering::SeqCst);
                    let _ = wd.join();
                    if !done {
                        // the worker died (or was killed for hanging) inside this task
                        let st = child.take().and_then(|mut c| c.wait().ok());
                        use std::os::unix::process::ExitStatusExt;
                        let signal = st.and_then(|s| s.signal());
                        let case_idx = status.get(1);
                        let refused = status.get(2);
                        let kind = if hung.load(Ordering::SeqCst) { "hang" } else { "abort" };
                        let mut r = result.lock().unwrap();
                        r.deaths.push(Death { task: work.task.clone(), case_idx, kind: kind.to_string(), signal, refused_alloc: refused });
                        if case_idx != u64::MAX && work.deaths + 1 < cfg.max_deaths_per_task {
                            drop(r);
                            queue.lock().unwrap().push(Work { task: work.task, start: case_idx + 1, deaths: work.deaths + 1 });
                        } else {
                            r.abandoned_tasks.push(work.task);
                        }
                    }
                }
                if let Some(mut c) = child {
                    drop(c.stdin.take());
                    let _ = c.wait();
                }
                let _ = std::fs::remove_file(&status.path);
            });
        }
    });
    Arc::try_unwrap(result).ok().map(|m| m.into_inner().unwrap()).unwrap_or_default()
}
