//! Independent reference implementations used as oracles.
//!
//! Every module here is written from the public algorithm description (named in the module
//! header), never from the repository's code and never by calling the repository or the
//! crates it wraps. Each module carries a `self_check()` that runs the *published*
//! known-answer vectors; a reference that fails its own vectors makes the run a
//! MACHINERY-ERROR, never a violation.

pub mod arc4;
pub mod blte_dec;
pub mod bspatch;
pub mod lookup3;
pub mod md5;
pub mod salsa20;
pub mod tagmask;

/// Run every reference's known-answer self-check. Returns the list of failures (empty = ok)
/// and the number of vectors checked.
pub fn self_check_c09() -> (Vec<String>, usize) {
    let mut fails = Vec::new();
    let mut n = 0usize;
    for (name, f) in [
        ("salsa20", salsa20::self_check as fn() -> Result<usize, String>),
        ("arc4", arc4::self_check),
        ("lookup3", lookup3::self_check),
        ("md5", md5::self_check),
    ] {
        match f() {
            Ok(k) => n += k,
            Err(e) => fails.push(format!("refimpl::{name} fails its published vectors: {e}")),
        }
    }
    (fails, n)
}

pub(crate) fn unhex(s: &str) -> Vec<u8> {
    let clean: String = s.chars().filter(|c| !c.is_whitespace()).collect();
    hex::decode(clean).expect("hex literal in refimpl")
}
