//! Independent BLTE decoder and chunk-table auditor.
//!
//! Written from the format description (docs/src/compression/blte.md,
//! docs/src/encryption/salsa20.md) and from the published algorithm descriptions of
//! Salsa20 (Bernstein, "Salsa20 specification") and RC4 — it never calls the code under
//! test. zlib comes from `flate2`, MD5 from the `md5` crate (the subject hashes with the
//! RustCrypto `md-5` crate, so the two MD5 implementations differ); the LZ4 *block* decoder,
//! the mode-4 framing, the E-chunk header, Salsa20 and RC4 are implemented here.
//!
//! Container layout that is decoded:
//!
//! ```text
//! "BLTE" header_size:u32be
//!   header_size == 0 : the rest of the file is one chunk (no table)
//!   header_size  > 0 : table_format:u8 (0x0F → 24-byte entries, 0x10 → 40-byte entries)
//!                      chunk_count:u24be
//!                      entries { csize:u32be dsize:u32be md5[16] (md5_of_plain[16])? }
//!                      header_size == 12 + count*entry_size; chunk data starts at header_size
//! chunk  = mode:u8 body
//!   'N' body is the content
//!   'Z' body is a zlib stream
//!   '4' body = dsize:u64le  single LZ4 block
//!   'E' body = 8 key_name:u64le  iv_len:u8 iv[iv_len] cipher:u8('S'|'A') ciphertext
//!              plaintext of the cipher = inner_mode:u8 inner_body, decoded like a chunk
//!              Salsa20: 16-byte key, "expand 16-byte k", nonce = iv zero-padded to 8 with the
//!              chunk index (u32le) XORed into the first four bytes, counter from 0
//!              ARC4: RC4 keyed with the bare 16-byte key (the repository's format
//!              documentation states "there is no key derivation in the encryption path")
//! ```

use std::io::Read;

/// Largest decoded chunk the reference is willing to produce (the documented 1 GiB cap).
const MAX_OUT: u64 = 1 << 30;

#[derive(Debug, Clone)]
pub struct ChunkReport {
    pub index: usize,
    /// offset of the mode byte in the file
    pub offset: usize,
    /// bytes the chunk occupies in the file, mode byte included
    pub disk_len: usize,
    pub mode: u8,
    /// for 'E' chunks: the cipher byte and the mode byte found after decryption
    pub cipher: Option<u8>,
    pub inner_mode: Option<u8>,
    pub rec_csize: Option<u32>,
    pub rec_dsize: Option<u32>,
    pub rec_md5: Option<[u8; 16]>,
    /// MD5 of the chunk bytes as they are in the file (mode byte included)
    pub md5: [u8; 16],
    pub decoded: Result<Vec<u8>, String>,
}

#[derive(Debug, Clone)]
pub struct Container {
    pub single: bool,
    pub header_size: u32,
    pub table_format: Option<u8>,
    pub chunks: Vec<ChunkReport>,
    /// bytes in the file after the last chunk the table describes
    pub trailing: usize,
}

impl Container {
    /// Concatenation of all chunk contents, or the first chunk error.
    pub fn plaintext(&self) -> Result<Vec<u8>, String> {
        let mut out = Vec::new();
        for c in &self.chunks {
            match &c.decoded {
                Ok(d) => out.extend_from_slice(d),
                Err(e) => return Err(format!("chunk {}: {e}", c.index)),
            }
        }
        Ok(out)
    }
}

fn be32(b: &[u8]) -> u32 {
    u32::from_be_bytes([b[0], b[1], b[2], b[3]])
}

/// Parse the container structure and decode every chunk. `Err` = the structure itself is
/// unreadable (bad magic, truncated table, a chunk that extends past the end of the file).
pub fn decode(bytes: &[u8], keys: &[(u64, [u8; 16])]) -> Result<Container, String> {
    if bytes.len() < 8 {
        return Err(format!("file of {} bytes is shorter than the 8-byte header", bytes.len()));
    }
    if &bytes[0..4] != b"BLTE" {
        return Err("bad magic".into());
    }
    let header_size = be32(&bytes[4..8]);
    if header_size == 0 {
        let body = &bytes[8..];
        let mut chunks = Vec::new();
        if !body.is_empty() {
            chunks.push(report(0, 8, body, None, keys));
        }
        return Ok(Container { single: true, header_size, table_format: None, chunks, trailing: 0 });
    }
    let hs = header_size as usize;
    if hs < 12 || bytes.len() < 12 {
        return Err(format!("header_size {hs} is smaller than the fixed 12 bytes"));
    }
    let fmt = bytes[8];
    let entry = match fmt {
        0x0F => 24usize,
        0x10 => 40usize,
        other => return Err(format!("unknown table format 0x{other:02X}")),
    };
    let count = ((bytes[9] as usize) << 16) | ((bytes[10] as usize) << 8) | bytes[11] as usize;
    if count == 0 {
        return Err("chunk table with zero chunks".into());
    }
    let want = 12 + count * entry;
    if hs != want {
        return Err(format!("header_size {hs} does not equal 12 + {count}*{entry} = {want}"));
    }
    if bytes.len() < hs {
        return Err(format!("file of {} bytes is shorter than its header ({hs})", bytes.len()));
    }
    let mut chunks = Vec::with_capacity(count);
    let mut off = hs;
    for i in 0..count {
        let e = &bytes[12 + i * entry..12 + (i + 1) * entry];
        let csize = be32(&e[0..4]);
        let dsize = be32(&e[4..8]);
        let mut md5 = [0u8; 16];
        md5.copy_from_slice(&e[8..24]);
        let cs = csize as usize;
        if cs == 0 {
            return Err(format!("chunk {i}: recorded compressed size 0 (no room for the mode byte)"));
        }
        if off.checked_add(cs).is_none_or(|end| end > bytes.len()) {
            return Err(format!(
                "chunk {i}: recorded compressed size {cs} at offset {off} extends past the end of the file ({})",
                bytes.len()
            ));
        }
        chunks.push(report(i, off, &bytes[off..off + cs], Some((csize, dsize, md5)), keys));
        off += cs;
    }
    Ok(Container { single: false, header_size, table_format: Some(fmt), chunks, trailing: bytes.len() - off })
}

fn report(
    index: usize,
    offset: usize,
    chunk: &[u8],
    rec: Option<(u32, u32, [u8; 16])>,
    keys: &[(u64, [u8; 16])],
) -> ChunkReport {
    let mut r = ChunkReport {
        index,
        offset,
        disk_len: chunk.len(),
        mode: chunk[0],
        cipher: None,
        inner_mode: None,
        rec_csize: rec.map(|r| r.0),
        rec_dsize: rec.map(|r| r.1),
        rec_md5: rec.map(|r| r.2),
        md5: md5::compute(chunk).0,
        decoded: Err(String::new()),
    };
    r.decoded = decode_chunk(chunk[0], &chunk[1..], index, keys, false, &mut r);
    r
}

fn decode_chunk(
    mode: u8,
    body: &[u8],
    index: usize,
    keys: &[(u64, [u8; 16])],
    inner: bool,
    r: &mut ChunkReport,
) -> Result<Vec<u8>, String> {
    match mode {
        b'N' => Ok(body.to_vec()),
        b'Z' => {
            let mut out = Vec::new();
            flate2::read::ZlibDecoder::new(body)
                .take(MAX_OUT + 1)
                .read_to_end(&mut out)
                .map_err(|e| format!("zlib: {e}"))?;
            if out.len() as u64 > MAX_OUT {
                return Err("zlib output exceeds 1 GiB".into());
            }
            Ok(out)
        }
        b'4' => {
            if body.len() < 8 {
                return Err(format!("mode 4: body of {} bytes has no 8-byte size prefix", body.len()));
            }
            let n = u64::from_le_bytes(body[0..8].try_into().unwrap());
            if n > MAX_OUT {
                return Err(format!("mode 4: size prefix {n} exceeds 1 GiB"));
            }
            lz4_block(&body[8..], n as usize)
        }
        b'E' => {
            if inner {
                return Err("nested encryption".into());
            }
            // 8 key_name[8] iv_len iv[..] cipher
            if body.is_empty() {
                return Err("E: empty body".into());
            }
            if body[0] != 8 {
                return Err(format!("E: key name length {} (expected 8)", body[0]));
            }
            if body.len() < 10 {
                return Err("E: truncated before the IV length".into());
            }
            let name = u64::from_le_bytes(body[1..9].try_into().unwrap());
            let ivl = body[9] as usize;
            if ivl == 0 || ivl > 8 {
                return Err(format!("E: IV length {ivl}"));
            }
            if body.len() < 10 + ivl + 1 {
                return Err("E: truncated before the cipher byte".into());
            }
            let iv = &body[10..10 + ivl];
            let cipher = body[10 + ivl];
            r.cipher = Some(cipher);
            let ct = &body[11 + ivl..];
            let key = keys
                .iter()
                .find(|(n, _)| *n == name)
                .map(|(_, k)| *k)
                .ok_or_else(|| format!("E: key {name:016X} not in the key ring"))?;
            let pt = match cipher {
                b'S' => salsa20_xor(&key, iv, index as u32, ct),
                b'A' => rc4_xor(&key, ct),
                other => return Err(format!("E: unknown cipher byte 0x{other:02X}")),
            };
            let Some((&im, ib)) = pt.split_first() else {
                return Err("E: no inner mode byte (empty ciphertext)".into());
            };
            r.inner_mode = Some(im);
            match im {
                b'N' | b'Z' | b'4' | b'E' | b'F' => decode_chunk(im, ib, index, keys, true, r),
                other => Err(format!("E: decrypted inner mode byte 0x{other:02X} is not a BLTE mode")),
            }
        }
        b'F' => Err("mode F (recursive BLTE) not supported by the reference".into()),
        other => Err(format!("unknown mode byte 0x{other:02X}")),
    }
}

// ---------------------------------------------------------------------------------------
// LZ4 block format (lz4 Block Format Description): sequences of
//   token(hi nibble = literal length, lo nibble = match length - 4), [length extension bytes],
//   literals, offset:u16le, [match length extension bytes]; the last sequence ends after
//   its literals.
// ---------------------------------------------------------------------------------------

pub fn lz4_block(src: &[u8], expected: usize) -> Result<Vec<u8>, String> {
    let mut out: Vec<u8> = Vec::with_capacity(expected.min(1 << 24));
    let mut i = 0usize;
    let ext = |i: &mut usize, base: usize| -> Result<usize, String> {
        let mut n = base;
        loop {
            let b = *src.get(*i).ok_or("lz4: truncated length extension")?;
            *i += 1;
            n += b as usize;
            if b != 255 {
                return Ok(n);
            }
        }
    };
    while i < src.len() {
        let token = src[i];
        i += 1;
        let mut lit = (token >> 4) as usize;
        if lit == 15 {
            lit = ext(&mut i, 15)?;
        }
        if i + lit > src.len() {
            return Err("lz4: literals run past the end of the block".into());
        }
        out.extend_from_slice(&src[i..i + lit]);
        i += lit;
        if out.len() > expected {
            return Err(format!("lz4: output exceeds the size prefix {expected}"));
        }
        if i == src.len() {
            break;
        }
        if i + 2 > src.len() {
            return Err("lz4: truncated match offset".into());
        }
        let off = u16::from_le_bytes([src[i], src[i + 1]]) as usize;
        i += 2;
        if off == 0 || off > out.len() {
            return Err(format!("lz4: match offset {off} outside the {} bytes produced", out.len()));
        }
        let mut ml = (token & 15) as usize;
        if ml == 15 {
            ml = ext(&mut i, 15)?;
        }
        ml += 4;
        if out.len() + ml > expected {
            return Err(format!("lz4: output exceeds the size prefix {expected}"));
        }
        for _ in 0..ml {
            let b = out[out.len() - off];
            out.push(b);
        }
    }
    if out.len() != expected {
        return Err(format!("lz4: block produced {} bytes, size prefix says {expected}", out.len()));
    }
    Ok(out)
}

// ---------------------------------------------------------------------------------------
// Salsa20/20 with a 16-byte key (Bernstein, Salsa20 specification §§3–9)
// ---------------------------------------------------------------------------------------

fn quarterround(y: [u32; 4]) -> [u32; 4] {
    let z1 = y[1] ^ y[0].wrapping_add(y[3]).rotate_left(7);
    let z2 = y[2] ^ z1.wrapping_add(y[0]).rotate_left(9);
    let z3 = y[3] ^ z2.wrapping_add(z1).rotate_left(13);
    let z0 = y[0] ^ z3.wrapping_add(z2).rotate_left(18);
    [z0, z1, z2, z3]
}

fn rowround(y: [u32; 16]) -> [u32; 16] {
    let mut z = [0u32; 16];
    let a = quarterround([y[0], y[1], y[2], y[3]]);
    (z[0], z[1], z[2], z[3]) = (a[0], a[1], a[2], a[3]);
    let b = quarterround([y[5], y[6], y[7], y[4]]);
    (z[5], z[6], z[7], z[4]) = (b[0], b[1], b[2], b[3]);
    let c = quarterround([y[10], y[11], y[8], y[9]]);
    (z[10], z[11], z[8], z[9]) = (c[0], c[1], c[2], c[3]);
    let d = quarterround([y[15], y[12], y[13], y[14]]);
    (z[15], z[12], z[13], z[14]) = (d[0], d[1], d[2], d[3]);
    z
}

fn columnround(x: [u32; 16]) -> [u32; 16] {
    let mut y = [0u32; 16];
    let a = quarterround([x[0], x[4], x[8], x[12]]);
    (y[0], y[4], y[8], y[12]) = (a[0], a[1], a[2], a[3]);
    let b = quarterround([x[5], x[9], x[13], x[1]]);
    (y[5], y[9], y[13], y[1]) = (b[0], b[1], b[2], b[3]);
    let c = quarterround([x[10], x[14], x[2], x[6]]);
    (y[10], y[14], y[2], y[6]) = (c[0], c[1], c[2], c[3]);
    let d = quarterround([x[15], x[3], x[7], x[11]]);
    (y[15], y[3], y[7], y[11]) = (d[0], d[1], d[2], d[3]);
    y
}

/// The Salsa20 hash function on a 64-byte input (as sixteen little-endian words).
fn salsa20_hash(x: [u32; 16]) -> [u8; 64] {
    let mut z = x;
    for _ in 0..10 {
        z = rowround(columnround(z));
    }
    let mut out = [0u8; 64];
    for i in 0..16 {
        out[4 * i..4 * i + 4].copy_from_slice(&z[i].wrapping_add(x[i]).to_le_bytes());
    }
    out
}

/// Salsa20_k(n) for a 16-byte key k and a 16-byte n: (τ0, k, τ1, n, τ2, k, τ3),
/// τ = "expand 16-byte k".
pub fn salsa20_expand16(k: &[u8; 16], n: &[u8; 16]) -> [u8; 64] {
    let w = |b: &[u8]| u32::from_le_bytes([b[0], b[1], b[2], b[3]]);
    let tau = b"expand 16-byte k";
    let mut x = [0u32; 16];
    x[0] = w(&tau[0..4]);
    x[5] = w(&tau[4..8]);
    x[10] = w(&tau[8..12]);
    x[15] = w(&tau[12..16]);
    for i in 0..4 {
        x[1 + i] = w(&k[4 * i..]);
        x[11 + i] = w(&k[4 * i..]);
        x[6 + i] = w(&n[4 * i..]);
    }
    salsa20_hash(x)
}

/// XOR `data` with the Salsa20 stream for (key, nonce = iv zero-padded to 8 bytes with
/// `index` little-endian XORed into its first four bytes), block counter from 0.
pub fn salsa20_xor(key: &[u8; 16], iv: &[u8], index: u32, data: &[u8]) -> Vec<u8> {
    let mut nonce = [0u8; 8];
    let l = iv.len().min(8);
    nonce[..l].copy_from_slice(&iv[..l]);
    for (i, b) in index.to_le_bytes().iter().enumerate() {
        nonce[i] ^= b;
    }
    let mut out = Vec::with_capacity(data.len());
    for (blk, chunk) in data.chunks(64).enumerate() {
        let mut n = [0u8; 16];
        n[..8].copy_from_slice(&nonce);
        n[8..].copy_from_slice(&(blk as u64).to_le_bytes());
        let ks = salsa20_expand16(key, &n);
        out.extend(chunk.iter().zip(ks.iter()).map(|(a, b)| a ^ b));
    }
    out
}

// ---------------------------------------------------------------------------------------
// RC4: KSA + PRGA
// ---------------------------------------------------------------------------------------

pub fn rc4_xor(key: &[u8], data: &[u8]) -> Vec<u8> {
    let mut s: Vec<u8> = (0..=255u8).collect();
    let mut j = 0usize;
    for i in 0..256 {
        j = (j + s[i] as usize + key[i % key.len()] as usize) & 255;
        s.swap(i, j);
    }
    let (mut i, mut j) = (0usize, 0usize);
    data.iter()
        .map(|b| {
            i = (i + 1) & 255;
            j = (j + s[i] as usize) & 255;
            s.swap(i, j);
            b ^ s[(s[i] as usize + s[j] as usize) & 255]
        })
        .collect()
}

/// Known-answer self-check of the primitives written in this file. Returns a description
/// of the first failure.
pub fn self_test() -> Result<(), String> {
    // Salsa20 specification §9, 16-byte-key example: k = (1..16), n = (101..116)
    let k: [u8; 16] = core::array::from_fn(|i| (i + 1) as u8);
    let n: [u8; 16] = core::array::from_fn(|i| (i + 101) as u8);
    let want: [u8; 64] = [
        39, 173, 46, 248, 30, 200, 82, 17, 48, 67, 254, 239, 37, 18, 13, 247, 241, 200, 61, 144, 10, 55, 50, 185, 6,
        47, 246, 253, 143, 86, 187, 225, 134, 85, 110, 246, 161, 163, 43, 235, 231, 94, 171, 51, 145, 214, 112, 29,
        14, 232, 5, 16, 151, 140, 183, 141, 171, 9, 122, 181, 104, 182, 177, 193,
    ];
    if salsa20_expand16(&k, &n) != want {
        return Err("Salsa20 16-byte-key known answer (specification §9) not reproduced".into());
    }
    // quarterround example of the specification §3
    if quarterround([1, 0, 0, 0]) != [0x0800_8145, 0x80, 0x0001_0200, 0x2050_0000] {
        return Err("Salsa20 quarterround known answer not reproduced".into());
    }
    // RC4: key "Key", plaintext "Plaintext" → BBF316E8D940AF0AD3; key "Wiki"/"pedia" → 1021BF0420
    if rc4_xor(b"Key", b"Plaintext") != [0xBB, 0xF3, 0x16, 0xE8, 0xD9, 0x40, 0xAF, 0x0A, 0xD3] {
        return Err("RC4 known answer (Key/Plaintext) not reproduced".into());
    }
    if rc4_xor(b"Wiki", b"pedia") != [0x10, 0x21, 0xBF, 0x04, 0x20] {
        return Err("RC4 known answer (Wiki/pedia) not reproduced".into());
    }
    // LZ4 block: literals "abcd", then a match of length 8 at offset 4, then literal "e" as last sequence
    let blk = [0x44, b'a', b'b', b'c', b'd', 0x04, 0x00, 0x10, b'e'];
    if lz4_block(&blk, 13).as_deref() != Ok(b"abcdabcdabcde".as_slice()) {
        return Err("LZ4 block known answer not reproduced".into());
    }
    if lz4_block(&[0x00], 0).as_deref() != Ok(b"".as_slice()) || lz4_block(&[], 0).as_deref() != Ok(b"".as_slice()) {
        return Err("LZ4 empty block not handled".into());
    }
    // hand-assembled container: two chunks N("hi") and Z("") with a truthful table
    let z_empty = [0x78u8, 0x9c, 0x03, 0x00, 0x00, 0x00, 0x00, 0x01];
    let c0 = b"Nhi".to_vec();
    let mut c1 = vec![b'Z'];
    c1.extend_from_slice(&z_empty);
    let mut f = b"BLTE".to_vec();
    f.extend_from_slice(&(12u32 + 48).to_be_bytes());
    f.extend_from_slice(&[0x0F, 0, 0, 2]);
    for (c, d) in [(&c0, 2u32), (&c1, 0u32)] {
        f.extend_from_slice(&(c.len() as u32).to_be_bytes());
        f.extend_from_slice(&d.to_be_bytes());
        f.extend_from_slice(&md5::compute(c).0);
    }
    f.extend_from_slice(&c0);
    f.extend_from_slice(&c1);
    let c = decode(&f, &[])?;
    if c.plaintext().as_deref() != Ok(b"hi".as_slice()) || c.chunks.len() != 2 || c.trailing != 0 {
        return Err("hand-assembled two-chunk container not decoded".into());
    }
    if c.chunks.iter().any(|c| Some(c.md5) != c.rec_md5) {
        return Err("hand-assembled container: MD5 audit failed".into());
    }
    // MD5 known answer (RFC 1321): MD5("abc")
    if hex::encode(md5::compute(b"abc").0) != "900150983cd24fb0d6963f7d28e17f72" {
        return Err("MD5 known answer not reproduced".into());
    }
    Ok(())
}
