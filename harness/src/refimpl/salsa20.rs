//! Salsa20/20 written from D. J. Bernstein, "Salsa20 specification" (2005-04-27):
//! §3 quarterround, §4 rowround, §5 columnround, §6 doubleround, §7 littleendian,
//! §8 the Salsa20 hash function, §9 the expansion function (σ for 32-byte keys, τ for
//! 16-byte keys), §10 the encryption function (64-bit little-endian block counter after
//! the 8-byte nonce).
//!
//! On top of that, `casc_nonce` is the BLTE *format* rule (docs/src/compression/blte.md
//! "IV Extension and Modification for Chunks", docs/src/encryption/salsa20.md): the IV is
//! zero-extended to 8 bytes and byte i (i < 4) is XORed with `(chunk_index >> 8i) & 0xFF`.

use super::unhex;

/// §3: z1 = y1 ⊕ ((y0 + y3) <<< 7), z2 = y2 ⊕ ((z1 + y0) <<< 9),
///     z3 = y3 ⊕ ((z2 + z1) <<< 13), z0 = y0 ⊕ ((z3 + z2) <<< 18).
pub fn quarterround(y: [u32; 4]) -> [u32; 4] {
    let z1 = y[1] ^ y[0].wrapping_add(y[3]).rotate_left(7);
    let z2 = y[2] ^ z1.wrapping_add(y[0]).rotate_left(9);
    let z3 = y[3] ^ z2.wrapping_add(z1).rotate_left(13);
    let z0 = y[0] ^ z3.wrapping_add(z2).rotate_left(18);
    [z0, z1, z2, z3]
}

fn qr_at(src: &[u32; 16], dst: &mut [u32; 16], ix: [usize; 4]) {
    let z = quarterround([src[ix[0]], src[ix[1]], src[ix[2]], src[ix[3]]]);
    for (k, i) in ix.iter().enumerate() {
        dst[*i] = z[k];
    }
}

/// §4: (z0,z1,z2,z3) = qr(y0,y1,y2,y3); (z5,z6,z7,z4) = qr(y5,y6,y7,y4);
///     (z10,z11,z8,z9) = qr(y10,y11,y8,y9); (z15,z12,z13,z14) = qr(y15,y12,y13,y14).
pub fn rowround(y: [u32; 16]) -> [u32; 16] {
    let mut z = [0u32; 16];
    qr_at(&y, &mut z, [0, 1, 2, 3]);
    qr_at(&y, &mut z, [5, 6, 7, 4]);
    qr_at(&y, &mut z, [10, 11, 8, 9]);
    qr_at(&y, &mut z, [15, 12, 13, 14]);
    z
}

/// §5: (y0,y4,y8,y12) = qr(x0,x4,x8,x12); (y5,y9,y13,y1) = qr(x5,x9,x13,x1);
///     (y10,y14,y2,y6) = qr(x10,x14,x2,x6); (y15,y3,y7,y11) = qr(x15,x3,x7,x11).
pub fn columnround(x: [u32; 16]) -> [u32; 16] {
    let mut y = [0u32; 16];
    qr_at(&x, &mut y, [0, 4, 8, 12]);
    qr_at(&x, &mut y, [5, 9, 13, 1]);
    qr_at(&x, &mut y, [10, 14, 2, 6]);
    qr_at(&x, &mut y, [15, 3, 7, 11]);
    y
}

/// §6: doubleround(x) = rowround(columnround(x)).
pub fn doubleround(x: [u32; 16]) -> [u32; 16] {
    rowround(columnround(x))
}

/// §8: Salsa20(x) = x + doubleround^10(x), words little-endian (§7).
pub fn hash(x: &[u8; 64]) -> [u8; 64] {
    let mut w = [0u32; 16];
    for i in 0..16 {
        w[i] = u32::from(x[4 * i])
            | u32::from(x[4 * i + 1]) << 8
            | u32::from(x[4 * i + 2]) << 16
            | u32::from(x[4 * i + 3]) << 24;
    }
    let mut z = w;
    for _ in 0..10 {
        z = doubleround(z);
    }
    let mut out = [0u8; 64];
    for i in 0..16 {
        let s = z[i].wrapping_add(w[i]);
        out[4 * i] = s as u8;
        out[4 * i + 1] = (s >> 8) as u8;
        out[4 * i + 2] = (s >> 16) as u8;
        out[4 * i + 3] = (s >> 24) as u8;
    }
    out
}

/// §9, 32-byte key: Salsa20(σ0, k0, σ1, n, σ2, k1, σ3), σ = "expand 32-byte k".
pub fn expand32(k0: &[u8; 16], k1: &[u8; 16], n: &[u8; 16]) -> [u8; 64] {
    let sigma: [[u8; 4]; 4] = [[101, 120, 112, 97], [110, 100, 32, 51], [50, 45, 98, 121], [116, 101, 32, 107]];
    let mut x = [0u8; 64];
    x[0..4].copy_from_slice(&sigma[0]);
    x[4..20].copy_from_slice(k0);
    x[20..24].copy_from_slice(&sigma[1]);
    x[24..40].copy_from_slice(n);
    x[40..44].copy_from_slice(&sigma[2]);
    x[44..60].copy_from_slice(k1);
    x[60..64].copy_from_slice(&sigma[3]);
    hash(&x)
}

/// §9, 16-byte key: Salsa20(τ0, k, τ1, n, τ2, k, τ3), τ = "expand 16-byte k".
pub fn expand16(k: &[u8; 16], n: &[u8; 16]) -> [u8; 64] {
    let tau: [[u8; 4]; 4] = [[101, 120, 112, 97], [110, 100, 32, 49], [54, 45, 98, 121], [116, 101, 32, 107]];
    let mut x = [0u8; 64];
    x[0..4].copy_from_slice(&tau[0]);
    x[4..20].copy_from_slice(k);
    x[20..24].copy_from_slice(&tau[1]);
    x[24..40].copy_from_slice(n);
    x[40..44].copy_from_slice(&tau[2]);
    x[44..60].copy_from_slice(k);
    x[60..64].copy_from_slice(&tau[3]);
    hash(&x)
}

/// §10: keystream block number `counter` for a 16-byte key and an 8-byte nonce v:
/// Salsa20_k(v, counter as 8 little-endian bytes).
pub fn block16(key: &[u8; 16], nonce: &[u8; 8], counter: u64) -> [u8; 64] {
    let mut n = [0u8; 16];
    n[..8].copy_from_slice(nonce);
    for i in 0..8 {
        n[8 + i] = (counter >> (8 * i)) as u8;
    }
    expand16(key, &n)
}

pub fn block32(key: &[u8; 32], nonce: &[u8; 8], counter: u64) -> [u8; 64] {
    let mut n = [0u8; 16];
    n[..8].copy_from_slice(nonce);
    for i in 0..8 {
        n[8 + i] = (counter >> (8 * i)) as u8;
    }
    let mut k0 = [0u8; 16];
    let mut k1 = [0u8; 16];
    k0.copy_from_slice(&key[..16]);
    k1.copy_from_slice(&key[16..]);
    expand32(&k0, &k1, &n)
}

/// `len` keystream bytes starting at block `first_block` (byte 0 of that block).
pub fn keystream16(key: &[u8; 16], nonce: &[u8; 8], first_block: u64, len: usize) -> Vec<u8> {
    let mut out = Vec::with_capacity(len + 64);
    let mut ctr = first_block;
    while out.len() < len {
        out.extend_from_slice(&block16(key, nonce, ctr));
        ctr = ctr.wrapping_add(1);
    }
    out.truncate(len);
    out
}

/// BLTE format rule for the Salsa20 nonce of chunk `chunk_index`; `iv` is 1..=8 bytes.
pub fn casc_nonce(iv: &[u8], chunk_index: u64) -> [u8; 8] {
    let mut n = [0u8; 8];
    n[..iv.len()].copy_from_slice(iv);
    for i in 0..4 {
        n[i] ^= ((chunk_index >> (8 * i)) & 0xFF) as u8;
    }
    n
}

/// data ⊕ keystream of the CASC variant (16-byte key, τ constants, counter from 0).
pub fn casc_xor(data: &[u8], key: &[u8; 16], iv: &[u8], chunk_index: u64) -> Vec<u8> {
    let ks = keystream16(key, &casc_nonce(iv, chunk_index), 0, data.len());
    data.iter().zip(ks.iter()).map(|(d, k)| d ^ k).collect()
}

pub fn self_check() -> Result<usize, String> {
    let mut n = 0usize;
    // Specification §3 examples.
    let q: [([u32; 4], [u32; 4]); 7] = [
        ([0, 0, 0, 0], [0, 0, 0, 0]),
        ([1, 0, 0, 0], [0x0800_8145, 0x0000_0080, 0x0001_0200, 0x2050_0000]),
        ([0, 1, 0, 0], [0x8800_0100, 0x0000_0001, 0x0000_0200, 0x0040_2000]),
        ([0, 0, 1, 0], [0x8004_0000, 0x0000_0000, 0x0000_0001, 0x0000_2000]),
        ([0, 0, 0, 1], [0x0004_8044, 0x0000_0080, 0x0001_0000, 0x2010_0001]),
        ([0xe7e8_c006, 0xc4f9_417d, 0x6479_b4b2, 0x68c6_7137], [0xe876_d72b, 0x9361_dfd5, 0xf146_0244, 0x9485_41a3]),
        ([0xd391_7c5b, 0x55f1_c407, 0x52a5_8a7a, 0x8f88_7a3b], [0x3e2f_308c, 0xd90a_8f36, 0x6ab2_a923, 0x2883_524c]),
    ];
    for (i, (y, z)) in q.iter().enumerate() {
        if quarterround(*y) != *z {
            return Err(format!("spec §3 quarterround example {i}"));
        }
        n += 1;
    }
    // Specification §8: Salsa20(0,…,0) = (0,…,0).
    if hash(&[0u8; 64]) != [0u8; 64] {
        return Err("spec §8 Salsa20(0..0)".into());
    }
    n += 1;
    // Specification §9 examples: k0 = (1..16), k1 = (201..216), n = (101..116).
    let mut k0 = [0u8; 16];
    let mut k1 = [0u8; 16];
    let mut nn = [0u8; 16];
    for i in 0..16 {
        k0[i] = 1 + i as u8;
        k1[i] = 201 + i as u8;
        nn[i] = 101 + i as u8;
    }
    let e32: [u8; 64] = [
        69, 37, 68, 39, 41, 15, 107, 193, 255, 139, 122, 6, 170, 233, 217, 98, 89, 144, 182, 106, 21, 51, 200, 65, 239, 49, 222, 34, 215, 114, 40, 126, 104, 197, 7, 225, 197, 153, 31, 2, 102, 78,
        76, 176, 84, 245, 246, 184, 177, 160, 133, 130, 6, 72, 149, 119, 192, 195, 132, 236, 234, 103, 246, 74,
    ];
    let e16: [u8; 64] = [
        39, 173, 46, 248, 30, 200, 82, 17, 48, 67, 254, 239, 37, 18, 13, 247, 241, 200, 61, 144, 10, 55, 50, 185, 6, 47, 246, 253, 143, 86, 187, 225, 134, 85, 110, 246, 161, 163, 43, 235, 231, 94,
        171, 51, 145, 214, 112, 29, 14, 232, 5, 16, 151, 140, 183, 141, 171, 9, 122, 181, 104, 182, 177, 193,
    ];
    if expand32(&k0, &k1, &nn) != e32 {
        return Err("spec §9 Salsa20_{k0,k1}(n)".into());
    }
    if expand16(&k0, &nn) != e16 {
        return Err("spec §9 Salsa20_{k0}(n) (16-byte key, tau)".into());
    }
    n += 2;
    // ECRYPT/eSTREAM verified test vectors, Salsa20/20, 256-bit keys.
    let key1 = {
        let mut k = [0u8; 32];
        k[0] = 0x80;
        k
    };
    let v: [(&[u8; 32], [u8; 8], &str, &str); 3] = [
        (
            &key1,
            [0; 8],
            "e3be8fdd8beca2e3ea8ef9475b29a6e7003951e1097a5c38d23b7a5fad9f6844b22c97559e2723c7cbbd3fe4fc8d9a0744652a83e72a9c461876af4d7ef1a117",
            "ECRYPT 256-bit set 1 vector 0",
        ),
        (
            &[0u8; 32],
            [0x80, 0, 0, 0, 0, 0, 0, 0],
            "2aba3dc45b4947007b14c851cd694456b303ad59a465662803006705673d6c3e29f1d3510dfc0405463c03414e0e07e359f1f1816c68b2434a19d3eee0464873",
            "ECRYPT 256-bit set 4 vector 0 (IV bit 0)",
        ),
        (
            &[0u8; 32],
            [0, 0, 0, 0, 0, 0, 0, 1],
            "b47f96aa96786135297a3c4ec56a613d0b80095324ff43239d684c57ffe42e1c44f3cc011613db6cdc880999a1e65aed1287fcb11c839c37120765afa73e5075",
            "ECRYPT 256-bit (IV bit 63)",
        ),
    ];
    for (k, iv, exp, name) in v {
        if block32(k, &iv, 0).to_vec() != unhex(exp) {
            return Err(name.to_string());
        }
        n += 1;
    }
    // ECRYPT/eSTREAM verified test vectors, Salsa20/20, 128-bit keys.
    let k128_1 = {
        let mut k = [0u8; 16];
        k[0] = 0x80;
        k
    };
    let s1v0: [(u64, &str); 4] = [
        (0, "4dfa5e481da23ea09a31022050859936da52fcee218005164f267cb65f5cfd7f2b4f97e0ff16924a52df269515110a07f9e460bc65ef95da58f740b7d1dbb0aa"),
        (3, "da9c1581f429e0a00f7d67e23b730676783b262e8eb43a25f55fb90b3e753aef8c6713ec66c51881111593ccb3e8cb8f8de124080501eeeb389c4bcb6977cf95"),
        (4, "7d5789631eb4554400e1e025935dfa7b3e9039d61bdc58a8697d36815bf1985cefdf7ae112e5bb81e37ecf0616ce7147fc08a93a367e08631f23c03b00a8da2f"),
        (7, "b375703739daced4dd4059fd71c3c47fc2f9939670fad4a46066adcc6a5645783308b90ffb72be04a6b147cbe38cc0c3b9267c296a92a7c69873f9f263be9703"),
    ];
    for (blk, exp) in s1v0 {
        if block16(&k128_1, &[0; 8], blk).to_vec() != unhex(exp) {
            return Err(format!("ECRYPT 128-bit set 1 vector 0, stream[{}..{}]", blk * 64, blk * 64 + 63));
        }
        n += 1;
    }
    if block16(&[0u8; 16], &[0; 8], 0).to_vec()
        != unhex("6513adaecfeb124c1cbe6bdaef690b4ffb00b0fcace33ce806792bb41480199834bfb1cfdd095802c6e95e251002989ac22ae588d32ae79320d9bd7732e00338")
    {
        return Err("ECRYPT 128-bit set 2 vector 0".into());
    }
    n += 1;
    // the block function and the stream agree; counter is the 64-bit LE word after the nonce
    let ks = keystream16(&k128_1, &[0; 8], 0, 512);
    if ks[192..256] != block16(&k128_1, &[0; 8], 3) || ks.len() != 512 {
        return Err("keystream16 / block16 disagree".into());
    }
    // format rule examples from docs/src/compression/blte.md
    if casc_nonce(&[0x11, 0x22, 0x33, 0x44], 0) != [0x11, 0x22, 0x33, 0x44, 0, 0, 0, 0]
        || casc_nonce(&[0x11, 0x22, 0x33, 0x44], 0x0102_0304) != [0x11 ^ 4, 0x22 ^ 3, 0x33 ^ 2, 0x44 ^ 1, 0, 0, 0, 0]
        || casc_nonce(&[1, 2, 3, 4, 5, 6, 7, 8], 1 << 32) != [1, 2, 3, 4, 5, 6, 7, 8]
    {
        return Err("casc_nonce".into());
    }
    n += 3;
    Ok(n)
}
