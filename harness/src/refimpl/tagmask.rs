//! Independent reader of the tag bit masks of NGDP manifests — install (`IN`), download
//! (`DL`) and size (`DS`) — written from the *format description* (docs/src/formats/
//! install.md, download.md, size-manifest.md), not from the crate's parser:
//!
//! * install : "IN", version u8 (1|2), hash size u8, tag count u16 BE, entry count u32 BE,
//!             [v2: content-key-size u8, entry-count-v2 u32 BE, unknown u8];
//!             tags; entries = NUL-terminated path + ckey[hash size] + size u32 BE [+ type u8 in v2]
//! * download: "DL", version u8 (1..3), ekey size u8, has-checksum u8, entry count u32 BE,
//!             tag count u16 BE, [v2+: flag size u8], [v3: base priority i8, 3 reserved];
//!             entries = ekey + size (40 bit BE) + priority i8 [+ checksum u32 BE] [+ flags];
//!             then tags
//! * size    : "DS", version u8 (1|2), ekey size u8, entry count u32 BE, tag count u16 BE,
//!             v1: total u64 BE + esize width u8, v2: total 40 bit BE (esize width 4);
//!             tags; entries = ekey + esize (width bytes BE)
//! * tag     : NUL-terminated name, type u16 BE, bit mask of ceil(n/8) bytes; file i lives in
//!             byte i/8 and is the (i%8)-th bit counted from the most significant one.
//!
//! No binrw, no types of the crate under test. `self_check` runs hand-assembled known-answer
//! vectors; `real_fixture_check` anchors the bit order on real CDN manifests (the `OSX` tag
//! selects exactly the `*.app\` paths only under MSB-first reading).

use std::collections::BTreeSet;

pub struct Cur<'a> {
    d: &'a [u8],
    p: usize,
}

impl<'a> Cur<'a> {
    pub fn new(d: &'a [u8]) -> Cur<'a> {
        Cur { d, p: 0 }
    }
    fn take(&mut self, n: usize) -> Result<&'a [u8], String> {
        if self.d.len() - self.p < n {
            return Err(format!("truncated: need {n} bytes at offset {}, have {}", self.p, self.d.len() - self.p));
        }
        let s = &self.d[self.p..self.p + n];
        self.p += n;
        Ok(s)
    }
    fn u8(&mut self) -> Result<u8, String> {
        Ok(self.take(1)?[0])
    }
    fn be(&mut self, n: usize) -> Result<u64, String> {
        let mut v = 0u64;
        for b in self.take(n)? {
            v = v * 256 + u64::from(*b);
        }
        Ok(v)
    }
    fn cstr(&mut self) -> Result<String, String> {
        let start = self.p;
        loop {
            if self.p >= self.d.len() {
                return Err(format!("unterminated string starting at offset {start}"));
            }
            if self.d[self.p] == 0 {
                let s = String::from_utf8_lossy(&self.d[start..self.p]).into_owned();
                self.p += 1;
                return Ok(s);
            }
            self.p += 1;
        }
    }
    fn rest(&self) -> usize {
        self.d.len() - self.p
    }
}

#[derive(Clone, Debug, PartialEq, Eq)]
pub struct RefTag {
    pub name: String,
    pub tag_type: u16,
    pub mask: Vec<u8>,
    /// files i < n whose bit is set
    pub files: BTreeSet<usize>,
    /// bit positions ≥ n that are set in the padding of the last byte
    pub stray: Vec<usize>,
}

/// The one place where the bit convention lives: file `i` ↔ byte `i/8`, MSB first.
pub fn mask_bit(mask: &[u8], i: usize) -> bool {
    let byte = mask[i >> 3];
    let from_msb = i & 7;
    (byte >> (7 - from_msb)) & 1 == 1
}

fn read_tag(c: &mut Cur, n: usize) -> Result<RefTag, String> {
    let name = c.cstr()?;
    let tag_type = c.be(2)? as u16;
    let len = (n + 7) / 8;
    let mask = c.take(len)?.to_vec();
    let mut files = BTreeSet::new();
    let mut stray = Vec::new();
    for i in 0..len * 8 {
        if mask_bit(&mask, i) {
            if i < n {
                files.insert(i);
            } else {
                stray.push(i);
            }
        }
    }
    Ok(RefTag { name, tag_type, mask, files, stray })
}

#[derive(Clone, Debug, PartialEq, Eq)]
pub struct RefInstallEntry {
    pub path: String,
    pub ckey: Vec<u8>,
    pub size: u32,
    pub file_type: Option<u8>,
}

#[derive(Clone, Debug)]
pub struct RefInstall {
    pub version: u8,
    pub hash_size: u8,
    pub tags: Vec<RefTag>,
    pub entries: Vec<RefInstallEntry>,
    pub trailing: usize,
}

pub fn parse_install(d: &[u8]) -> Result<RefInstall, String> {
    let mut c = Cur::new(d);
    if c.take(2)? != b"IN" {
        return Err("magic is not IN".into());
    }
    let version = c.u8()?;
    if version != 1 && version != 2 {
        return Err(format!("install version {version}"));
    }
    let hash_size = c.u8()?;
    let tag_count = c.be(2)? as usize;
    let n = c.be(4)? as usize;
    if version >= 2 {
        let _cks = c.u8()?;
        let _n2 = c.be(4)?;
        let _unk = c.u8()?;
    }
    let mut tags = Vec::new();
    for _ in 0..tag_count {
        tags.push(read_tag(&mut c, n)?);
    }
    let mut entries = Vec::new();
    for _ in 0..n {
        let path = c.cstr()?;
        let ckey = c.take(hash_size as usize)?.to_vec();
        let size = c.be(4)? as u32;
        let file_type = if version >= 2 { Some(c.u8()?) } else { None };
        entries.push(RefInstallEntry { path, ckey, size, file_type });
    }
    Ok(RefInstall { version, hash_size, tags, entries, trailing: c.rest() })
}

#[derive(Clone, Debug, PartialEq, Eq)]
pub struct RefDownloadEntry {
    pub ekey: Vec<u8>,
    pub size: u64,
    pub priority: i8,
    pub checksum: Option<u32>,
    pub flags: Vec<u8>,
}

#[derive(Clone, Debug)]
pub struct RefDownload {
    pub version: u8,
    pub has_checksum: bool,
    pub flag_size: u8,
    pub base_priority: i8,
    pub entries: Vec<RefDownloadEntry>,
    pub tags: Vec<RefTag>,
    pub trailing: usize,
}

pub fn parse_download(d: &[u8]) -> Result<RefDownload, String> {
    let mut c = Cur::new(d);
    if c.take(2)? != b"DL" {
        return Err("magic is not DL".into());
    }
    let version = c.u8()?;
    if !(1..=3).contains(&version) {
        return Err(format!("download version {version}"));
    }
    let ekey_size = c.u8()? as usize;
    let has_checksum = c.u8()? != 0;
    let n = c.be(4)? as usize;
    let tag_count = c.be(2)? as usize;
    let flag_size = if version >= 2 { c.u8()? } else { 0 };
    let base_priority = if version >= 3 {
        let b = c.u8()? as i8;
        c.take(3)?;
        b
    } else {
        0
    };
    let mut entries = Vec::new();
    for _ in 0..n {
        let ekey = c.take(ekey_size)?.to_vec();
        let size = c.be(5)?;
        let priority = c.u8()? as i8;
        let checksum = if has_checksum { Some(c.be(4)? as u32) } else { None };
        let flags = c.take(flag_size as usize)?.to_vec();
        entries.push(RefDownloadEntry { ekey, size, priority, checksum, flags });
    }
    let mut tags = Vec::new();
    for _ in 0..tag_count {
        tags.push(read_tag(&mut c, n)?);
    }
    Ok(RefDownload { version, has_checksum, flag_size, base_priority, entries, tags, trailing: c.rest() })
}

#[derive(Clone, Debug)]
pub struct RefSize {
    pub version: u8,
    pub total_size: u64,
    pub esize_width: u8,
    pub tags: Vec<RefTag>,
    /// (key, esize)
    pub entries: Vec<(Vec<u8>, u64)>,
    pub trailing: usize,
}

pub fn parse_size(d: &[u8]) -> Result<RefSize, String> {
    let mut c = Cur::new(d);
    if c.take(2)? != b"DS" {
        return Err("magic is not DS".into());
    }
    let version = c.u8()?;
    let ekey_size = c.u8()? as usize;
    let n = c.be(4)? as usize;
    let tag_count = c.be(2)? as usize;
    let (total_size, esize_width) = match version {
        1 => {
            let t = c.be(8)?;
            (t, c.u8()?)
        }
        2 => (c.be(5)?, 4u8),
        v => return Err(format!("size version {v}")),
    };
    let mut tags = Vec::new();
    for _ in 0..tag_count {
        tags.push(read_tag(&mut c, n)?);
    }
    let mut entries = Vec::new();
    for _ in 0..n {
        let k = c.take(ekey_size)?.to_vec();
        let e = c.be(esize_width as usize)?;
        entries.push((k, e));
    }
    Ok(RefSize { version, total_size, esize_width, tags, entries, trailing: c.rest() })
}

/// Hand-assembled known-answer vectors (bytes typed from the format description).
pub fn self_check() -> Result<(), String> {
    // install v1: 2 tags, 10 files; "W" (type 1) selects {0,1,9}; "o" (type 0x8000) selects {7,8}
    let mut d: Vec<u8> = Vec::new();
    d.extend_from_slice(b"IN");
    d.extend_from_slice(&[1, 16, 0, 2, 0, 0, 0, 10]);
    d.extend_from_slice(b"W\0");
    d.extend_from_slice(&[0x00, 0x01, 0b1100_0000, 0b0100_0000]);
    d.extend_from_slice(b"o\0");
    d.extend_from_slice(&[0x80, 0x00, 0b0000_0001, 0b1000_0000]);
    for i in 0..10u8 {
        d.push(b'a' + i);
        d.push(0);
        d.extend_from_slice(&[i; 16]);
        d.extend_from_slice(&[0, 0, 1, i]);
    }
    let r = parse_install(&d)?;
    let want_w: BTreeSet<usize> = [0, 1, 9].into_iter().collect();
    let want_o: BTreeSet<usize> = [7, 8].into_iter().collect();
    if r.tags.len() != 2 || r.tags[0].files != want_w || r.tags[1].files != want_o {
        return Err(format!("install vector: tag sets {:?}", r.tags.iter().map(|t| &t.files).collect::<Vec<_>>()));
    }
    if r.tags[0].name != "W" || r.tags[0].tag_type != 1 || r.tags[1].tag_type != 0x8000 {
        return Err("install vector: tag name/type".into());
    }
    if r.entries.len() != 10 || r.entries[9].path != "j" || r.entries[9].size != 256 + 9 || r.trailing != 0 {
        return Err("install vector: entries".into());
    }
    if !r.tags.iter().all(|t| t.stray.is_empty()) {
        return Err("install vector: stray".into());
    }
    // padding bit set → reported as stray, not as a file
    let mut d2 = d.clone();
    d2[10 + 2 + 2 + 1] |= 0b0010_0000; // bit index 10 of tag "W" (n = 10)
    let r2 = parse_install(&d2)?;
    if r2.tags[0].files != want_w || r2.tags[0].stray != vec![10] {
        return Err("install vector: stray bit not classified".into());
    }

    // download v3: checksum on, flag size 2, base priority -3, 9 files, 1 tag {0, 8}
    let mut e: Vec<u8> = Vec::new();
    e.extend_from_slice(b"DL");
    e.extend_from_slice(&[3, 16, 1, 0, 0, 0, 9, 0, 1, 2, 0xFD, 0, 0, 0]);
    for i in 0..9u8 {
        e.extend_from_slice(&[0xE0 | i; 16]);
        e.extend_from_slice(&[0xFF, 0xFF, 0xFF, 0xFF, 0xF0 | i]); // 40-bit size
        e.push(0x80u8.wrapping_add(i)); // priority -128 + i
        e.extend_from_slice(&[0xDE, 0xAD, 0xBE, i]);
        e.extend_from_slice(&[i, 0x55]);
    }
    e.extend_from_slice(b"tag\0");
    e.extend_from_slice(&[0x00, 0x02, 0b1000_0000, 0b1000_0000]);
    let r = parse_download(&e)?;
    let want: BTreeSet<usize> = [0, 8].into_iter().collect();
    if r.version != 3 || !r.has_checksum || r.flag_size != 2 || r.base_priority != -3 || r.trailing != 0 {
        return Err("download vector: header".into());
    }
    if r.entries.len() != 9
        || r.entries[8].size != 0xFF_FFFF_FFF8
        || r.entries[8].priority != -120
        || r.entries[8].checksum != Some(0xDEAD_BE08)
        || r.entries[8].flags != vec![8, 0x55]
    {
        return Err("download vector: entries".into());
    }
    if r.tags.len() != 1 || r.tags[0].files != want || r.tags[0].tag_type != 2 {
        return Err("download vector: tag".into());
    }
    // download v1: 11-byte header, no flags, no checksum, 0 files, 1 tag with an empty mask
    let mut f: Vec<u8> = Vec::new();
    f.extend_from_slice(b"DL");
    f.extend_from_slice(&[1, 16, 0, 0, 0, 0, 0, 0, 1]);
    f.extend_from_slice(b"t\0\0\x01");
    let r = parse_download(&f)?;
    if r.tags.len() != 1 || !r.tags[0].mask.is_empty() || r.trailing != 0 {
        return Err("download v1 vector".into());
    }

    // size v1 (esize width 3) and v2
    let mut s: Vec<u8> = Vec::new();
    s.extend_from_slice(b"DS");
    s.extend_from_slice(&[1, 9, 0, 0, 0, 2, 0, 1]);
    s.extend_from_slice(&[0, 0, 0, 0, 0, 1, 0, 5]); // total 65541
    s.push(3);
    s.extend_from_slice(b"x\0\0\x03\x40");
    s.extend_from_slice(&[0xAA; 9]);
    s.extend_from_slice(&[0, 0, 5]);
    s.extend_from_slice(&[0xBB; 9]);
    s.extend_from_slice(&[1, 0, 0]);
    let r = parse_size(&s)?;
    let want: BTreeSet<usize> = [1].into_iter().collect();
    if r.total_size != 65541 || r.entries.len() != 2 || r.entries[1].1 != 65536 || r.tags[0].files != want || r.trailing != 0 {
        return Err("size v1 vector".into());
    }
    Ok(())
}

/// Anchor on real CDN data if the repository's fixtures can be found: under MSB-first reading
/// the `OSX` platform tag of a WoW Classic install manifest selects exactly the paths that
/// contain `.app\` (checked with an independent Python reader during construction; LSB-first
/// reading selects a Windows DLL). Returns Ok(number of fixtures checked).
pub fn real_fixture_check(repo_roots: &[std::path::PathBuf]) -> Result<usize, String> {
    let mut checked = 0;
    for root in repo_roots {
        let dir = root.join("crates/cascette-formats/test_fixtures/install");
        for name in ["classic_era_1.15.7_v1.install", "classic_4.4.0_v1.install"] {
            let Ok(data) = std::fs::read(dir.join(name)) else { continue };
            let r = parse_install(&data)?;
            if r.trailing != 0 {
                return Err(format!("{name}: {} trailing bytes", r.trailing));
            }
            let osx = r.tags.iter().find(|t| t.name == "OSX").ok_or(format!("{name}: no OSX tag"))?;
            let app: BTreeSet<usize> =
                r.entries.iter().enumerate().filter(|(_, e)| e.path.contains(".app\\")).map(|(i, _)| i).collect();
            if app.is_empty() || osx.files != app {
                return Err(format!("{name}: OSX tag selects {} files, {} paths contain .app\\", osx.files.len(), app.len()));
            }
            // (real manifests do carry set padding bits — classic_4.4.0 has n = 182 and tags whose
            // last byte is 0xff — so padding is not judged anywhere)
            checked += 1;
        }
        if checked > 0 {
            break;
        }
    }
    Ok(checked)
}
