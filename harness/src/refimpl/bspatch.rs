//! Independent ZBSDIFF1 patch applier ("bspatch with zlib instead of bzip2").
//!
//! Written from the format description (docs/src/formats/patches.md, the `zbsdiff` module
//! docs) and Colin Percival's bsdiff 4.x file format, sharing no code with
//! `cascette_formats::zbsdiff`:
//!
//! ```text
//! 0   8  "ZBSDIFF1"
//! 8   8  X = length of the zlib-compressed control block   (offtin)
//! 16  8  Y = length of the zlib-compressed diff block      (offtin)
//! 24  8  size of the new file                               (offtin)
//! 32  X  zlib(control block) : triples (x, y, z) of offtin-encoded 64-bit integers
//! 32+X Y zlib(diff block)
//! 32+X+Y … zlib(extra block)
//! ```
//!
//! `offtin` is bsdiff's sign-magnitude little-endian encoding (bit 63 = sign); for the
//! non-negative header fields it coincides with plain little-endian `int64_t`.
//!
//! Application (bspatch.c): starting with `oldpos = newpos = 0`, for every triple: add `x`
//! bytes of the diff block to `old[oldpos..]` (bytes of `old` outside `[0, oldsize)` count as
//! zero) into `new[newpos..]`, advance both by `x`; copy `y` bytes of the extra block to
//! `new[newpos..]`, advance `newpos` by `y`; then `oldpos += z` (a *relative*, signed seek).
//! The loop runs until `newpos == newsize`; writing beyond `newsize` or running out of
//! control/diff/extra bytes is a corrupt patch.
//!
//! The only shared component is the zlib inflater (flate2), which is a third-party
//! implementation of RFC 1950/1951 and not part of the code under test.

use std::io::Read;

#[derive(Debug, Clone, PartialEq, Eq)]
pub struct Triple {
    pub diff: i64,
    pub extra: i64,
    pub seek: i64,
}

#[derive(Debug, Clone)]
pub struct Parsed {
    pub new_size: i64,
    pub control: Vec<Triple>,
    pub diff: Vec<u8>,
    pub extra: Vec<u8>,
}

/// bsdiff `offtin`: sign-magnitude, little-endian.
pub fn offtin(b: &[u8]) -> i64 {
    let mut y: i64 = i64::from(b[7] & 0x7f);
    for i in (0..7).rev() {
        y = y * 256 + i64::from(b[i]);
    }
    if b[7] & 0x80 != 0 { -y } else { y }
}

/// bsdiff `offtout`.
pub fn offtout(x: i64) -> [u8; 8] {
    let mut y = x.unsigned_abs();
    let mut b = [0u8; 8];
    for byte in &mut b {
        *byte = (y % 256) as u8;
        y /= 256;
    }
    if x < 0 {
        b[7] |= 0x80;
    }
    b
}

fn inflate(what: &str, data: &[u8]) -> Result<Vec<u8>, String> {
    let mut out = Vec::new();
    flate2::read::ZlibDecoder::new(data)
        .read_to_end(&mut out)
        .map_err(|e| format!("{what}: zlib error: {e}"))?;
    Ok(out)
}

/// Split a patch into header fields and the three inflated blocks.
pub fn parse(patch: &[u8]) -> Result<Parsed, String> {
    if patch.len() < 32 {
        return Err(format!("patch shorter than the 32-byte header ({} bytes)", patch.len()));
    }
    if &patch[0..8] != b"ZBSDIFF1" {
        return Err("bad magic".into());
    }
    let ctrl_len = offtin(&patch[8..16]);
    let diff_len = offtin(&patch[16..24]);
    let new_size = offtin(&patch[24..32]);
    if ctrl_len < 0 || diff_len < 0 || new_size < 0 {
        return Err(format!("negative header field ({ctrl_len}, {diff_len}, {new_size})"));
    }
    let body = &patch[32..];
    let (ctrl_len, diff_len) = (ctrl_len as u64, diff_len as u64);
    if ctrl_len.checked_add(diff_len).is_none_or(|t| t > body.len() as u64) {
        return Err("header block lengths exceed the patch".into());
    }
    let (c, rest) = body.split_at(ctrl_len as usize);
    let (d, e) = rest.split_at(diff_len as usize);
    let ctrl_raw = inflate("control", c)?;
    let diff = inflate("diff", d)?;
    let extra = inflate("extra", e)?;
    if ctrl_raw.len() % 24 != 0 {
        return Err(format!("control block length {} is not a multiple of 24", ctrl_raw.len()));
    }
    let control = ctrl_raw
        .chunks_exact(24)
        .map(|t| Triple { diff: offtin(&t[0..8]), extra: offtin(&t[8..16]), seek: offtin(&t[16..24]) })
        .collect();
    Ok(Parsed { new_size, control, diff, extra })
}

/// Apply an already parsed patch (bspatch.c main loop).
pub fn apply_parsed(old: &[u8], p: &Parsed) -> Result<Vec<u8>, String> {
    let new_size = p.new_size;
    if new_size > (1 << 31) {
        return Err("new size beyond what this reference handles".into());
    }
    let mut new = vec![0u8; new_size as usize];
    let old_size = old.len() as i64;
    let (mut oldpos, mut newpos): (i64, i64) = (0, 0);
    let (mut dpos, mut epos): (usize, usize) = (0, 0);
    let mut ctl = p.control.iter();
    while newpos < new_size {
        let Some(t) = ctl.next() else {
            return Err(format!("control block exhausted at newpos {newpos} of {new_size}"));
        };
        if t.diff < 0 || t.extra < 0 {
            return Err(format!("negative length in control triple {t:?}"));
        }
        if newpos + t.diff > new_size {
            return Err(format!("diff run of {} at newpos {newpos} exceeds new size {new_size}", t.diff));
        }
        let x = t.diff as usize;
        if dpos + x > p.diff.len() {
            return Err(format!("diff block exhausted: need {x} at {dpos}, have {}", p.diff.len()));
        }
        for i in 0..x {
            let op = oldpos.saturating_add(i as i64);
            let o = if op >= 0 && op < old_size { old[op as usize] } else { 0 };
            new[newpos as usize + i] = p.diff[dpos + i].wrapping_add(o);
        }
        dpos += x;
        newpos += t.diff;
        oldpos = oldpos.checked_add(t.diff).ok_or("old position overflow")?;
        if newpos + t.extra > new_size {
            return Err(format!("extra run of {} at newpos {newpos} exceeds new size {new_size}", t.extra));
        }
        let y = t.extra as usize;
        if epos + y > p.extra.len() {
            return Err(format!("extra block exhausted: need {y} at {epos}, have {}", p.extra.len()));
        }
        new[newpos as usize..newpos as usize + y].copy_from_slice(&p.extra[epos..epos + y]);
        epos += y;
        newpos += t.extra;
        oldpos = oldpos.checked_add(t.seek).ok_or("old position overflow")?;
    }
    Ok(new)
}

/// Apply a ZBSDIFF1 patch to `old`.
pub fn bspatch(old: &[u8], patch: &[u8]) -> Result<Vec<u8>, String> {
    apply_parsed(old, &parse(patch)?)
}

/// Assemble a ZBSDIFF1 file from raw (uncompressed) blocks — used by the harness to hand-make
/// patches for the "any patch" half of C16 and by the self-check.
pub fn assemble(control: &[Triple], diff: &[u8], extra: &[u8], new_size: i64) -> Vec<u8> {
    let mut raw = Vec::with_capacity(control.len() * 24);
    for t in control {
        raw.extend_from_slice(&offtout(t.diff));
        raw.extend_from_slice(&offtout(t.extra));
        raw.extend_from_slice(&offtout(t.seek));
    }
    assemble_compressed(&deflate(&raw), &deflate(diff), &deflate(extra), new_size)
}

pub fn assemble_compressed(c: &[u8], d: &[u8], e: &[u8], new_size: i64) -> Vec<u8> {
    let mut out = Vec::with_capacity(32 + c.len() + d.len() + e.len());
    out.extend_from_slice(b"ZBSDIFF1");
    out.extend_from_slice(&offtout(c.len() as i64));
    out.extend_from_slice(&offtout(d.len() as i64));
    out.extend_from_slice(&offtout(new_size));
    out.extend_from_slice(c);
    out.extend_from_slice(d);
    out.extend_from_slice(e);
    out
}

pub fn deflate(data: &[u8]) -> Vec<u8> {
    use std::io::Write;
    let mut enc = flate2::write::ZlibEncoder::new(Vec::new(), flate2::Compression::default());
    enc.write_all(data).expect("in-memory deflate");
    enc.finish().expect("in-memory deflate")
}

/// Known-answer self-check: hand-computed patches for the classic semantics (relative
/// negative seek, reads outside `old` count as zero, byte-wise wrapping add). Returns an
/// error text if the reference disagrees with the hand computation.
pub fn self_check() -> Result<(), String> {
    // offtin/offtout vectors from the bsdiff definition
    let v: [(i64, [u8; 8]); 5] = [
        (0, [0, 0, 0, 0, 0, 0, 0, 0]),
        (1, [1, 0, 0, 0, 0, 0, 0, 0]),
        (-1, [1, 0, 0, 0, 0, 0, 0, 0x80]),
        (258, [2, 1, 0, 0, 0, 0, 0, 0]),
        (-65536, [0, 0, 1, 0, 0, 0, 0, 0x80]),
    ];
    for (x, b) in v {
        if offtout(x) != b || offtin(&b) != x {
            return Err(format!("offtin/offtout vector {x}"));
        }
    }
    let t = |d, e, s| Triple { diff: d, extra: e, seek: s };
    // old = "abcdef"; copy "cd" by seeking +2 first, insert "XY", go back 4 and copy "ab"+1
    let old = b"abcdef";
    let p = assemble(&[t(0, 0, 2), t(2, 2, -4), t(2, 0, 0)], &[0, 0, 1, 1], b"XY", 6);
    let got = bspatch(old, &p)?;
    if got != b"cdXYbc" {
        return Err(format!("relative seek vector gave {:?}", String::from_utf8_lossy(&got)));
    }
    // reads past the end of old are zero; add wraps
    let p = assemble(&[t(3, 0, 0)], &[1, 0xff, 7], b"", 3);
    if bspatch(&[0xff, 2], &p)? != [0x00, 0x01, 7] {
        return Err("wrapping add / beyond-EOF vector".into());
    }
    // negative old position: bytes before the start of old count as zero, position is kept
    let p = assemble(&[t(0, 0, -2), t(4, 0, 0)], &[1, 1, 1, 1], b"", 4);
    if bspatch(b"ab", &p)? != [1, 1, b'a' + 1, b'b' + 1] {
        return Err("negative old position vector".into());
    }
    // output longer than the header states is refused
    let p = assemble(&[t(0, 3, 0)], b"", b"xyz", 2);
    if bspatch(b"", &p).is_ok() {
        return Err("overlong extra run accepted".into());
    }
    // short output is refused
    let p = assemble(&[t(0, 1, 0)], b"", b"x", 2);
    if bspatch(b"", &p).is_ok() {
        return Err("short control block accepted".into());
    }
    // empty new file needs no control triple at all
    let p = assemble(&[], b"", b"", 0);
    if bspatch(b"abc", &p)? != b"" {
        return Err("empty output vector".into());
    }
    Ok(())
}
