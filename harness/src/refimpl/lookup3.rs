//! Bob Jenkins' lookup3.c (May 2006, public domain): `hashlittle` and `hashlittle2`,
//! written after the byte-at-a-time branch of the C source (the branch that is valid for
//! every alignment and endianness; on little-endian machines the word-reading branches are
//! defined to return the same values). The C `switch` with fall-through for the last
//! 1..=12 bytes is expressed as "add byte i, shifted by 8·(i mod 4), to word i div 4".
//! Known answers: the values printed by lookup3.c's own `driver5()` self test.

#[inline]
fn rot(x: u32, k: u32) -> u32 {
    (x << k) | (x >> (32 - k))
}

/// `mix(a,b,c)` of lookup3.c.
#[inline]
fn mix(v: &mut [u32; 3]) {
    let [mut a, mut b, mut c] = *v;
    a = a.wrapping_sub(c); a ^= rot(c, 4);  c = c.wrapping_add(b);
    b = b.wrapping_sub(a); b ^= rot(a, 6);  a = a.wrapping_add(c);
    c = c.wrapping_sub(b); c ^= rot(b, 8);  b = b.wrapping_add(a);
    a = a.wrapping_sub(c); a ^= rot(c, 16); c = c.wrapping_add(b);
    b = b.wrapping_sub(a); b ^= rot(a, 19); a = a.wrapping_add(c);
    c = c.wrapping_sub(b); c ^= rot(b, 4);  b = b.wrapping_add(a);
    *v = [a, b, c];
}

/// `final(a,b,c)` of lookup3.c.
#[inline]
fn fin(v: &mut [u32; 3]) {
    let [mut a, mut b, mut c] = *v;
    c ^= b; c = c.wrapping_sub(rot(b, 14));
    a ^= c; a = a.wrapping_sub(rot(c, 11));
    b ^= a; b = b.wrapping_sub(rot(a, 25));
    c ^= b; c = c.wrapping_sub(rot(b, 16));
    a ^= c; a = a.wrapping_sub(rot(c, 4));
    b ^= a; b = b.wrapping_sub(rot(a, 14));
    c ^= b; c = c.wrapping_sub(rot(b, 24));
    *v = [a, b, c];
}

/// Shared body: consume the key into (a,b,c); returns false for the `case 0: return`
/// exit (zero-length key: the initial values are reported without `final`).
fn absorb(key: &[u8], v: &mut [u32; 3]) -> bool {
    let mut k = key;
    // "all but the last block: affect some 32 bits of (a,b,c)"
    while k.len() > 12 {
        for i in 0..12 {
            v[i / 4] = v[i / 4].wrapping_add(u32::from(k[i]) << (8 * (i % 4)));
        }
        mix(v);
        k = &k[12..];
    }
    // "last block: affect all 32 bits of (c)" — switch(length) with fall-through
    if k.is_empty() {
        return false;
    }
    for i in (0..k.len()).rev() {
        v[i / 4] = v[i / 4].wrapping_add(u32::from(k[i]) << (8 * (i % 4)));
    }
    fin(v);
    true
}

/// `uint32_t hashlittle(const void *key, size_t length, uint32_t initval)`.
pub fn hashlittle(key: &[u8], initval: u32) -> u32 {
    let init = 0xdead_beef_u32.wrapping_add(key.len() as u32).wrapping_add(initval);
    let mut v = [init, init, init];
    absorb(key, &mut v);
    v[2]
}

/// `void hashlittle2(const void *key, size_t length, uint32_t *pc, uint32_t *pb)`;
/// returns the new (*pc, *pb).
pub fn hashlittle2(key: &[u8], pc: u32, pb: u32) -> (u32, u32) {
    let init = 0xdead_beef_u32.wrapping_add(key.len() as u32).wrapping_add(pc);
    let mut v = [init, init, init.wrapping_add(pb)];
    absorb(key, &mut v);
    (v[2], v[1])
}

pub fn self_check() -> Result<usize, String> {
    let four = b"Four score and seven years ago";
    let mut n = 0usize;
    // driver5() of lookup3.c: (pb_in, pc_in, key) -> "c b"
    let v2: [(&[u8], u32, u32, u32, u32); 6] = [
        (b"", 0, 0, 0xdead_beef, 0xdead_beef),
        (b"", 0, 0xdead_beef, 0xbd5b_7dde, 0xdead_beef),
        (b"", 0xdead_beef, 0xdead_beef, 0x9c09_3ccd, 0xbd5b_7dde),
        (four, 0, 0, 0x1777_0551, 0xce72_26e6),
        (four, 0, 1, 0xe360_7cae, 0xbd37_1de4),
        (four, 1, 0, 0xcd62_8161, 0x6cbe_a4b3),
    ];
    for (i, (k, pc, pb, ec, eb)) in v2.iter().enumerate() {
        if hashlittle2(k, *pc, *pb) != (*ec, *eb) {
            return Err(format!("driver5 hashlittle2 line {i}: got {:08x?}", hashlittle2(k, *pc, *pb)));
        }
        n += 1;
    }
    for (iv, e) in [(0u32, 0x1777_0551u32), (1, 0xcd62_8161)] {
        if hashlittle(four, iv) != e {
            return Err(format!("driver5 hashlittle initval {iv}"));
        }
        n += 1;
    }
    if hashlittle(b"", 0) != 0xdead_beef {
        return Err("hashlittle(\"\", 0)".into());
    }
    n += 1;
    Ok(n)
}
