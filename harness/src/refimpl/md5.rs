//! MD5 written from RFC 1321 §3: padding (§3.1), 64-bit little-endian bit length (§3.2),
//! the four-word buffer (§3.3), the auxiliary functions F, G, H, I and the 64-step block
//! operation with T[i] = floor(2^32 · |sin i|) (§3.4), little-endian output (§3.5).
//! Known answers: the test suite of RFC 1321 appendix A.5.

/// RFC 1321 §3.4: "T[i] … the integer part of 4294967296 times abs(sin(i)), i in radians".
/// Computed from that definition and compared with the table printed in the RFC's
/// reference code (`T_PRINTED`); a disagreement is reported by `self_check`.
fn t_table() -> [u32; 64] {
    let mut t = [0u32; 64];
    for (i, v) in t.iter_mut().enumerate() {
        *v = (4_294_967_296.0_f64 * ((i + 1) as f64).sin().abs()).floor() as u32;
    }
    t
}

const T_PRINTED: [u32; 64] = [
    0xd76aa478, 0xe8c7b756, 0x242070db, 0xc1bdceee, 0xf57c0faf, 0x4787c62a, 0xa8304613, 0xfd469501, 0x698098d8, 0x8b44f7af, 0xffff5bb1, 0x895cd7be, 0x6b901122, 0xfd987193, 0xa679438e, 0x49b40821,
    0xf61e2562, 0xc040b340, 0x265e5a51, 0xe9b6c7aa, 0xd62f105d, 0x02441453, 0xd8a1e681, 0xe7d3fbc8, 0x21e1cde6, 0xc33707d6, 0xf4d50d87, 0x455a14ed, 0xa9e3e905, 0xfcefa3f8, 0x676f02d9, 0x8d2a4c8a,
    0xfffa3942, 0x8771f681, 0x6d9d6122, 0xfde5380c, 0xa4beea44, 0x4bdecfa9, 0xf6bb4b60, 0xbebfbc70, 0x289b7ec6, 0xeaa127fa, 0xd4ef3085, 0x04881d05, 0xd9d4d039, 0xe6db99e5, 0x1fa27cf8, 0xc4ac5665,
    0xf4292244, 0x432aff97, 0xab9423a7, 0xfc93a039, 0x655b59c3, 0x8f0ccc92, 0xffeff47d, 0x85845dd1, 0x6fa87e4f, 0xfe2ce6e0, 0xa3014314, 0x4e0811a1, 0xf7537e82, 0xbd3af235, 0x2ad7d2bb, 0xeb86d391,
];

fn block(state: &mut [u32; 4], chunk: &[u8], t: &[u32; 64]) {
    let mut x = [0u32; 16];
    for (j, w) in x.iter_mut().enumerate() {
        *w = u32::from(chunk[4 * j]) | u32::from(chunk[4 * j + 1]) << 8 | u32::from(chunk[4 * j + 2]) << 16 | u32::from(chunk[4 * j + 3]) << 24;
    }
    const S: [[u32; 4]; 4] = [[7, 12, 17, 22], [5, 9, 14, 20], [4, 11, 16, 23], [6, 10, 15, 21]];
    let (mut a, mut b, mut c, mut d) = (state[0], state[1], state[2], state[3]);
    for i in 0..64usize {
        let round = i / 16;
        let (f, k) = match round {
            0 => ((b & c) | (!b & d), i),
            1 => ((b & d) | (c & !d), (1 + 5 * i) % 16),
            2 => (b ^ c ^ d, (5 + 3 * i) % 16),
            _ => (c ^ (b | !d), (7 * i) % 16),
        };
        // [abcd k s i]: a = b + ((a + f(b,c,d) + X[k] + T[i]) <<< s), then rotate the roles
        let na = b.wrapping_add(a.wrapping_add(f).wrapping_add(x[k]).wrapping_add(t[i]).rotate_left(S[round][i % 4]));
        a = d;
        d = c;
        c = b;
        b = na;
    }
    state[0] = state[0].wrapping_add(a);
    state[1] = state[1].wrapping_add(b);
    state[2] = state[2].wrapping_add(c);
    state[3] = state[3].wrapping_add(d);
}

pub fn md5(msg: &[u8]) -> [u8; 16] {
    let t = t_table();
    let mut m = msg.to_vec();
    m.push(0x80);
    while m.len() % 64 != 56 {
        m.push(0);
    }
    let bits = (msg.len() as u64).wrapping_mul(8);
    for i in 0..8 {
        m.push((bits >> (8 * i)) as u8);
    }
    let mut st = [0x6745_2301u32, 0xefcd_ab89, 0x98ba_dcfe, 0x1032_5476];
    for chunk in m.chunks(64) {
        block(&mut st, chunk, &t);
    }
    let mut out = [0u8; 16];
    for (i, w) in st.iter().enumerate() {
        for j in 0..4 {
            out[4 * i + j] = (w >> (8 * j)) as u8;
        }
    }
    out
}

pub fn self_check() -> Result<usize, String> {
    if t_table() != T_PRINTED {
        return Err("T[i] computed from sin() differs from the table printed in RFC 1321".into());
    }
    let mut n = 1usize;
    for (m, d) in [
        ("", "d41d8cd98f00b204e9800998ecf8427e"),
        ("a", "0cc175b9c0f1b6a831c399e269772661"),
        ("abc", "900150983cd24fb0d6963f7d28e17f72"),
        ("message digest", "f96b697d7cb7938d525a2f31aaf161d0"),
        ("abcdefghijklmnopqrstuvwxyz", "c3fcd3d76192e4007dfb496cca67e13b"),
        ("ABCDEFGHIJKLMNOPQRSTUVWXYZabcdefghijklmnopqrstuvwxyz0123456789", "d174ab98d277d9f5a5611c2c9f419d9f"),
        ("12345678901234567890123456789012345678901234567890123456789012345678901234567890", "57edf4a22be3c955ac49da2e2107b67a"),
    ] {
        if hex::encode(md5(m.as_bytes())) != d {
            return Err(format!("RFC 1321 A.5 MD5(\"{m}\")"));
        }
        n += 1;
    }
    Ok(n)
}
