//! RC4 ("alleged RC4") written from the textbook description (Schneier, Applied
//! Cryptography §17.1; RFC 6229 §1): key scheduling over the identity permutation, then
//! the pseudo-random generation algorithm. Known answers: RFC 6229 and the three classic
//! vectors published with the 1994 posting.
//!
//! `blte_key`: see its own comment (documented rule: bare key).

use super::unhex;

pub struct Rc4 {
    s: [usize; 256],
    i: usize,
    j: usize,
}

impl Rc4 {
    pub fn new(key: &[u8]) -> Rc4 {
        assert!(!key.is_empty() && key.len() <= 256);
        let mut s = [0usize; 256];
        for (n, v) in s.iter_mut().enumerate() {
            *v = n;
        }
        let mut j = 0usize;
        for i in 0..256 {
            j = (j + s[i] + usize::from(key[i % key.len()])) % 256;
            s.swap(i, j);
        }
        Rc4 { s, i: 0, j: 0 }
    }
    pub fn next(&mut self) -> u8 {
        self.i = (self.i + 1) % 256;
        self.j = (self.j + self.s[self.i]) % 256;
        self.s.swap(self.i, self.j);
        self.s[(self.s[self.i] + self.s[self.j]) % 256] as u8
    }
    pub fn keystream(&mut self, n: usize) -> Vec<u8> {
        (0..n).map(|_| self.next()).collect()
    }
}

pub fn xor(key: &[u8], data: &[u8]) -> Vec<u8> {
    let mut c = Rc4::new(key);
    data.iter().map(|d| d ^ c.next()).collect()
}

/// BLTE 'A' block key. The property statement names only "ARC4" (the published RC4), and the
/// repository's format documentation (docs/src/encryption/salsa20.md, "ARC4 (Legacy)") keys
/// the cipher with the bare TACT key; no published key-derivation rule for type 'A' blocks is
/// available offline. The reference therefore follows the documented rule: RC4 under the
/// 16-byte key, IV and chunk index unused. (A builder proposed key ‖ IV^index ‖ zero padding;
/// that would demand more than the statement and the documentation say.)
pub fn blte_key(key: &[u8; 16], _iv: &[u8], _chunk_index: u64) -> [u8; 16] {
    *key
}

pub fn self_check() -> Result<usize, String> {
    let mut n = 0usize;
    // classic vectors
    for (k, p, c) in [
        ("Key", "Plaintext", "bbf316e8d940af0ad3"),
        ("Wiki", "pedia", "1021bf0420"),
        ("Secret", "Attack at dawn", "45a01f645fc35b383552544b9bf5"),
    ] {
        if xor(k.as_bytes(), p.as_bytes()) != unhex(c) {
            return Err(format!("classic vector key={k}"));
        }
        n += 1;
    }
    // RFC 6229: key, offset, 16 keystream bytes
    let v: [(&str, usize, &str); 8] = [
        ("0102030405", 0, "b2396305f03dc027ccc3524a0a1118a8"),
        ("0102030405", 16, "6982944f18fc82d589c403a47a0d0919"),
        ("01020304050607", 0, "293f02d47f37c9b633f2af5285feb46b"),
        ("0102030405060708", 0, "97ab8a1bf0afb96132f2f67258da15a8"),
        ("0102030405060708090a0b0c0d0e0f10", 0, "9ac7cc9a609d1ef7b2932899cde41b97"),
        ("0102030405060708090a0b0c0d0e0f10", 16, "5248c4959014126a6e8a84f11d1a9e1c"),
        ("0102030405060708090a0b0c0d0e0f101112131415161718191a1b1c1d1e1f20", 0, "eaa6bd25880bf93d3f5d1e4ca2611d91"),
        ("0102030405060708090a0b0c0d0e0f101112131415161718191a1b1c1d1e1f20", 16, "cfa45c9f7e714b54bdfa80027cb14380"),
    ];
    for (k, off, exp) in v {
        let mut c = Rc4::new(&unhex(k));
        let ks = c.keystream(off + 16);
        if ks[off..] != unhex(exp)[..] {
            return Err(format!("RFC 6229 key={k} offset={off}"));
        }
        n += 1;
    }
    if blte_key(&[0xAA; 16], &[1, 2, 3, 4], 7) != [0xAA; 16] {
        return Err("blte_key".into());
    }
    n += 1;
    Ok(n)
}
