//! Evidence writer, violation collection, known-findings matching.
//!
//! Exit codes of a check: 0 = held on everything explored (possibly with KNOWN-FINDING
//! lines), 1 = at least one VIOLATION line, 2 = MACHINERY-ERROR (never a verdict).

use serde_json::{Map, Value, json};
use std::collections::{BTreeMap, HashSet};
use std::path::PathBuf;
use std::sync::Mutex;
use std::time::Instant;

#[derive(Clone, Copy, PartialEq, Eq, Debug)]
pub enum Tier {
    Quick,
    Thorough,
}

impl Tier {
    pub fn as_str(self) -> &'static str {
        match self {
            Tier::Quick => "quick",
            Tier::Thorough => "thorough",
        }
    }
    pub fn pick<T>(self, quick: T, thorough: T) -> T {
        match self {
            Tier::Quick => quick,
            Tier::Thorough => thorough,
        }
    }
}

#[derive(Clone, Copy, PartialEq, Eq, Debug)]
pub enum Level {
    Exploration,
    FaultEnumeration,
    ModelChecking,
}

impl Level {
    pub fn as_str(self) -> &'static str {
        match self {
            Level::Exploration => "exploration",
            Level::FaultEnumeration => "fault_enumeration",
            Level::ModelChecking => "model_checking",
        }
    }
}

pub fn verif_root() -> PathBuf {
    if let Some(r) = std::env::var_os("VERIF_ROOT") {
        return PathBuf::from(r);
    }
    PathBuf::from("/verif")
}

#[derive(Clone, Debug)]
pub struct VioRec {
    pub kind: String,
    pub sig: String,
    pub witness: Value,
    pub detail: String,
    pub count: u64,
}

#[derive(Default)]
struct Inner {
    evaluations: u64,
    nontrivial: HashSet<u64>,
    nontrivial_extra: u64,
    states: u64,
    transitions: u64,
    traces: u64,
    samples: Vec<Value>,
    rule: String,
    assumptions: Vec<String>,
    extra: Map<String, Value>,
    violations: BTreeMap<String, VioRec>,
    exhaustive: bool,
    caps: Vec<String>,
    outcomes: HashSet<u64>,
    machinery_errors: Vec<String>,
}

pub struct Report {
    pub prop: String,
    pub tier: Tier,
    pub seed: u64,
    pub level: Level,
    start: Instant,
    inner: Mutex<Inner>,
}

pub const MAX_SAMPLES: usize = 12;
/// Stop recording distinct violation signatures beyond this many (the run still exits 1).
pub const MAX_DISTINCT_VIOLATIONS: usize = 400;

impl Report {
    pub fn new(prop: &str, tier: Tier, seed: u64, level: Level) -> Report {
        let mut inner = Inner::default();
        inner.exhaustive = true;
        Report {
            prop: prop.to_string(),
            tier,
            seed,
            level,
            start: Instant::now(),
            inner: Mutex::new(inner),
        }
    }

    pub fn elapsed_s(&self) -> f64 {
        self.start.elapsed().as_secs_f64()
    }

    pub fn add_evaluations(&self, n: u64) {
        self.inner.lock().unwrap().evaluations += n;
    }
    /// Record one distinct non-trivial case by its hash.
    pub fn add_nontrivial(&self, h: u64) {
        self.inner.lock().unwrap().nontrivial.insert(h);
    }
    /// For engines that already deduplicate: add a measured count of distinct non-trivial cases.
    pub fn add_nontrivial_count(&self, n: u64) {
        self.inner.lock().unwrap().nontrivial_extra += n;
    }
    pub fn add_states(&self, n: u64) {
        self.inner.lock().unwrap().states += n;
    }
    pub fn add_transitions(&self, n: u64) {
        self.inner.lock().unwrap().transitions += n;
    }
    pub fn add_traces(&self, n: u64) {
        self.inner.lock().unwrap().traces += n;
    }
    pub fn add_outcome(&self, h: u64) {
        self.inner.lock().unwrap().outcomes.insert(h);
    }
    pub fn outcomes(&self) -> usize {
        self.inner.lock().unwrap().outcomes.len()
    }
    pub fn sample(&self, v: Value) {
        let mut g = self.inner.lock().unwrap();
        if g.samples.len() < MAX_SAMPLES {
            g.samples.push(v);
        }
    }
    pub fn set_rule(&self, s: &str) {
        let mut g = self.inner.lock().unwrap();
        if g.rule.is_empty() {
            g.rule = s.to_string();
        } else {
            g.rule.push_str(" | ");
            g.rule.push_str(s);
        }
    }
    pub fn assume(&self, s: &str) {
        self.inner.lock().unwrap().assumptions.push(s.to_string());
    }
    pub fn extra(&self, k: &str, v: Value) {
        self.inner.lock().unwrap().extra.insert(k.to_string(), v);
    }
    /// Add `n` to a numeric extra counter.
    pub fn bump(&self, k: &str, n: u64) {
        let mut g = self.inner.lock().unwrap();
        let cur = g.extra.get(k).and_then(Value::as_u64).unwrap_or(0);
        g.extra.insert(k.to_string(), json!(cur + n));
    }
    pub fn cap_hit(&self, what: &str) {
        let mut g = self.inner.lock().unwrap();
        g.exhaustive = false;
        g.caps.push(what.to_string());
    }
    pub fn machinery_error(&self, what: &str) {
        self.inner.lock().unwrap().machinery_errors.push(what.to_string());
    }
    pub fn has_machinery_error(&self) -> bool {
        !self.inner.lock().unwrap().machinery_errors.is_empty()
    }

    /// Record a violation. `sig` identifies the specific failing input / call site / history
    /// class; violations with the same sig are counted once, the first witness is kept.
    pub fn violation(&self, kind: &str, sig: &str, witness: Value, detail: &str) {
        let mut g = self.inner.lock().unwrap();
        if let Some(v) = g.violations.get_mut(sig) {
            v.count += 1;
            // an occurrence reported without a witness (a cached signature) must not shadow the
            // one that carries it
            if v.witness.is_null() && !witness.is_null() {
                v.witness = witness;
                v.detail = detail.to_string();
            }
            return;
        }
        if g.violations.len() >= MAX_DISTINCT_VIOLATIONS {
            let k = "violations_beyond_cap";
            let cur = g.extra.get(k).and_then(Value::as_u64).unwrap_or(0);
            g.extra.insert(k.to_string(), json!(cur + 1));
            return;
        }
        g.violations.insert(
            sig.to_string(),
            VioRec {
                kind: kind.to_string(),
                sig: sig.to_string(),
                witness,
                detail: detail.to_string(),
                count: 1,
            },
        );
    }

    pub fn violation_count(&self) -> usize {
        self.inner.lock().unwrap().violations.len()
    }

    pub fn violations_snapshot(&self) -> Vec<VioRec> {
        self.inner.lock().unwrap().violations.values().cloned().collect()
    }

    /// Write evidence, print KNOWN-FINDING / VIOLATION lines, return the exit code.
    pub fn finish(self) -> i32 {
        let root = verif_root();
        let wall = self.start.elapsed().as_secs_f64();
        let g = self.inner.into_inner().unwrap();
        let known = load_known_findings(&self.prop);

        let mut exit = 0;
        let mut known_hits: Vec<Value> = Vec::new();
        let mut vio_list: Vec<Value> = Vec::new();
        let replays = root.join("replays");
        let _ = std::fs::create_dir_all(&replays);

        for v in g.violations.values() {
            if let Some(k) = known.iter().find(|k| k.status == "known" && k.matches(&v.sig)) {
                println!(
                    "KNOWN-FINDING: property={} {} [sig={} occurrences={}]",
                    self.prop, k.what, v.sig, v.count
                );
                known_hits.push(json!({"sig": v.sig, "kind": v.kind, "occurrences": v.count, "what": k.what}));
                continue;
            }
            let h = crate::util::fnv64_str(&v.sig);
            let path = replays.join(format!("{}-{:016x}.json", self.prop, h));
            let body = json!({
                "property": self.prop,
                "kind": v.kind,
                "sig": v.sig,
                "detail": v.detail,
                "occurrences": v.count,
                "witness": v.witness,
            });
            let _ = std::fs::write(&path, serde_json::to_vec_pretty(&body).unwrap());
            println!("VIOLATION property={} replay={}", self.prop, path.display());
            println!("  kind={} sig={}", v.kind, v.sig);
            println!("  detail: {}", v.detail.chars().take(600).collect::<String>());
            vio_list.push(json!({"sig": v.sig, "kind": v.kind, "occurrences": v.count, "replay": path.display().to_string()}));
            exit = 1;
        }
        if g.extra.get("violations_beyond_cap").and_then(Value::as_u64).unwrap_or(0) > 0 {
            exit = exit.max(1);
        }

        // evidence
        let nontrivial = g.nontrivial.len() as u64 + g.nontrivial_extra;
        let mut cov = Map::new();
        cov.insert("evaluations".into(), json!(g.evaluations));
        cov.insert("distinct_nontrivial".into(), json!(nontrivial));
        cov.insert("rule".into(), json!(g.rule));
        cov.insert("samples".into(), Value::Array(g.samples.clone()));
        if self.level == Level::ModelChecking {
            cov.insert("states".into(), json!(g.states));
            cov.insert("transitions".into(), json!(g.transitions));
            cov.insert("traces_validated_against_impl".into(), json!(g.traces));
        }
        cov.insert("exhaustive".into(), json!(g.exhaustive));
        cov.insert("caps_hit".into(), json!(g.caps));
        cov.insert("distinct_outcomes".into(), json!(g.outcomes.len()));
        cov.insert("known_findings_seen".into(), Value::Array(known_hits));
        cov.insert("violations_reported".into(), Value::Array(vio_list));
        for (k, v) in &g.extra {
            cov.insert(k.clone(), v.clone());
        }
        let ev = json!({
            "property_id": self.prop,
            "tier": self.tier.as_str(),
            "seed": self.seed,
            "level": self.level.as_str(),
            "coverage": Value::Object(cov),
            "assumptions": g.assumptions,
            "wall_s": (wall * 1000.0).round() / 1000.0,
            "violations": if exit == 1 { g.violations.values().filter(|v| !known.iter().any(|k| k.status == "known" && k.matches(&v.sig))).count() as i64 } else { 0 },
        });
        let evdir = root.join("evidence");
        let _ = std::fs::create_dir_all(&evdir);
        let evpath = evdir.join(format!("{}.json", self.prop));
        if let Err(e) = std::fs::write(&evpath, serde_json::to_vec_pretty(&ev).unwrap()) {
            println!("MACHINERY-ERROR: cannot write evidence {}: {e}", evpath.display());
            return 2;
        }

        if !g.machinery_errors.is_empty() {
            for m in &g.machinery_errors {
                println!("MACHINERY-ERROR: {m}");
            }
            if exit == 0 {
                return 2;
            }
        }
        println!(
            "{} {} done in {:.1}s: evaluations={} states={} transitions={} distinct_nontrivial={} outcomes={} exhaustive={} exit={}",
            self.prop,
            self.tier.as_str(),
            wall,
            g.evaluations,
            g.states,
            g.transitions,
            nontrivial,
            g.outcomes.len(),
            g.exhaustive,
            exit
        );
        exit
    }
}

#[derive(Debug, Clone)]
pub struct KnownFinding {
    pub property: String,
    pub sig: String,
    pub status: String,
    pub what: String,
}

impl KnownFinding {
    /// A known finding names one signature exactly, or a signature prefix when it ends in `*`
    /// (used only where the signature embeds a family index such as a value-size class).
    pub fn matches(&self, sig: &str) -> bool {
        if let Some(p) = self.sig.strip_suffix('*') {
            sig.starts_with(p)
        } else {
            self.sig == sig
        }
    }
}

pub fn load_known_findings(prop: &str) -> Vec<KnownFinding> {
    let path = verif_root().join("KNOWN_FINDINGS.json");
    let Ok(data) = std::fs::read(&path) else {
        return Vec::new();
    };
    let Ok(v) = serde_json::from_slice::<Value>(&data) else {
        println!("MACHINERY-ERROR: KNOWN_FINDINGS.json does not parse");
        return Vec::new();
    };
    let mut out = Vec::new();
    if let Some(arr) = v.get("findings").and_then(Value::as_array) {
        for e in arr {
            let p = e.get("property").and_then(Value::as_str).unwrap_or("");
            if p != prop {
                continue;
            }
            out.push(KnownFinding {
                property: p.to_string(),
                sig: e.get("sig").and_then(Value::as_str).unwrap_or("").to_string(),
                status: e.get("status").and_then(Value::as_str).unwrap_or("").to_string(),
                what: e.get("what").and_then(Value::as_str).unwrap_or("").to_string(),
            });
        }
    }
    out
}
