//! Model-checking harness for the cascette-rs properties C01–C20 (see /verif/DESIGN.md).
#![allow(clippy::all)]

pub mod alloc;
pub mod crash;
pub mod enumx;
pub mod net;
pub mod props;
pub mod refimpl;
pub mod report;
pub mod sched;
pub mod seq;
pub mod util;

/// MD5 via the `md5` crate (not code under test) for harness-side fix-ups.
pub fn refmd5(data: &[u8]) -> [u8; 16] {
    md5::compute(data).0
}

pub fn sha256_hex(data: &[u8]) -> String {
    use sha2::Digest;
    let mut h = sha2::Sha256::new();
    h.update(data);
    format!("{:x}", h.finalize())
}
