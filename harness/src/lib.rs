//! Model-checking harness for the cascette-rs properties C01–C20 (see /verif/DESIGN.md).
#![allow(clippy::all)]

pub mod crash;
pub mod props;
pub mod report;
pub mod sched;
pub mod seq;
pub mod util;
