//! CRASH — crash points × torn writes over the real I/O log (DESIGN §2.3).
//!
//! The I/O history of a save routine is recorded at the system-call boundary with
//! `strace -f -xx`, turned into operations on names and file contents, and every crash
//! state admitted by the persistence model is materialised as a directory on which the
//! real loader is run.
//!
//! Persistence model (conservative, standard): at a crash after log position k
//!   * name-space operations (create/rename/unlink/mkdir) are durable in program order up
//!     to any j ≤ k chosen by the adversary (directories are never fsynced by the subject);
//!   * data written to a file before its last fsync/fdatasync at a position ≤ k is durable;
//!     later data operations on that file are pending: any prefix of them may have reached
//!     the disk, the next one torn at any byte boundary, its unwritten tail reading as
//!     absent/stale or as zeros (size already extended);
//!   * content follows the file across renames.

use std::collections::{BTreeMap, BTreeSet, HashMap};
use std::path::{Path, PathBuf};
use std::process::Command;

pub const MARK_BEGIN: &str = "/__VERIF_MARK_BEGIN__";
pub const MARK_END: &str = "/__VERIF_MARK_END__";

/// Called by the driver process around the save under test.
pub fn mark(path: &str) {
    let _ = std::fs::File::open(path);
}

#[derive(Clone, Debug, PartialEq)]
pub enum FsOp {
    /// name-space: a new empty file appears under `path`
    Create { path: PathBuf, file: usize },
    Mkdir { path: PathBuf },
    Rmdir { path: PathBuf },
    Rename { from: PathBuf, to: PathBuf },
    Unlink { path: PathBuf },
    /// data
    Trunc { file: usize, len: u64 },
    Write { file: usize, off: u64, data: Vec<u8> },
    Fsync { file: usize },
}

impl FsOp {
    pub fn is_namespace(&self) -> bool {
        matches!(self, FsOp::Create { .. } | FsOp::Mkdir { .. } | FsOp::Rmdir { .. } | FsOp::Rename { .. } | FsOp::Unlink { .. })
    }
    pub fn data_file(&self) -> Option<usize> {
        match self {
            FsOp::Trunc { file, .. } | FsOp::Write { file, .. } => Some(*file),
            _ => None,
        }
    }
    pub fn short(&self) -> String {
        match self {
            FsOp::Create { path, file } => format!("create({}, f{file})", path.display()),
            FsOp::Mkdir { path } => format!("mkdir({})", path.display()),
            FsOp::Rmdir { path } => format!("rmdir({})", path.display()),
            FsOp::Rename { from, to } => format!("rename({} -> {})", from.display(), to.display()),
            FsOp::Unlink { path } => format!("unlink({})", path.display()),
            FsOp::Trunc { file, len } => format!("truncate(f{file}, {len})"),
            FsOp::Write { file, off, data } => format!("write(f{file}, off={off}, {} bytes)", data.len()),
            FsOp::Fsync { file } => format!("fsync(f{file})"),
        }
    }
}

/// A directory image: relative path → content; plus the set of directories.
#[derive(Clone, Debug, Default, PartialEq, Eq, Hash)]
pub struct DirImage {
    pub files: BTreeMap<PathBuf, Vec<u8>>,
    pub dirs: BTreeSet<PathBuf>,
}

impl DirImage {
    pub fn read(root: &Path) -> DirImage {
        let mut img = DirImage::default();
        fn walk(root: &Path, dir: &Path, img: &mut DirImage) {
            let Ok(rd) = std::fs::read_dir(dir) else { return };
            for e in rd.flatten() {
                let p = e.path();
                let rel = p.strip_prefix(root).unwrap().to_path_buf();
                if p.is_dir() {
                    img.dirs.insert(rel);
                    walk(root, &p, img);
                } else if let Ok(d) = std::fs::read(&p) {
                    img.files.insert(rel, d);
                }
            }
        }
        walk(root, root, &mut img);
        img
    }
    pub fn write(&self, root: &Path) {
        std::fs::create_dir_all(root).expect("mkdir crash image root");
        for d in &self.dirs {
            let _ = std::fs::create_dir_all(root.join(d));
        }
        for (p, data) in &self.files {
            if let Some(parent) = root.join(p).parent() {
                let _ = std::fs::create_dir_all(parent);
            }
            std::fs::write(root.join(p), data).expect("write crash image file");
        }
    }
    pub fn hash(&self) -> u64 {
        let mut h: u64 = 0xcbf2_9ce4_8422_2325;
        let mut feed = |b: &[u8]| {
            for x in b {
                h ^= u64::from(*x);
                h = h.wrapping_mul(0x0000_0100_0000_01b3);
            }
            h ^= 0xff;
            h = h.wrapping_mul(0x0000_0100_0000_01b3);
        };
        for d in &self.dirs {
            feed(d.to_string_lossy().as_bytes());
        }
        for (p, data) in &self.files {
            feed(p.to_string_lossy().as_bytes());
            feed(data);
        }
        h
    }
}

pub struct Capture {
    /// operations of the save under test (between the markers), paths relative to the root
    pub ops: Vec<FsOp>,
    /// file table: id → initial content (files that existed before the save) or None (created by it)
    pub initial_files: Vec<Option<Vec<u8>>>,
    /// name → file id before the save
    pub initial_names: BTreeMap<PathBuf, usize>,
    pub initial_dirs: BTreeSet<PathBuf>,
    /// directory image after the complete save
    pub final_image: DirImage,
    pub old_image: DirImage,
    pub unsupported: Vec<String>,
    pub raw_lines: usize,
}

fn unhex(s: &str) -> Vec<u8> {
    // s is the inside of a strace -xx string: \xNN sequences only
    let b = s.as_bytes();
    let mut out = Vec::with_capacity(b.len() / 4);
    let mut i = 0;
    while i + 3 < b.len() {
        if b[i] == b'\\' && b[i + 1] == b'x' {
            let h = |c: u8| -> u8 {
                match c {
                    b'0'..=b'9' => c - b'0',
                    b'a'..=b'f' => c - b'a' + 10,
                    b'A'..=b'F' => c - b'A' + 10,
                    _ => 0,
                }
            };
            out.push(h(b[i + 2]) * 16 + h(b[i + 3]));
            i += 4;
        } else {
            i += 1;
        }
    }
    out
}

/// Split `name(arg, arg, ...) = ret` into (name, args, ret-string). Strings contain no commas
/// or parentheses because of -xx.
fn split_call(line: &str) -> Option<(String, Vec<String>, String)> {
    let open = line.find('(')?;
    let name = line[..open].trim().to_string();
    // strace pads short calls: `fsync(3)                          = 0`
    let eqpos = line.rfind(" = ")?;
    let close = line[..eqpos].rfind(')')?;
    if close < open {
        return None;
    }
    let args_s = &line[open + 1..close];
    let ret = line[eqpos + 3..].trim().to_string();
    let mut args = Vec::new();
    let mut cur = String::new();
    let mut in_str = false;
    let mut depth = 0;
    for ch in args_s.chars() {
        match ch {
            '"' => {
                in_str = !in_str;
                cur.push(ch);
            }
            '[' | '{' if !in_str => {
                depth += 1;
                cur.push(ch);
            }
            ']' | '}' if !in_str => {
                depth -= 1;
                cur.push(ch);
            }
            ',' if !in_str && depth == 0 => {
                args.push(cur.trim().to_string());
                cur.clear();
            }
            _ => cur.push(ch),
        }
    }
    if !cur.trim().is_empty() {
        args.push(cur.trim().to_string());
    }
    Some((name, args, ret))
}

fn str_arg(a: &str) -> Option<Vec<u8>> {
    let a = a.trim();
    let start = a.find('"')?;
    let end = a.rfind('"')?;
    if end <= start {
        return Some(Vec::new());
    }
    if a[end..].starts_with("\"...") {
        return None; // truncated by -s
    }
    Some(unhex(&a[start + 1..end]))
}

fn ret_int(ret: &str) -> Option<i64> {
    let t = ret.split_whitespace().next()?;
    if let Some(h) = t.strip_prefix("0x") {
        return i64::from_str_radix(h, 16).ok();
    }
    t.parse().ok()
}

struct OpenFile {
    file: usize,
    pos: u64,
    append: bool,
}

/// Run `cmd` (the driver in `run` mode) under strace and parse the part between the markers.
/// `root` is the scenario directory; the driver must snapshot it to `old_snapshot` right
/// before MARK_BEGIN.
pub fn capture(cmd: &mut Command, root: &Path, old_snapshot: &Path, log_path: &Path) -> Result<Capture, String> {
    let mut st = Command::new("strace");
    st.arg("-f")
        .arg("-xx")
        .arg("-s")
        .arg("20000000")
        .arg("-e")
        .arg("trace=openat,open,creat,write,pwrite64,writev,pwritev,pwritev2,ftruncate,truncate,fsync,fdatasync,sync_file_range,sync,syncfs,rename,renameat,renameat2,unlink,unlinkat,mkdir,mkdirat,rmdir,link,linkat,symlink,symlinkat,close,dup,dup2,dup3,lseek,fallocate,mmap,sendfile,copy_file_range,fcntl")
        .arg("-o")
        .arg(log_path)
        .arg(cmd.get_program());
    for a in cmd.get_args() {
        st.arg(a);
    }
    for (k, v) in cmd.get_envs() {
        if let Some(v) = v {
            st.env(k, v);
        }
    }
    let out = st.output().map_err(|e| format!("cannot run strace: {e}"))?;
    if !out.status.success() {
        return Err(format!(
            "driver under strace failed: status {:?}\nstdout: {}\nstderr: {}",
            out.status,
            String::from_utf8_lossy(&out.stdout),
            String::from_utf8_lossy(&out.stderr)
        ));
    }
    let log = std::fs::read_to_string(log_path).map_err(|e| format!("cannot read strace log: {e}"))?;
    let old_image = DirImage::read(old_snapshot);
    let final_image = DirImage::read(root);
    parse_log(&log, root, old_image, final_image)
}

pub fn parse_log(log: &str, root: &Path, old_image: DirImage, final_image: DirImage) -> Result<Capture, String> {
    // merge unfinished/resumed
    let mut pending: HashMap<String, String> = HashMap::new();
    let mut calls: Vec<(String, String)> = Vec::new(); // (pid, full call text)
    for line in log.lines() {
        let Some((pid, rest)) = line.split_once(' ') else { continue };
        let rest = rest.trim_start();
        if rest.starts_with("+++") || rest.starts_with("---") {
            continue;
        }
        if let Some(idx) = rest.find(" <unfinished ...>") {
            pending.insert(pid.to_string(), rest[..idx].to_string());
            continue;
        }
        if rest.starts_with("<... ") {
            if let Some(end) = rest.find(" resumed>") {
                let tail = &rest[end + 9..];
                if let Some(head) = pending.remove(pid) {
                    calls.push((pid.to_string(), format!("{head}{tail}")));
                }
            }
            continue;
        }
        calls.push((pid.to_string(), rest.to_string()));
    }

    // file table
    let mut files: Vec<Option<Vec<u8>>> = Vec::new();
    let mut names: BTreeMap<PathBuf, usize> = BTreeMap::new();
    for (p, d) in &old_image.files {
        names.insert(p.clone(), files.len());
        files.push(Some(d.clone()));
    }
    let initial_names = names.clone();
    let initial_dirs = old_image.dirs.clone();
    let mut dirs = old_image.dirs.clone();
    // current sizes for append/offset tracking
    let mut sizes: Vec<u64> = files.iter().map(|f| f.as_ref().map_or(0, |d| d.len() as u64)).collect();

    let mut fds: HashMap<i64, OpenFile> = HashMap::new();
    let mut ops: Vec<FsOp> = Vec::new();
    let mut unsupported: Vec<String> = Vec::new();
    let mut active = false;
    let mut seen_begin = false;
    let mut seen_end = false;
    let rel = |p: &[u8]| -> Option<PathBuf> {
        let s = PathBuf::from(String::from_utf8_lossy(p).to_string());
        s.strip_prefix(root).ok().map(Path::to_path_buf)
    };

    for (_pid, text) in &calls {
        let Some((name, args, ret)) = split_call(text) else { continue };
        let r = ret_int(&ret);
        let ok = r.is_some_and(|v| v >= 0);
        // markers
        if name == "openat" || name == "open" {
            let pa = if name == "openat" { args.get(1) } else { args.first() };
            if let Some(p) = pa.and_then(|a| str_arg(a)) {
                if p == MARK_BEGIN.as_bytes() {
                    active = true;
                    seen_begin = true;
                    // fds opened before the marker on tracked files keep working: keep table
                    continue;
                }
                if p == MARK_END.as_bytes() {
                    active = false;
                    seen_end = true;
                    continue;
                }
            }
        }
        if !ok {
            continue;
        }
        // Before the marker we only maintain the fd table (files opened earlier and still in use)
        // and the names (pre-history effects are already in old_image, so only fds matter).
        match name.as_str() {
            "openat" | "open" | "creat" => {
                let (pa, fa) = match name.as_str() {
                    "openat" => (args.get(1), args.get(2)),
                    "open" => (args.first(), args.get(1)),
                    _ => (args.first(), None),
                };
                let Some(pbytes) = pa.and_then(|a| str_arg(a)) else { continue };
                let Some(p) = rel(&pbytes) else { continue };
                let flags = fa.cloned().unwrap_or_else(|| "O_WRONLY|O_CREAT|O_TRUNC".to_string());
                let fd = r.unwrap();
                if flags.contains("O_DIRECTORY") || dirs.contains(&p) {
                    continue;
                }
                if !active {
                    // resolve against the *old image* only if the file survives to it
                    if let Some(&id) = initial_names.get(&p) {
                        fds.insert(fd, OpenFile { file: id, pos: 0, append: flags.contains("O_APPEND") });
                    }
                    continue;
                }
                let id = match names.get(&p) {
                    Some(&id) => {
                        if flags.contains("O_TRUNC") && (flags.contains("O_WRONLY") || flags.contains("O_RDWR")) {
                            ops.push(FsOp::Trunc { file: id, len: 0 });
                            sizes[id] = 0;
                        }
                        id
                    }
                    None => {
                        if !flags.contains("O_CREAT") {
                            continue;
                        }
                        let id = files.len();
                        files.push(None);
                        sizes.push(0);
                        names.insert(p.clone(), id);
                        ops.push(FsOp::Create { path: p.clone(), file: id });
                        id
                    }
                };
                fds.insert(fd, OpenFile { file: id, pos: 0, append: flags.contains("O_APPEND") });
            }
            "close" => {
                if let Some(fd) = args.first().and_then(|a| a.parse::<i64>().ok()) {
                    fds.remove(&fd);
                }
            }
            "dup" | "dup2" | "dup3" | "fcntl" => {
                let is_dup = name != "fcntl" || args.get(1).is_some_and(|a| a.contains("F_DUPFD"));
                if is_dup {
                    if let Some(fd) = args.first().and_then(|a| a.parse::<i64>().ok()) {
                        if let Some(of) = fds.get(&fd) {
                            let nf = OpenFile { file: of.file, pos: of.pos, append: of.append };
                            fds.insert(r.unwrap(), nf);
                        }
                    }
                }
            }
            "lseek" => {
                if let Some(fd) = args.first().and_then(|a| a.parse::<i64>().ok()) {
                    if let Some(of) = fds.get_mut(&fd) {
                        of.pos = r.unwrap() as u64;
                    }
                }
            }
            "write" | "pwrite64" => {
                let Some(fd) = args.first().and_then(|a| a.parse::<i64>().ok()) else { continue };
                let Some(of) = fds.get_mut(&fd) else { continue };
                if !active {
                    continue;
                }
                let Some(mut data) = args.get(1).and_then(|a| str_arg(a)) else {
                    unsupported.push(format!("truncated write buffer in log: {}", &text[..text.len().min(80)]));
                    continue;
                };
                let n = r.unwrap() as usize;
                data.truncate(n);
                let off = if name == "pwrite64" {
                    args.get(3).and_then(|a| a.parse::<u64>().ok()).unwrap_or(0)
                } else if of.append {
                    sizes[of.file]
                } else {
                    of.pos
                };
                if name == "write" {
                    of.pos = off + n as u64;
                }
                sizes[of.file] = sizes[of.file].max(off + n as u64);
                ops.push(FsOp::Write { file: of.file, off, data });
            }
            "writev" | "pwritev" | "pwritev2" | "sendfile" | "copy_file_range" | "fallocate" | "sync_file_range" => {
                let fd = args.first().and_then(|a| a.parse::<i64>().ok());
                if active && fd.is_some_and(|fd| fds.contains_key(&fd)) {
                    unsupported.push(format!("{name} on a tracked file is not modelled"));
                }
            }
            "mmap" => {
                if active {
                    let fd = args.get(4).and_then(|a| a.parse::<i64>().ok());
                    let shared_write = args.get(2).is_some_and(|a| a.contains("PROT_WRITE")) && args.get(3).is_some_and(|a| a.contains("MAP_SHARED"));
                    if shared_write && fd.is_some_and(|fd| fds.contains_key(&fd)) {
                        unsupported.push("writable shared mmap of a tracked file is not modelled".to_string());
                    }
                }
            }
            "ftruncate" => {
                let Some(fd) = args.first().and_then(|a| a.parse::<i64>().ok()) else { continue };
                let Some(of) = fds.get(&fd) else { continue };
                if !active {
                    continue;
                }
                let len = args.get(1).and_then(|a| a.parse::<u64>().ok()).unwrap_or(0);
                sizes[of.file] = len;
                ops.push(FsOp::Trunc { file: of.file, len });
            }
            "truncate" => {
                if !active {
                    continue;
                }
                if let Some(p) = args.first().and_then(|a| str_arg(a)).and_then(|p| rel(&p)) {
                    if let Some(&id) = names.get(&p) {
                        let len = args.get(1).and_then(|a| a.parse::<u64>().ok()).unwrap_or(0);
                        sizes[id] = len;
                        ops.push(FsOp::Trunc { file: id, len });
                    }
                }
            }
            "fsync" | "fdatasync" => {
                let Some(fd) = args.first().and_then(|a| a.parse::<i64>().ok()) else { continue };
                let Some(of) = fds.get(&fd) else { continue };
                if active {
                    ops.push(FsOp::Fsync { file: of.file });
                }
            }
            "sync" | "syncfs" => {
                if active {
                    for id in 0..files.len() {
                        ops.push(FsOp::Fsync { file: id });
                    }
                }
            }
            "rename" | "renameat" | "renameat2" => {
                if !active {
                    continue;
                }
                let (a, b) = if name == "rename" { (args.first(), args.get(1)) } else { (args.get(1), args.get(3)) };
                let (Some(fa), Some(fb)) = (a.and_then(|a| str_arg(a)), b.and_then(|a| str_arg(a))) else { continue };
                let (Some(from), Some(to)) = (rel(&fa), rel(&fb)) else {
                    unsupported.push("rename across the scenario root".to_string());
                    continue;
                };
                if let Some(id) = names.remove(&from) {
                    names.insert(to.clone(), id);
                }
                ops.push(FsOp::Rename { from, to });
            }
            "unlink" | "unlinkat" => {
                if !active {
                    continue;
                }
                let a = if name == "unlink" { args.first() } else { args.get(1) };
                let Some(p) = a.and_then(|a| str_arg(a)).and_then(|p| rel(&p)) else { continue };
                if name == "unlinkat" && args.get(2).is_some_and(|f| f.contains("AT_REMOVEDIR")) {
                    dirs.remove(&p);
                    ops.push(FsOp::Rmdir { path: p });
                } else {
                    names.remove(&p);
                    ops.push(FsOp::Unlink { path: p });
                }
            }
            "mkdir" | "mkdirat" => {
                if !active {
                    continue;
                }
                let a = if name == "mkdir" { args.first() } else { args.get(1) };
                let Some(p) = a.and_then(|a| str_arg(a)).and_then(|p| rel(&p)) else { continue };
                dirs.insert(p.clone());
                ops.push(FsOp::Mkdir { path: p });
            }
            "rmdir" => {
                if !active {
                    continue;
                }
                let Some(p) = args.first().and_then(|a| str_arg(a)).and_then(|p| rel(&p)) else { continue };
                dirs.remove(&p);
                ops.push(FsOp::Rmdir { path: p });
            }
            "link" | "linkat" | "symlink" | "symlinkat" => {
                if active {
                    unsupported.push(format!("{name} is not modelled"));
                }
            }
            _ => {}
        }
    }
    if !seen_begin || !seen_end {
        if let Ok(d) = std::env::var("VERIF_KEEP_STRACE") {
            let _ = std::fs::write(format!("{d}/strace-{}.log", std::process::id()), log);
        }
        return Err(format!("markers not found in strace log (begin={seen_begin}, end={seen_end})"));
    }
    let cap = Capture {
        ops,
        initial_files: files.iter().enumerate().map(|(i, f)| if i < initial_names.len() { f.clone() } else { None }).collect(),
        initial_names,
        initial_dirs,
        final_image,
        old_image,
        unsupported,
        raw_lines: calls.len(),
    };
    Ok(cap)
}

/// Self-check of the log interpretation: applying *all* operations with everything durable
/// to the old image must give exactly the final image observed on disk.
pub fn full_apply(cap: &Capture) -> DirImage {
    let n = cap.ops.len();
    let choice: Vec<(usize, DataVariant)> = Vec::new();
    materialise(cap, n, n, &choice, true)
}

#[derive(Clone, Debug, PartialEq)]
pub enum DataVariant {
    /// p pending ops applied fully, nothing of the next
    Prefix(usize),
    /// p applied fully, the next (a write) torn after t bytes; zero_tail: size extended with zeros
    Torn(usize, usize, bool),
}

/// Build the directory image of a crash after `k` ops with the first `j` name-space... (ops with
/// index < j) durable, and per-file data variants (`variants`: file id → variant over that
/// file's *pending* ops). `all_durable` ignores fsync and applies every data op < k.
pub fn materialise(cap: &Capture, k: usize, j: usize, variants: &[(usize, DataVariant)], all_durable: bool) -> DirImage {
    let nfiles = cap.initial_files.len().max(cap.ops.iter().filter_map(|o| match o {
        FsOp::Create { file, .. } => Some(*file + 1),
        _ => None,
    }).max().unwrap_or(0));
    let mut content: Vec<Vec<u8>> = (0..nfiles).map(|i| cap.initial_files.get(i).cloned().flatten().unwrap_or_default()).collect();
    // data
    for f in 0..nfiles {
        let last_sync = cap.ops[..k].iter().rposition(|o| matches!(o, FsOp::Fsync { file } if *file == f));
        let durable_end = if all_durable { k } else { last_sync.map_or(0, |s| s) };
        let apply = |c: &mut Vec<u8>, op: &FsOp, torn: Option<(usize, bool)>| match op {
            FsOp::Trunc { len, .. } => c.resize(*len as usize, 0),
            FsOp::Write { off, data, .. } => {
                let off = *off as usize;
                let (n, zero_tail) = torn.map_or((data.len(), false), |(t, z)| (t, z));
                let end_written = off + n;
                let end_full = off + data.len();
                if zero_tail {
                    if c.len() < end_full {
                        c.resize(end_full, 0);
                    }
                    // the unwritten tail reads as zeros
                    for b in &mut c[end_written..end_full] {
                        *b = 0;
                    }
                } else if c.len() < end_written {
                    c.resize(end_written, 0);
                }
                c[off..end_written].copy_from_slice(&data[..n]);
            }
            _ => {}
        };
        for op in cap.ops[..durable_end].iter().filter(|o| o.data_file() == Some(f)) {
            apply(&mut content[f], op, None);
        }
        if all_durable {
            continue;
        }
        let pending: Vec<&FsOp> = cap.ops[durable_end..k].iter().filter(|o| o.data_file() == Some(f)).collect();
        let var = variants.iter().find(|(id, _)| *id == f).map(|(_, v)| v.clone()).unwrap_or(DataVariant::Prefix(pending.len()));
        match var {
            DataVariant::Prefix(p) => {
                for op in pending.iter().take(p) {
                    apply(&mut content[f], op, None);
                }
            }
            DataVariant::Torn(p, t, z) => {
                for op in pending.iter().take(p) {
                    apply(&mut content[f], op, None);
                }
                if let Some(op) = pending.get(p) {
                    apply(&mut content[f], op, Some((t, z)));
                }
            }
        }
    }
    // names
    let mut names: BTreeMap<PathBuf, usize> = cap.initial_names.clone();
    let mut dirs = cap.initial_dirs.clone();
    for op in cap.ops[..j.min(k)].iter() {
        match op {
            FsOp::Create { path, file } => {
                names.insert(path.clone(), *file);
            }
            FsOp::Mkdir { path } => {
                dirs.insert(path.clone());
            }
            FsOp::Rmdir { path } => {
                dirs.remove(path);
            }
            FsOp::Rename { from, to } => {
                if let Some(id) = names.remove(from) {
                    names.insert(to.clone(), id);
                }
            }
            FsOp::Unlink { path } => {
                names.remove(path);
            }
            _ => {}
        }
    }
    let mut img = DirImage::default();
    img.dirs = dirs;
    for (p, id) in names {
        img.files.insert(p, content[id].clone());
    }
    img
}

/// Cut points for a torn write of `n` bytes.
pub fn cut_points(n: usize, extra: &[usize]) -> Vec<usize> {
    let mut v: BTreeSet<usize> = BTreeSet::new();
    if n <= 4096 {
        v.extend(1..n);
    } else if n > 256 * 1024 {
        // very large writes (an image of the whole file is materialised and hashed per cut): eight
        // interior cuts on page boundaries, the first sectors, and a few byte positions at both ends
        let step = (n / 8).next_multiple_of(4096);
        v.extend((step..n).step_by(step));
        v.extend([1, 2, 7, 8, 15, 16, 17, 63, 512, 4096, 8192]);
        v.extend([1, 2, 8, 16, 64, 512].iter().map(|d| n - d));
        for e in extra {
            v.extend([e.saturating_sub(1), *e, *e + 1]);
        }
    } else {
        v.extend((512..n).step_by(512));
        v.extend(1..64.min(n));
        v.extend(n.saturating_sub(64)..n);
        for e in extra {
            for d in 0..8 {
                if *e + d < n && *e + d > 0 {
                    v.insert(*e + d);
                }
                if *e >= d && *e - d > 0 && *e - d < n {
                    v.insert(*e - d);
                }
            }
        }
    }
    v.into_iter().filter(|t| *t > 0 && *t < n).collect()
}

pub struct CrashState {
    pub k: usize,
    pub j: usize,
    pub variants: Vec<(usize, DataVariant)>,
    pub image: DirImage,
}

impl CrashState {
    pub fn describe(&self, cap: &Capture) -> String {
        let at = if self.k == 0 { "before the first operation".to_string() } else { format!("after op {} {}", self.k - 1, cap.ops[self.k - 1].short()) };
        format!("crash {at}; name-space operations durable: first {} of {}; data variants {:?}", self.j, self.k, self.variants)
    }
}

/// Enumerate every crash state admitted by the persistence model, deduplicated by image.
/// Calls `f` for each distinct image. Returns (states generated, distinct images).
pub fn enumerate(cap: &Capture, max_states: usize, mut f: impl FnMut(CrashState)) -> (u64, u64, bool) {
    let mut seen: std::collections::HashSet<u64> = Default::default();
    let mut generated = 0u64;
    let mut capped = false;
    let n = cap.ops.len();
    let nfiles = cap.initial_files.len().max(cap.ops.iter().filter_map(|o| match o {
        FsOp::Create { file, .. } => Some(*file + 1),
        _ => None,
    }).max().unwrap_or(0));
    'outer: for k in 0..=n {
        // name-space prefix choices: only positions that are name-space ops matter
        let mut js: Vec<usize> = vec![0];
        for (i, op) in cap.ops[..k].iter().enumerate() {
            if op.is_namespace() {
                js.push(i + 1);
            }
        }
        // per-file variant lists
        let mut per_file: Vec<(usize, Vec<DataVariant>)> = Vec::new();
        for fid in 0..nfiles {
            let last_sync = cap.ops[..k].iter().rposition(|o| matches!(o, FsOp::Fsync { file } if *file == fid));
            let durable_end = last_sync.map_or(0, |s| s);
            let pending: Vec<&FsOp> = cap.ops[durable_end..k].iter().filter(|o| o.data_file() == Some(fid)).collect();
            if pending.is_empty() {
                continue;
            }
            let mut vs = Vec::new();
            for p in 0..=pending.len() {
                vs.push(DataVariant::Prefix(p));
                if let Some(FsOp::Write { data, .. }) = pending.get(p) {
                    for t in cut_points(data.len(), &[]) {
                        vs.push(DataVariant::Torn(p, t, false));
                        vs.push(DataVariant::Torn(p, t, true));
                    }
                }
            }
            per_file.push((fid, vs));
        }
        // product over files (one file at a time fully varied, the others at their extremes, when >1)
        let combos: Vec<Vec<(usize, DataVariant)>> = if per_file.is_empty() {
            vec![vec![]]
        } else if per_file.len() == 1 {
            per_file[0].1.iter().map(|v| vec![(per_file[0].0, v.clone())]).collect()
        } else {
            let mut out = Vec::new();
            for (i, (fid, vs)) in per_file.iter().enumerate() {
                for v in vs {
                    // others: both extremes
                    let others: Vec<&(usize, Vec<DataVariant>)> = per_file.iter().enumerate().filter(|(x, _)| *x != i).map(|(_, p)| p).collect();
                    for mask in 0..(1usize << others.len().min(4)) {
                        let mut c = vec![(*fid, v.clone())];
                        for (oi, (ofid, ovs)) in others.iter().enumerate() {
                            let full = ovs.iter().filter_map(|x| if let DataVariant::Prefix(p) = x { Some(*p) } else { None }).max().unwrap_or(0);
                            let pick = if mask >> oi.min(3) & 1 == 1 { DataVariant::Prefix(full) } else { DataVariant::Prefix(0) };
                            c.push((*ofid, pick));
                        }
                        out.push(c);
                    }
                }
            }
            out
        };
        for j in &js {
            for c in &combos {
                generated += 1;
                let image = materialise(cap, k, *j, c, false);
                if seen.insert(image.hash()) {
                    if seen.len() > max_states {
                        capped = true;
                        break 'outer;
                    }
                    f(CrashState { k, j: *j, variants: c.clone(), image });
                }
            }
        }
    }
    (generated, seen.len() as u64, capped)
}
