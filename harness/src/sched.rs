//! SCHED — stateless exploration of thread interleavings of the real code under a
//! controlled scheduler, with preemption bounding (DESIGN §2.2).
//!
//! Each task of a harness body runs on its own OS thread. The repository's `vp_sched!`
//! hook (feature `verif-hooks`) blocks the thread until the controller grants it; exactly
//! one task runs between two scheduling points, so an execution is a sequence of segments
//! and a schedule is the list of choices made at each point.
//!
//! Locks: the `std::sync::RwLock`s of cascette-cache are replaced (same feature) by a wrapper
//! whose acquire is a scheduling point followed by a try-lock loop and whose guard drop is a
//! scheduling point. A failed try-lock reports `rwlock.blocked`: the task is then not enabled
//! until some task releases a lock (or finishes), so hooks may sit inside guard scopes, a
//! narrowed lock scope automatically exposes its new window, and a state in which every
//! unfinished task is blocked is reported as a deadlock. Locks that are not wrapped (DashMap
//! shards, parking_lot in cascette-client-storage) are only safe because no hook sits inside
//! their guard scopes: the granted task always reaches its next point or finishes.

use crate::report::Report;
use serde_json::json;
use std::sync::atomic::{AtomicU64, AtomicUsize, Ordering};
use std::sync::{Arc, Condvar, Mutex, mpsc};
use std::time::{Duration, Instant};

#[derive(Clone, Copy, PartialEq, Eq, Debug)]
enum TStatus {
    Idle,
    Running,
    Parked(&'static str),
    /// failed to acquire a lock held by another task; not enabled until some lock is released
    Blocked,
    Done,
}

struct Ctl {
    status: Vec<TStatus>,
    granted: Option<usize>,
    /// when set, hooks stop blocking (used to drain a hung or diverged execution)
    free_run: bool,
    panicked: Vec<Option<String>>,
}

pub struct Controller {
    inner: Mutex<Ctl>,
    cv: Condvar,
    /// global step counter = number of scheduling decisions taken so far
    pub step: AtomicU64,
}

impl Controller {
    fn new(n: usize) -> Arc<Controller> {
        Arc::new(Controller {
            inner: Mutex::new(Ctl {
                status: vec![TStatus::Idle; n],
                granted: None,
                free_run: false,
                panicked: vec![None; n],
            }),
            cv: Condvar::new(),
            step: AtomicU64::new(0),
        })
    }

    /// Called from a task thread at a scheduling point.
    fn park(&self, id: usize, site: &'static str) {
        let mut g = self.inner.lock().unwrap();
        if g.free_run {
            if site == "rwlock.blocked" {
                // draining a hung or deadlocked execution: do not spin on the lock
                drop(g);
                std::thread::sleep(Duration::from_millis(1));
            }
            return;
        }
        if site == "rwlock.release" {
            // a lock became free: every task blocked on a lock may retry
            for s in g.status.iter_mut() {
                if *s == TStatus::Blocked {
                    *s = TStatus::Parked("rwlock.retry");
                }
            }
        }
        g.status[id] = if site == "rwlock.blocked" { TStatus::Blocked } else { TStatus::Parked(site) };
        if g.granted == Some(id) {
            g.granted = None;
        }
        self.cv.notify_all();
        while g.granted != Some(id) && !g.free_run {
            g = self.cv.wait(g).unwrap();
        }
        g.status[id] = TStatus::Running;
    }

    fn finish(&self, id: usize, panic: Option<String>) {
        let mut g = self.inner.lock().unwrap();
        g.status[id] = TStatus::Done;
        g.panicked[id] = panic;
        // guards dropped while unwinding do not announce themselves
        for s in g.status.iter_mut() {
            if *s == TStatus::Blocked {
                *s = TStatus::Parked("rwlock.retry");
            }
        }
        if g.granted == Some(id) {
            g.granted = None;
        }
        self.cv.notify_all();
    }
}

/// Handle given to a task closure: records operations with their call/return steps.
pub struct TaskCtx {
    pub id: usize,
    ctl: Arc<Controller>,
    log: Arc<Mutex<Vec<OpRecord>>>,
}

#[derive(Clone, Debug)]
pub struct OpRecord {
    pub task: usize,
    pub seq: usize,
    pub op: String,
    pub call: u64,
    pub ret: u64,
    pub result: String,
}

impl TaskCtx {
    /// Run one operation and record its call/return interval and result.
    pub fn op(&self, name: &str, f: impl FnOnce() -> String) {
        let call = self.ctl.step.load(Ordering::SeqCst);
        let result = f();
        let ret = self.ctl.step.load(Ordering::SeqCst);
        let mut l = self.log.lock().unwrap();
        let seq = l.iter().filter(|r| r.task == self.id).count();
        l.push(OpRecord { task: self.id, seq, op: name.to_string(), call, ret, result });
    }
}

pub type TaskFn = Box<dyn FnOnce(&TaskCtx) + Send>;
/// Runs after all tasks finished (no hooks active): judges the execution.
/// Ok(outcome summary) or Err((kind, detail)).
pub type FinishFn = Box<dyn FnOnce(&[OpRecord]) -> Result<String, (String, String)> + Send>;

pub struct Execution {
    pub tasks: Vec<TaskFn>,
    pub finish: FinishFn,
}

pub trait SchedBody: Sync {
    fn name(&self) -> String;
    /// Fresh shared state + task closures for one execution.
    fn setup(&self) -> Execution;
    fn n_tasks(&self) -> usize;
}

#[derive(Clone, Debug)]
pub struct Point {
    pub enabled: Vec<(usize, &'static str)>,
    pub chosen: usize,
    pub prev_enabled: bool,
}

pub struct Trace {
    pub points: Vec<Point>,
    pub verdict: Result<String, (String, String)>,
    pub ops: Vec<OpRecord>,
    pub hung: bool,
    pub diverged: Option<String>,
}

impl Trace {
    pub fn choices(&self) -> Vec<usize> {
        self.points.iter().map(|p| p.chosen).collect()
    }
    pub fn preemptions(&self) -> usize {
        self.points.iter().filter(|p| p.prev_enabled && p.chosen != 0).count()
    }
    pub fn site_trace(&self) -> String {
        self.points
            .iter()
            .map(|p| {
                let (id, site) = p.enabled[p.chosen];
                format!("{id}:{site}")
            })
            .collect::<Vec<_>>()
            .join(" ")
    }
}

type Job = Box<dyn FnOnce() + Send>;

/// Persistent task threads (one per task slot), each with the thread-local hooks of both
/// repository crates pointing at the controller of the current execution.
struct TaskPool {
    txs: Vec<mpsc::Sender<Job>>,
}

impl TaskPool {
    fn new(n: usize) -> TaskPool {
        let mut txs = Vec::new();
        for i in 0..n {
            let (tx, rx) = mpsc::channel::<Job>();
            std::thread::Builder::new()
                .name(format!("sched-task-{i}"))
                .stack_size(4 << 20)
                .spawn(move || {
                    for job in rx {
                        job();
                    }
                })
                .expect("spawn task thread");
            txs.push(tx);
        }
        TaskPool { txs }
    }
}

fn install_hooks(ctl: Option<(Arc<Controller>, usize)>) {
    match ctl {
        Some((c, id)) => {
            let c1 = c.clone();
            cascette_cache::verif_hooks::install(Some(Arc::new(move |site| c1.park(id, site))));
            let c2 = c;
            cascette_client_storage::verif_hooks::install(Some(Arc::new(move |site| c2.park(id, site))));
        }
        None => {
            cascette_cache::verif_hooks::install(None);
            cascette_client_storage::verif_hooks::install(None);
        }
    }
}

pub const WATCHDOG: Duration = Duration::from_secs(20);

/// One worker's machinery for running executions of a body.
pub struct Runner {
    pool: TaskPool,
    n: usize,
}

impl Runner {
    pub fn new(n: usize) -> Runner {
        Runner { pool: TaskPool::new(n), n }
    }

    /// Run one execution following `prefix` (choice indices), default choice 0 afterwards.
    /// `expect` optionally carries the enabled-set fingerprints of the prefix for divergence detection.
    pub fn run(&mut self, body: &dyn SchedBody, prefix: &[usize], expect: &[u64]) -> Trace {
        let exec = body.setup();
        let n = exec.tasks.len();
        assert!(n <= self.n);
        let ctl = Controller::new(n);
        let log: Arc<Mutex<Vec<OpRecord>>> = Arc::new(Mutex::new(Vec::new()));
        for (id, task) in exec.tasks.into_iter().enumerate() {
            let ctl2 = ctl.clone();
            let log2 = log.clone();
            let job: Job = Box::new(move || {
                install_hooks(Some((ctl2.clone(), id)));
                ctl2.park(id, "start");
                let tc = TaskCtx { id, ctl: ctl2.clone(), log: log2 };
                let r = std::panic::catch_unwind(std::panic::AssertUnwindSafe(|| task(&tc)));
                install_hooks(None);
                let p = r.err().map(|e| {
                    format!(
                        "{} at {}",
                        crate::util::panic_message(&e),
                        crate::util::take_last_panic_loc().unwrap_or_default()
                    )
                });
                ctl2.finish(id, p);
            });
            self.pool.txs[id].send(job).expect("task thread alive");
        }

        let mut points: Vec<Point> = Vec::new();
        let mut prev: Option<usize> = None;
        let mut hung = false;
        let mut diverged: Option<String> = None;
        let mut deadlock: Option<String> = None;
        loop {
            // wait until nobody is running (all parked or done)
            let deadline = Instant::now() + WATCHDOG;
            let mut g = ctl.inner.lock().unwrap();
            loop {
                let busy = g.granted.is_some()
                    || g.status.iter().any(|s| matches!(s, TStatus::Idle | TStatus::Running));
                if !busy {
                    break;
                }
                let now = Instant::now();
                if now >= deadline {
                    hung = true;
                    break;
                }
                let (g2, _) = ctl.cv.wait_timeout(g, deadline - now).unwrap();
                g = g2;
            }
            if hung {
                g.free_run = true;
                ctl.cv.notify_all();
                break;
            }
            let mut enabled: Vec<(usize, &'static str)> = Vec::new();
            if let Some(p) = prev {
                if let TStatus::Parked(site) = g.status[p] {
                    enabled.push((p, site));
                }
            }
            for (id, s) in g.status.iter().enumerate() {
                if Some(id) == prev {
                    continue;
                }
                if let TStatus::Parked(site) = s {
                    enabled.push((id, site));
                }
            }
            if enabled.is_empty() {
                if g.status.iter().any(|s| *s == TStatus::Blocked) {
                    deadlock = Some(format!("every unfinished task is blocked on a lock: {:?}", g.status));
                    g.free_run = true;
                    ctl.cv.notify_all();
                }
                break; // all done
            }
            let i = points.len();
            let prev_enabled = prev.is_some_and(|p| matches!(g.status[p], TStatus::Parked(_)));
            let choice = if i < prefix.len() { prefix[i] } else { 0 };
            if i < prefix.len() {
                let fp = fingerprint(&enabled);
                if choice >= enabled.len() || (i < expect.len() && expect[i] != fp) {
                    diverged = Some(format!(
                        "replay diverged at point {i}: enabled={enabled:?} choice={choice}"
                    ));
                    g.free_run = true;
                    ctl.cv.notify_all();
                    break;
                }
            }
            let (id, _) = enabled[choice];
            points.push(Point { enabled, chosen: choice, prev_enabled });
            ctl.step.fetch_add(1, Ordering::SeqCst);
            g.granted = Some(id);
            prev = Some(id);
            ctl.cv.notify_all();
        }
        // if we let tasks run free (hang/divergence) give them a moment; a truly stuck pool is replaced
        if hung || diverged.is_some() || deadlock.is_some() {
            let deadline = Instant::now() + Duration::from_secs(2);
            let mut g = ctl.inner.lock().unwrap();
            while g.status.iter().any(|s| !matches!(s, TStatus::Done)) && Instant::now() < deadline {
                let (g2, _) = ctl.cv.wait_timeout(g, Duration::from_millis(100)).unwrap();
                g = g2;
            }
            let stuck = g.status.iter().any(|s| !matches!(s, TStatus::Done));
            drop(g);
            if stuck {
                self.pool = TaskPool::new(self.n);
            }
        }
        let ops = log.lock().unwrap().clone();
        let panics: Vec<String> = {
            let g = ctl.inner.lock().unwrap();
            g.panicked.iter().flatten().cloned().collect()
        };
        let verdict = if hung {
            Err(("hang".to_string(), format!("no task arrived at a scheduling point within {WATCHDOG:?}; ops so far: {ops:?}")))
        } else if let Some(d) = &diverged {
            Err(("diverged".to_string(), d.clone()))
        } else if let Some(d) = &deadlock {
            Err(("deadlock".to_string(), format!("{d}; ops so far: {ops:?}")))
        } else if let Some(p) = panics.first() {
            Err(("panic".to_string(), format!("task panicked: {p}")))
        } else {
            (exec.finish)(&ops)
        };
        Trace { points, verdict, ops, hung, diverged }
    }
}

fn fingerprint(enabled: &[(usize, &'static str)]) -> u64 {
    let s: String = enabled.iter().map(|(i, s)| format!("{i}:{s};")).collect();
    crate::util::fnv64_str(&s)
}

pub struct SchedStats {
    pub executions: u64,
    pub by_preemptions: Vec<u64>,
    pub max_points: usize,
    pub violations: u64,
}

/// Explore every schedule of `body` with at most `bound` preemptions.
/// Violations are reported through `on_violation(trace) -> sig` (the property module decides
/// kind/sig); the engine replays a violating schedule once more before reporting it.
pub fn explore(
    body: &dyn SchedBody,
    bound: usize,
    budget: Option<Duration>,
    rep: &Report,
    prop_sig: &(dyn Fn(&str, &Trace) -> String + Sync),
) -> SchedStats {
    let n_tasks = body.n_tasks();
    let work: Mutex<Vec<(Vec<usize>, Vec<u64>)>> = Mutex::new(vec![(vec![], vec![])]);
    let in_flight = AtomicUsize::new(0);
    let executions = AtomicU64::new(0);
    let violations = AtomicU64::new(0);
    let by_pre: Vec<AtomicU64> = (0..=bound).map(|_| AtomicU64::new(0)).collect();
    let max_points = AtomicUsize::new(0);
    let site_traces: Mutex<std::collections::HashSet<u64>> = Mutex::new(Default::default());
    let start = Instant::now();
    let timed_out = std::sync::atomic::AtomicBool::new(false);
    let determinism_checked = std::sync::atomic::AtomicBool::new(false);
    let workers = crate::util::workers().min(16);

    std::thread::scope(|s| {
        for _ in 0..workers {
            s.spawn(|| {
                let mut runner = Runner::new(n_tasks);
                loop {
                    let item = {
                        let mut w = work.lock().unwrap();
                        match w.pop() {
                            Some(x) => {
                                in_flight.fetch_add(1, Ordering::SeqCst);
                                Some(x)
                            }
                            None => None,
                        }
                    };
                    let Some((prefix, expect)) = item else {
                        if in_flight.load(Ordering::SeqCst) == 0 {
                            break;
                        }
                        std::thread::sleep(Duration::from_micros(200));
                        continue;
                    };
                    if budget.is_some_and(|b| start.elapsed() > b) {
                        timed_out.store(true, Ordering::Relaxed);
                        in_flight.fetch_sub(1, Ordering::SeqCst);
                        continue;
                    }
                    // a panic of the harness itself (body set-up, engine) must end the exploration
                    // as a machinery error, not leave the other workers waiting for this one
                    let x = match std::panic::catch_unwind(std::panic::AssertUnwindSafe(|| runner.run(body, &prefix, &expect))) {
                        Ok(x) => x,
                        Err(e) => {
                            let loc = crate::util::take_last_panic_loc().unwrap_or_default();
                            rep.machinery_error(&format!("{}: the harness panicked while running schedule {:?} at {loc}: {}", body.name(), prefix, crate::util::panic_message(&e)));
                            work.lock().unwrap().clear();
                            in_flight.fetch_sub(1, Ordering::SeqCst);
                            runner = Runner::new(n_tasks);
                            continue;
                        }
                    };
                    executions.fetch_add(1, Ordering::Relaxed);
                    let pre = x.preemptions();
                    if pre <= bound {
                        by_pre[pre].fetch_add(1, Ordering::Relaxed);
                    }
                    max_points.fetch_max(x.points.len(), Ordering::Relaxed);
                    site_traces.lock().unwrap().insert(crate::util::fnv64_str(&x.site_trace()));

                    // determinism obligation: replay the first complete schedule twice
                    if !determinism_checked.swap(true, Ordering::SeqCst) {
                        let fps: Vec<u64> = x.points.iter().map(|p| fingerprint(&p.enabled)).collect();
                        let y = runner.run(body, &x.choices(), &fps);
                        if y.site_trace() != x.site_trace() || y.verdict != x.verdict {
                            rep.machinery_error(&format!(
                                "{}: replay of the same schedule produced a different trace/verdict ({:?} vs {:?})",
                                body.name(), x.verdict, y.verdict
                            ));
                        }
                    }

                    match &x.verdict {
                        Ok(outcome) => rep.add_outcome(crate::util::fnv64_str(&format!("{}|{outcome}", body.name()))),
                        Err((kind, detail)) => {
                            if kind == "diverged" {
                                rep.machinery_error(&format!("{}: {detail}", body.name()));
                            } else {
                                violations.fetch_add(1, Ordering::Relaxed);
                                rep.add_outcome(crate::util::fnv64_str(&format!("{}|VIOL|{kind}", body.name())));
                                // replay before report
                                let fps: Vec<u64> = x.points.iter().map(|p| fingerprint(&p.enabled)).collect();
                                let y = runner.run(body, &x.choices(), &fps);
                                let same = matches!(&y.verdict, Err((k, _)) if k == kind);
                                if !same {
                                    rep.machinery_error(&format!(
                                        "{}: violation {kind} did not reproduce on replay of schedule {:?} (got {:?})",
                                        body.name(), x.choices(), y.verdict
                                    ));
                                } else {
                                    let sig = prop_sig(kind, &x);
                                    rep.violation(
                                        kind,
                                        &sig,
                                        json!({
                                            "body": body.name(),
                                            "schedule": x.choices(),
                                            "preemptions": pre,
                                            "site_trace": x.site_trace(),
                                            "ops": x.ops.iter().map(|o| format!("t{}#{} {} [{}..{}] -> {}", o.task, o.seq, o.op, o.call, o.ret, o.result)).collect::<Vec<_>>(),
                                        }),
                                        detail,
                                    );
                                }
                            }
                        }
                    }

                    // children
                    if !x.hung && x.diverged.is_none() {
                        let choices = x.choices();
                        let fps: Vec<u64> = x.points.iter().map(|p| fingerprint(&p.enabled)).collect();
                        let mut pre_before = 0usize;
                        let mut children = Vec::new();
                        for i in 0..x.points.len() {
                            let p = &x.points[i];
                            if i >= prefix.len() {
                                let cost = pre_before + usize::from(p.prev_enabled);
                                if cost <= bound {
                                    for alt in 1..p.enabled.len() {
                                        let mut c = choices[..i].to_vec();
                                        c.push(alt);
                                        let mut e = fps[..i].to_vec();
                                        e.push(fps[i]);
                                        children.push((c, e));
                                    }
                                }
                            }
                            if p.prev_enabled && p.chosen != 0 {
                                pre_before += 1;
                            }
                        }
                        if !children.is_empty() {
                            work.lock().unwrap().extend(children);
                        }
                    }
                    in_flight.fetch_sub(1, Ordering::SeqCst);
                }
            });
        }
    });

    let execs = executions.load(Ordering::Relaxed);
    if timed_out.load(Ordering::Relaxed) {
        rep.cap_hit(&format!("{}: wall-clock budget hit; exploration with preemption bound {bound} incomplete", body.name()));
    }
    rep.add_evaluations(execs);
    rep.add_traces(execs);
    rep.add_states(site_traces.lock().unwrap().len() as u64);
    SchedStats {
        executions: execs,
        by_preemptions: by_pre.iter().map(|a| a.load(Ordering::Relaxed)).collect(),
        max_points: max_points.load(Ordering::Relaxed),
        violations: violations.load(Ordering::Relaxed),
    }
}

// ---------------------------------------------------------------------------------------
// Brute-force linearizability check against a (possibly nondeterministic) sequential spec.
// ---------------------------------------------------------------------------------------

pub trait SeqSpec {
    type State: Clone;
    fn init(&self) -> Self::State;
    /// All (next state) for which `op` may legally return `result`; empty = not allowed here.
    fn step(&self, st: &Self::State, op: &str, result: &str) -> Vec<Self::State>;
}

/// Is there a total order of `ops`, consistent with real-time order (a.ret < b.call ⇒ a before b),
/// that the sequential specification accepts?
pub fn linearizable<S: SeqSpec>(spec: &S, ops: &[OpRecord]) -> bool {
    fn rec<S: SeqSpec>(spec: &S, ops: &[OpRecord], done: &mut Vec<bool>, st: &S::State, left: usize) -> bool {
        if left == 0 {
            return true;
        }
        for i in 0..ops.len() {
            if done[i] {
                continue;
            }
            // every op that returned strictly before ops[i] was called must already be linearized
            let blocked = (0..ops.len()).any(|j| {
                !done[j]
                    && j != i
                    && (ops[j].ret < ops[i].call || (ops[j].task == ops[i].task && ops[j].seq < ops[i].seq))
            });
            if blocked {
                continue;
            }
            for nst in spec.step(st, &ops[i].op, &ops[i].result) {
                done[i] = true;
                if rec(spec, ops, done, &nst, left - 1) {
                    done[i] = false;
                    return true;
                }
                done[i] = false;
            }
        }
        false
    }
    let mut done = vec![false; ops.len()];
    rec(spec, ops, &mut done, &spec.init(), ops.len())
}
