//! SEQ — explicit-state exploration of operation histories on the real object, in
//! lock-step with a reference model (DESIGN §2.1).
//!
//! A state is the history that reaches it: the real object is rebuilt by replay for every
//! explored history. Exploration is breadth-first by depth, so the first counterexample is
//! the shortest. Violating histories are minimised (1-minimal under op removal) and the
//! minimal core forms the violation signature.

use crate::report::Report;
use crate::util::{fnv64_str, par_map};
use serde_json::json;
use std::collections::{HashMap, HashSet};
use std::sync::Mutex;
use std::time::{Duration, Instant};

pub struct SeqRun {
    /// (index of the op at which the oracle failed, kind, detail)
    pub violation: Option<(usize, String, String)>,
    /// `Some(k)`: states with equal `k` have the same futures and may be merged.
    /// `None`: no merging (hidden state) — the history itself is the state.
    pub state_key: Option<u64>,
    /// Hash of everything observed (return values, final observers).
    pub outcome: u64,
    /// Number of real calls executed as transitions (mutators + observers).
    pub calls: u64,
}

impl SeqRun {
    pub fn ok(outcome: u64, calls: u64) -> SeqRun {
        SeqRun { violation: None, state_key: None, outcome, calls }
    }
}

pub trait SeqSubject: Sync {
    type Op: Clone + std::fmt::Debug + Send + Sync;
    /// Name of the configuration (part of samples / replay files).
    fn config_name(&self) -> String;
    /// Coarse configuration label that becomes part of a violation signature.
    fn sig_config(&self) -> String {
        String::new()
    }
    fn alphabet(&self) -> Vec<Self::Op>;
    /// Bound constraints beyond depth (e.g. at most two disk operations per history).
    fn admissible(&self, _hist: &[Self::Op]) -> bool {
        true
    }
    /// Build a fresh real object and a fresh model, replay `hist` on both, compare.
    fn run(&self, hist: &[Self::Op]) -> SeqRun;
    /// Canonical rendering of a history for signatures (rename-invariant where the subject
    /// can afford it). Default: Debug.
    fn canon(&self, hist: &[Self::Op]) -> String {
        format!("{hist:?}")
    }
}

pub struct SeqBounds {
    pub depth: usize,
    pub deadline: Option<Instant>,
    /// Stop extending when more than this many violating histories were seen (pruned anyway).
    pub max_minimise: usize,
}

impl SeqBounds {
    pub fn depth(depth: usize) -> SeqBounds {
        SeqBounds { depth, deadline: None, max_minimise: 50_000 }
    }
    pub fn with_budget(mut self, secs: u64) -> SeqBounds {
        self.deadline = Some(Instant::now() + Duration::from_secs(secs));
        self
    }
}

pub struct SeqStats {
    pub histories: u64,
    pub states: u64,
    pub completed_depth: usize,
    pub violations: u64,
}

/// 1-minimal core of a violating history: greedily drop single ops while a violation of the
/// same kind remains.
pub fn minimise<S: SeqSubject>(subj: &S, hist: &[S::Op], kind: &str) -> Vec<S::Op> {
    let mut cur: Vec<S::Op> = hist.to_vec();
    // shortest violating suffix first (cheap, and floods of "any history ending in X" collapse)
    for start in (1..hist.len()).rev() {
        let cand = &hist[start..];
        if subj.admissible(cand) && matches!(crate::util::catch(|| subj.run(cand)).ok().and_then(|r| r.violation), Some((_, k, _)) if k == kind) {
            cur = cand.to_vec();
            break;
        }
    }
    loop {
        let mut changed = false;
        let mut i = 0;
        while i < cur.len() {
            let mut cand = cur.clone();
            cand.remove(i);
            let still = subj.admissible(&cand)
                && matches!(crate::util::catch(|| subj.run(&cand)).ok().and_then(|r| r.violation), Some((_, k, _)) if k == kind);
            if still {
                cur = cand;
                changed = true;
            } else {
                i += 1;
            }
        }
        if !changed {
            return cur;
        }
    }
}

/// Explore all admissible histories up to `bounds.depth` over the subject's alphabet.
pub fn explore<S: SeqSubject>(subj: &S, bounds: &SeqBounds, rep: &Report) -> SeqStats {
    let alpha = subj.alphabet();
    assert!(alpha.len() < 65_000, "alphabet too large");
    let cfg = subj.config_name();
    let seen: Mutex<HashSet<u64>> = Mutex::new(HashSet::new());
    let sig_cache: Mutex<HashMap<String, String>> = Mutex::new(HashMap::new());
    let minimised = std::sync::atomic::AtomicUsize::new(0);

    let mut stats = SeqStats { histories: 0, states: 0, completed_depth: 0, violations: 0 };

    // initial state
    let r0 = subj.run(&[]);
    rep.add_traces(1);
    rep.add_transitions(r0.calls);
    if let Some((_, kind, detail)) = &r0.violation {
        let sig = format!("{}|{}|[]", subj.sig_config(), kind);
        rep.violation(kind, &sig, json!({"config": cfg, "history": []}), detail);
        stats.violations += 1;
        return stats;
    }
    stats.states = 1;
    let mut frontier: Vec<Vec<u16>> = vec![vec![]];

    for level in 1..=bounds.depth {
        if frontier.is_empty() {
            stats.completed_depth = bounds.depth;
            break;
        }
        let last_level = level == bounds.depth;
        let timed_out = std::sync::atomic::AtomicBool::new(false);
        let results = par_map(frontier.len(), |fi| {
            let mut children: Vec<Vec<u16>> = Vec::new();
            let mut n_hist = 0u64;
            let mut n_calls = 0u64;
            let mut n_new = 0u64;
            let mut n_vio = 0u64;
            let mut outcomes: HashSet<u64> = HashSet::new();
            if let Some(d) = bounds.deadline {
                if Instant::now() > d {
                    timed_out.store(true, std::sync::atomic::Ordering::Relaxed);
                    return (children, n_hist, n_calls, n_new, n_vio);
                }
            }
            let base = &frontier[fi];
            let mut ops: Vec<S::Op> = base.iter().map(|i| alpha[*i as usize].clone()).collect();
            for (ai, op) in alpha.iter().enumerate() {
                ops.push(op.clone());
                if !subj.admissible(&ops) {
                    ops.pop();
                    continue;
                }
                let r = match crate::util::catch(|| subj.run(&ops)) {
                    Ok(r) => r,
                    Err(p) => SeqRun {
                        violation: Some((ops.len() - 1, "panic".to_string(), format!("the subject panicked: {p} at {:?}", crate::util::take_last_panic_loc()))),
                        state_key: None,
                        outcome: 0,
                        calls: 0,
                    },
                };
                n_hist += 1;
                n_calls += r.calls;
                outcomes.insert(r.outcome);
                match r.violation {
                    Some((idx, kind, detail)) => {
                        n_vio += 1;
                        if idx + 1 != ops.len() {
                            // a prefix that was fine before violates now: nondeterminism we do not own
                            // — unless the subject's oracle looks back (allowed: final-state oracles).
                            rep.bump("violations_reported_at_earlier_index", 1);
                        }
                        let canon_full = subj.canon(&ops);
                        let cached = sig_cache.lock().unwrap().get(&canon_full).cloned();
                        match cached {
                            Some(s) => rep.violation(&kind, &s, json!(null), &detail),
                            None => {
                                let n = minimised.fetch_add(1, std::sync::atomic::Ordering::Relaxed);
                                let core = if n < bounds.max_minimise {
                                    minimise(subj, &ops, &kind)
                                } else {
                                    ops.clone()
                                };
                                let s = format!("{}|{}|{}", subj.sig_config(), kind, subj.canon(&core));
                                // replay before report: the minimised core must fail again
                                let again = crate::util::catch(|| subj.run(&core)).ok().and_then(|r| r.violation);
                                let again_same = matches!(&again, Some((_, k, _)) if *k == kind) || (kind == "panic" && again.is_none());
                                if !again_same {
                                    rep.machinery_error(&format!(
                                        "violation did not reproduce on replay: {s}"
                                    ));
                                }
                                rep.violation(
                                    &kind,
                                    &s,
                                    json!({"config": cfg, "history": format!("{ops:?}"), "core": format!("{core:?}"),
                                           "core_ops": core.iter().map(|o| format!("{o:?}")).collect::<Vec<_>>()}),
                                    &detail,
                                );
                                // only now: a concurrent history with the same canonical form must not
                                // report the cached signature before the witness exists
                                sig_cache.lock().unwrap().insert(canon_full, s);
                            }
                        }
                        // violating histories are not extended
                    }
                    None => {
                        let fresh = match r.state_key {
                            Some(k) => seen.lock().unwrap().insert(k),
                            None => true,
                        };
                        if fresh {
                            n_new += 1;
                            if !last_level {
                                let mut c = base.clone();
                                c.push(ai as u16);
                                children.push(c);
                            }
                        }
                    }
                }
                ops.pop();
            }
            for o in outcomes {
                rep.add_outcome(o);
            }
            (children, n_hist, n_calls, n_new, n_vio)
        });
        let mut next: Vec<Vec<u16>> = Vec::new();
        for (children, n_hist, n_calls, n_new, n_vio) in results {
            next.extend(children);
            stats.histories += n_hist;
            stats.states += n_new;
            stats.violations += n_vio;
            rep.add_traces(n_hist);
            rep.add_transitions(n_calls);
        }
        if timed_out.load(std::sync::atomic::Ordering::Relaxed) {
            rep.cap_hit(&format!(
                "{cfg}: wall-clock budget hit inside depth {level}; depths < {level} fully covered"
            ));
            break;
        }
        stats.completed_depth = level;
        // sample: one history of this level
        if let Some(h) = next.first().or(frontier.first()) {
            let ops: Vec<String> = h.iter().map(|i| format!("{:?}", alpha[*i as usize])).collect();
            rep.sample(json!({"config": cfg, "depth": level, "history": ops}));
        }
        frontier = next;
    }
    rep.add_states(stats.states);
    rep.add_evaluations(stats.histories);
    // every explored history beyond the empty one is a distinct non-trivial case
    rep.add_nontrivial_count(stats.histories);
    let _ = fnv64_str;
    stats
}
