//! C15 — what the Ribbit server emits, the Ribbit client reads back as the database says.
//!
//! (A) function level: every build database over small field alphabets that
//! `BuildDatabase::from_file` accepts × product × endpoint × TCP v1/v2: the bytes produced
//! by the server's own `handle_command` are parsed with the client's own code path
//! (`is_v1_mime_response` → `parse_v1_mime_to_bpsv` | `BpsvDocument::parse`) and every field
//! of every row must equal the record of the newest build.
//! Both V1 parsers of the project are "this project's own client code": the one `RibbitClient`
//! uses (`mime_parser`) and the signature-aware public one (`v1_mime::is_v1_mime_response` →
//! `v1_mime::parse_v1_mime_response`); every response goes through both. `v1/summary` must list
//! exactly the products of the database. Several builds per product: every ordered pair of
//! dates from a grid over months, month ends, leap days and year changes, judged against an
//! independent calendar (day counting by loops).
//! (B) the real pair over loopback (`tcp::start_server`, `http::start_server`; `RibbitClient`,
//! `TactClient`) for a spanning subset of databases and for every request-line class from
//! 1–2 misbehaving clients in every arrival order while a well-formed client must still be
//! answered; plus every well-formed request line delivered in two TCP segments (every cut
//! position, the server runs in between) through a raw socket.

use crate::report::{Level, Report, Tier};
use crate::util::{Scratch, par_map};
use cascette_formats::bpsv::BpsvDocument;
use cascette_ribbit::config::ServerConfig;
use cascette_ribbit::server::AppState;
use futures::StreamExt;
use serde_json::{Value, json};
use std::sync::Arc;
use std::time::Duration;
use tokio::io::{AsyncReadExt, AsyncWriteExt};

const H1: &str = "0123456789abcdef0123456789abcdef";
const H2: &str = "fedcba9876543210fedcba9876543210";

#[derive(Clone, Debug)]
pub struct Rec {
    pub product: String,
    pub version: String,
    pub build: String,
    pub keyring: Option<String>,
    pub product_config: Option<String>,
    pub cdn_path: Option<String>,
    pub build_time: String,
}

impl Rec {
    fn base() -> Rec {
        Rec { product: "wow".into(), version: "1.0.0".into(), build: "1".into(), keyring: None, product_config: None, cdn_path: None, build_time: "2024-01-01T00:00:00+00:00".into() }
    }
    fn json(&self, id: u64) -> Value {
        let mut v = json!({
            "id": id, "product": self.product, "version": self.version, "build": self.build,
            "build_config": H1, "cdn_config": H2, "keyring": self.keyring, "product_config": self.product_config,
            "build_time": self.build_time,
            "encoding_ekey": "aaaabbbbccccddddeeeeffffaaaaffff", "root_ekey": "bbbbccccddddeeeeffffaaaabbbbcccc",
            "install_ekey": "ccccddddeeeeffffaaaabbbbccccdddd", "download_ekey": "ddddeeeeffffaaaabbbbccccddddeeee",
        });
        if let Some(p) = &self.cdn_path {
            v["cdn_path"] = json!(p);
        }
        v
    }
}

/// Product names: plain ones, and the classes that mean something to the protocols that have
/// to carry them — the command separator `/`, the BPSV comment mark `#` in first position, white
/// space at an edge (the BPSV reader and the command reader trim), a pure-dot path segment, and a
/// name that makes the request line longer than 1 KiB.
fn products() -> Vec<String> {
    // (the last two: letters and digits outside ASCII — what `char::is_alphanumeric` admits)
    let mut v: Vec<String> = ["wow", "a_b", "a.b", "#b", "a/b", " a", "..", "w\u{f6}w_\u{43a}\u{43b}", "d4-\u{30d9}.\u{663}"].iter().map(|s| (*s).to_string()).collect();
    v.push("p".repeat(LONG_PRODUCT));
    v
}
const LONG_PRODUCT: usize = 1100;
/// Versions: plain, separators of BPSV (`|`, line break, comment mark), non-ASCII, and the
/// delimiters of the V1 envelope (`--RibbitBoundary`, a `Checksum: ` line lookalike).
const VERSIONS: [&str; 10] = ["1.0.0", "1", "1 0", "a|b", "x\ny", "##", "v\u{e9}", "1.0--RibbitBoundary--x", "--RibbitBoundary", "Checksum: 0"];
/// Builds: small, the u32 / i64 / u64 boundaries of the `BuildId!DEC:4` column, non-canonical and
/// non-decimal forms.
const BUILDS: [&str; 11] = ["1", "0", "65536", "4294967296", "9223372036854775807", "9223372036854775808", "99999999999999999999", "01", "-1", "12a", "+1"];

fn keyrings() -> Vec<Option<String>> {
    vec![None, Some(H2.to_string()), Some("zz".to_string())]
}

/// Debug form of a string, abbreviated when long (stable: no content beyond the length).
fn show(s: &str) -> String {
    if s.len() > 64 { format!("<{:?}×{}>", s.chars().next().unwrap_or(' '), s.chars().count()) } else { format!("{s:?}") }
}

fn leap(y: i64) -> bool {
    (y % 4 == 0 && y % 100 != 0) || y % 400 == 0
}

/// Days from 1970-01-01 to y-m-d, by counting whole years and months (a boring reference,
/// independent of the closed-form era arithmetic in the repository). Years ≥ 1970 only.
fn days_from_1970(y: i64, m: i64, d: i64) -> Option<i64> {
    if y < 1970 || !(1..=12).contains(&m) || d < 1 {
        return None;
    }
    let mlen = [31, if leap(y) { 29 } else { 28 }, 31, 30, 31, 30, 31, 31, 30, 31, 30, 31];
    if d > mlen[(m - 1) as usize] {
        return None;
    }
    let mut days = 0;
    for yy in 1970..y {
        days += if leap(yy) { 366 } else { 365 };
    }
    for mm in 1..m {
        days += mlen[(mm - 1) as usize];
    }
    Some(days + d - 1)
}

/// Seconds since epoch for the timestamps used here: YYYY-MM-DDTHH:MM:SS±HH:MM.
fn actual_time(ts: &str) -> Option<i64> {
    if ts.len() != 25 {
        return None;
    }
    let (dt, off) = ts.split_at(19);
    let year: i64 = dt[0..4].parse().ok()?;
    let month: i64 = dt[5..7].parse().ok()?;
    let day: i64 = dt[8..10].parse().ok()?;
    let day = days_from_1970(year, month, day)?;
    let h: i64 = dt[11..13].parse().ok()?;
    let m: i64 = dt[14..16].parse().ok()?;
    let s: i64 = dt[17..19].parse().ok()?;
    let sign = if off.starts_with('-') { -1 } else { 1 };
    let oh: i64 = off[1..3].parse().ok()?;
    let om: i64 = off[4..6].parse().ok()?;
    Some(day * 86400 + h * 3600 + m * 60 + s - sign * (oh * 3600 + om * 60))
}

#[derive(Clone, Debug)]
pub struct Db {
    pub recs: Vec<Rec>,
    /// identifies the database *class* (goes into signatures)
    pub label: String,
    /// the exact instance, for details (empty: the label says it all)
    pub note: String,
}

impl Db {
    fn new(label: String, recs: Vec<Rec>) -> Db {
        Db { recs, label, note: String::new() }
    }
    fn describe(&self) -> String {
        if self.note.is_empty() { self.label.clone() } else { format!("{} [{}]", self.label, self.note) }
    }
}

fn single_record_dbs() -> Vec<Db> {
    let mut out = Vec::new();
    for p in &products() {
        for v in VERSIONS {
            for b in BUILDS {
                for k in keyrings() {
                    for pc in [None, Some(H1.to_string())] {
                        for cp in [None, Some("tpr/x".to_string())] {
                            let r = Rec { product: p.clone(), version: v.into(), build: b.into(), keyring: k.clone(), product_config: pc.clone(), cdn_path: cp.clone(), ..Rec::base() };
                            out.push(Db::new(format!("1rec product={} version={v:?} build={b:?} keyring={k:?} product_config={} cdn_path={}", show(p), pc.is_some(), cp.is_some()), vec![r]));
                        }
                    }
                }
            }
        }
    }
    out
}

fn multi_record_dbs() -> Vec<Db> {
    let mut out = Vec::new();
    let times: [(&str, &str, &str); 7] = [
        // instants on both sides of what 31 and 32 bits of seconds hold, and the last year four digits hold
        ("around-2^31-seconds", "2038-01-19T03:14:07+00:00", "2038-01-19T03:14:08+00:00"),
        ("around-2^32-seconds", "2106-02-07T06:28:15+00:00", "2106-02-07T06:28:16+00:00"),
        ("year-9999", "2024-01-01T00:00:00+00:00", "9999-12-31T23:59:59+00:00"),
        ("ascending-same-offset", "2024-01-01T00:00:00+00:00", "2024-01-01T06:00:00+00:00"),
        ("mixed-offsets-lexicographic-differs", "2024-01-01T10:00:00+09:00", "2024-01-01T05:00:00+00:00"),
        ("mixed-offsets-negative", "2024-01-01T20:00:00-08:00", "2024-01-02T01:00:00+00:00"),
        ("equal", "2024-01-01T00:00:00+00:00", "2024-01-01T00:00:00+00:00"),
    ];
    for (name, t1, t2) in times {
        for swap in [false, true] {
            let mut a = Rec { version: "1.0.0".into(), build: "100".into(), build_time: t1.into(), ..Rec::base() };
            let mut b = Rec { version: "2.0.0".into(), build: "200".into(), build_time: t2.into(), ..Rec::base() };
            if swap {
                std::mem::swap(&mut a, &mut b);
            }
            out.push(Db::new(format!("2rec same product, times {name}, file order swapped={swap}"), vec![a, b]));
        }
    }
    // two products
    out.push(Db::new("2rec two products".into(), vec![Rec::base(), Rec { product: "a_b".into(), version: "9.9".into(), build: "9".into(), ..Rec::base() }]));
    // four records — three builds of one product and one of another — in every file order
    let four = [("wow", "1.0.2020", "2020", "2020-06-01T00:00:00+00:00"), ("wow", "1.0.2021", "2021", "2021-06-01T00:00:00+00:00"), ("wow", "1.0.2023", "2023", "2023-06-01T00:00:00+00:00"), ("a_b", "1.0.2022", "2022", "2022-06-01T00:00:00+00:00")];
    let mut perm = [0usize, 1, 2, 3];
    loop {
        let recs: Vec<Rec> = perm.iter().map(|&i| Rec { product: four[i].0.into(), version: four[i].1.into(), build: four[i].2.into(), build_time: four[i].3.into(), ..Rec::base() }).collect();
        let mut db = Db::new("4rec three builds of one product and one of another, every file order".to_string(), recs);
        db.note = format!("file order {perm:?} of [wow 2020, wow 2021, wow 2023, a_b 2022]");
        out.push(db);
        // next permutation (lexicographic)
        let Some(i) = (0..3).rev().find(|&i| perm[i] < perm[i + 1]) else { break };
        let j = (i + 1..4).rev().find(|&j| perm[j] > perm[i]).unwrap_or(i + 1);
        perm.swap(i, j);
        perm[i + 1..].reverse();
    }
    // three records, newest in the middle
    out.push(Db::new(
        "3rec newest in the middle".into(),
        vec![
            Rec { version: "1".into(), build: "1".into(), build_time: "2024-01-01T00:00:00+00:00".into(), ..Rec::base() },
            Rec { version: "3".into(), build: "3".into(), build_time: "2024-01-01T09:00:00+00:00".into(), ..Rec::base() },
            Rec { version: "2".into(), build: "2".into(), build_time: "2024-01-01T03:00:00+00:00".into(), ..Rec::base() },
        ],
    ));
    out
}

/// The date grid for "several builds per product with any timestamps": every month of a leap
/// year, the months around the year change of the neighbouring years, month ends, both sides of
/// a leap day and of the year change, a century leap year.
static DEEP_DATES: std::sync::atomic::AtomicBool = std::sync::atomic::AtomicBool::new(false);

fn date_grid(tier: Tier) -> Vec<(i64, i64, i64)> {
    let mut d: Vec<(i64, i64, i64)> = Vec::new();
    if tier == Tier::Thorough {
        // first, middle and last day of every month of seven years (leap, non-leap, the
        // century leap year 2000 and the non-leap century year 2100)
        let mut years = vec![1999, 2000, 2023, 2024, 2025, 2099, 2100];
        if DEEP_DATES.load(std::sync::atomic::Ordering::Relaxed) {
            // thorough: the years in which 31 and 32 bits of seconds run out, and a far century leap year
            years.extend([2038, 2106, 2400]);
        }
        for y in years {
            for m in 1..=12 {
                let last = (28..=31).rev().find(|dd| days_from_1970(y, m, *dd).is_some()).unwrap_or(28);
                for dd in [1, 15, last] {
                    d.push((y, m, dd));
                }
            }
        }
        return d;
    }
    for m in 1..=12 {
        d.push((2024, m, 15));
    }
    for y in [2023, 2025] {
        for m in [1, 2, 3, 11, 12] {
            d.push((y, m, 15));
        }
    }
    d.extend([(2023, 12, 31), (2024, 1, 1), (2024, 1, 31), (2024, 2, 1), (2024, 2, 28), (2024, 2, 29), (2024, 3, 1), (2024, 12, 31), (2025, 1, 1), (2025, 2, 28), (2025, 3, 1), (2000, 2, 29), (2000, 3, 1), (1999, 12, 31)]);
    d
}

fn month_class(m: i64) -> &'static str {
    match m {
        1 => "Jan",
        2 => "Feb",
        _ => "Mar..Dec",
    }
}

/// Every ordered pair (older, newer) of distinct dates of the grid as a two-build product, in both
/// file orders (noon UTC, so that only the calendar decides); plus three-build products over
/// {January, mid-year, next January}. The label (→ signature) is the calendar *class* of the
/// pair, the note carries the dates.
fn date_dbs(tier: Tier) -> Vec<Db> {
    let grid = date_grid(tier);
    let ts = |(y, m, d): (i64, i64, i64)| format!("{y:04}-{m:02}-{d:02}T12:00:00+00:00");
    let mut out = Vec::new();
    for &a in &grid {
        for &b in &grid {
            let (Some(da), Some(db)) = (days_from_1970(a.0, a.1, a.2), days_from_1970(b.0, b.1, b.2)) else { continue };
            if da >= db {
                continue;
            }
            for swap in [false, true] {
                let old = Rec { version: "1.0.0".into(), build: "100".into(), build_time: ts(a), ..Rec::base() };
                let new = Rec { version: "2.0.0".into(), build: "200".into(), build_time: ts(b), ..Rec::base() };
                let recs = if swap { vec![new, old] } else { vec![old, new] };
                let mut db = Db::new(format!("2rec same product, dates: older build in {}, newer build in {} {} year(s) later", month_class(a.1), month_class(b.1), b.0 - a.0), recs);
                db.note = format!("older {} newer {} newer-first-in-file={swap}", ts(a), ts(b));
                out.push(db);
            }
        }
    }
    for (y, perm) in [(2023, [0usize, 1, 2]), (2024, [1, 2, 0]), (2024, [2, 0, 1]), (2023, [2, 1, 0])] {
        let three = [(y, 1, 20), (y, 9, 10), (y + 1, 1, 5)];
        let recs: Vec<Rec> = perm.iter().map(|&i| Rec { version: format!("{}.0.0", i + 1), build: format!("{}", (i + 1) * 100), build_time: ts(three[i]), ..Rec::base() }).collect();
        let mut db = Db::new("3rec same product, dates: January, September, next January".to_string(), recs);
        db.note = format!("year {y}, file order {perm:?}");
        out.push(db);
    }
    out
}

/// The configured CDN hosts: several, space-separated, as the option is documented.
const CDN_HOSTS: &str = "cdn.test.example level3.test.example cdn2.test.example";

fn load_state(db: &Db) -> Option<(Arc<AppState>, Scratch)> {
    let sc = Scratch::new("c15");
    let path = sc.path.join("builds.json");
    let arr: Vec<Value> = db.recs.iter().enumerate().map(|(i, r)| r.json(i as u64 + 1)).collect();
    std::fs::write(&path, serde_json::to_vec(&arr).ok()?).ok()?;
    let cfg = ServerConfig {
        http_bind: "127.0.0.1:0".parse().ok()?,
        tcp_bind: "127.0.0.1:0".parse().ok()?,
        builds: path,
        cdn_hosts: CDN_HOSTS.to_string(),
        cdn_path: "tpr/default".to_string(),
        tls_cert: None,
        tls_key: None,
    };
    AppState::new(&cfg).ok().map(|s| (Arc::new(s), sc))
}

/// The newest record(s) of a product by actual time (ties: any of the tied records).
fn newest<'a>(db: &'a Db, product: &str) -> Vec<&'a Rec> {
    let recs: Vec<&Rec> = db.recs.iter().filter(|r| r.product == product).collect();
    let best = recs.iter().filter_map(|r| actual_time(&r.build_time)).max();
    recs.into_iter().filter(|r| actual_time(&r.build_time) == best).collect()
}

fn client_parse(raw: &[u8]) -> Result<BpsvDocument, String> {
    // exactly what RibbitClient::query_v1_mime does with the raw bytes
    if cascette_protocol::mime_parser::is_v1_mime_response(raw) {
        cascette_protocol::mime_parser::parse_v1_mime_to_bpsv(raw).map_err(|e| e.to_string())
    } else {
        <BpsvDocument as cascette_formats::CascFormat>::parse(raw).map_err(|e| e.to_string())
    }
}

/// The project's second V1 client path: the public, signature-aware `v1_mime` module (format
/// detection, checksum verification, MIME part extraction), then the same BPSV reader.
fn client_parse_v1_mime_module(raw: &[u8]) -> Result<BpsvDocument, String> {
    if cascette_protocol::v1_mime::is_v1_mime_response(raw) {
        let r = cascette_protocol::v1_mime::parse_v1_mime_response(raw, None).map_err(|e| e.to_string())?;
        <BpsvDocument as cascette_formats::CascFormat>::parse(r.data.as_bytes()).map_err(|e| e.to_string())
    } else {
        <BpsvDocument as cascette_formats::CascFormat>::parse(raw).map_err(|e| e.to_string())
    }
}

type Parser = fn(&[u8]) -> Result<BpsvDocument, String>;
/// (suffix of the transport label in signatures, parser)
const PARSERS: [(&str, Parser); 2] = [("", client_parse), ("@v1_mime-module", client_parse_v1_mime_module)];

/// Compare the parsed document with the expected record. Returns Err((kind, field, detail)).
fn judge(doc: &BpsvDocument, endpoint: &str, cands: &[&Rec]) -> Result<(), (String, String, String)> {
    let schema = doc.schema();
    let mut last_err = None;
    'cand: for rec in cands {
        let expect: Vec<(&str, String)> = match endpoint {
            "versions" | "bgdl" => vec![
                ("BuildConfig", H1.to_string()),
                ("CDNConfig", H2.to_string()),
                ("KeyRing", rec.keyring.clone().unwrap_or_default()),
                ("BuildId", rec.build.clone()),
                ("VersionsName", rec.version.clone()),
                ("ProductConfig", rec.product_config.clone().unwrap_or_default()),
            ],
            _ => vec![
                ("Path", rec.cdn_path.clone().unwrap_or_else(|| "tpr/default".to_string())),
                ("Hosts", CDN_HOSTS.to_string()),
                ("ConfigPath", rec.cdn_path.clone().unwrap_or_else(|| "tpr/default".to_string())),
            ],
        };
        let n_regions = if endpoint == "cdns" { 5 } else { 7 };
        if doc.rows().len() != n_regions {
            last_err = Some(("row-count".to_string(), "rows".to_string(), format!("{} rows parsed, the server emits one per region ({n_regions})", doc.rows().len())));
            continue 'cand;
        }
        for row in doc.rows() {
            for (name, want) in &expect {
                let got = row.get_raw_by_name(name, schema);
                if got != Some(want.as_str()) {
                    last_err = Some(("field-mismatch".to_string(), (*name).to_string(), format!("field {name}: client reads {got:?}, database says {want:?}")));
                    continue 'cand;
                }
            }
        }
        return Ok(());
    }
    Err(last_err.unwrap_or_else(|| ("no-candidate".into(), String::new(), "no record for product".into())))
}

fn function_level(rep: &Report, dbs: &[Db]) {
    let results = par_map(dbs.len(), |i| {
        let db = &dbs[i];
        let Some((state, _sc)) = load_state(db) else { return (false, Vec::new(), 0u64, Vec::new()) };
        let mut vio = Vec::new();
        let mut evals = 0u64;
        let mut served: Vec<String> = Vec::new();
        let mut products: Vec<&str> = db.recs.iter().map(|r| r.product.as_str()).collect();
        products.sort_unstable();
        products.dedup();
        for p in products {
            let cands = newest(db, p);
            for ep in ["versions", "cdns", "bgdl"] {
                for ver in ["v1", "v2"] {
                    evals += 1;
                    let cmd = format!("{ver}/products/{p}/{ep}");
                    let out = crate::util::catch(|| cascette_ribbit::tcp::handlers::handle_command(&cmd, &state));
                    let text = match out {
                        Err(pmsg) => {
                            vio.push(("server-panic".to_string(), format!("server-panic|{ver}"), format!("handle_command({cmd:?}) panicked: {pmsg}")));
                            continue;
                        }
                        Ok(Err(e)) => {
                            vio.push(("server-error".to_string(), format!("server-error|{ver}|{ep}"), format!("well-formed request {cmd:?} on an accepted database got an error: {e}")));
                            continue;
                        }
                        Ok(Ok(t)) => t,
                    };
                    for (psuffix, parser) in PARSERS {
                        let tr = format!("{ver}{psuffix}");
                        match crate::util::catch(|| parser(text.as_bytes())) {
                            Err(pmsg) => vio.push(("client-panic".to_string(), format!("client-panic|{tr}"), format!("{}: client parse of the response to {} panicked: {pmsg}", db.describe(), show(&cmd)))),
                            Ok(Err(e)) => {
                                vio.push(("client-rejects-response".to_string(), format!("client-rejects-response|{tr}"), format!("{}: response to {} is rejected by the client: {e}", db.describe(), show(&cmd))));
                            }
                            Ok(Ok(doc)) => {
                                if ep == "versions" && psuffix.is_empty() {
                                    // vacuity guard material: position in the file of the record that was served
                                    let b = doc.rows().first().and_then(|r| r.get_raw_by_name("BuildId", doc.schema())).unwrap_or("");
                                    served.push(format!("{}/{}", db.recs.iter().position(|r| r.build == b).map_or("?".to_string(), |i| i.to_string()), db.recs.len()));
                                }
                                if let Err((kind, field, detail)) = judge(&doc, ep, &cands) {
                                    vio.push((kind.clone(), format!("{kind}|{tr}|{field}"), format!("{}: {}: {detail}", db.describe(), show(&cmd))));
                                }
                            }
                        }
                    }
                }
            }
        }
        // v1/summary lists the products of the database — no more, no fewer
        {
            evals += 1;
            let mut want: Vec<String> = db.recs.iter().map(|r| r.product.clone()).collect();
            want.sort();
            want.dedup();
            match crate::util::catch(|| cascette_ribbit::tcp::handlers::handle_command("v1/summary", &state)) {
                Err(pmsg) => vio.push(("server-panic".to_string(), "server-panic|v1".to_string(), format!("handle_command(\"v1/summary\") panicked: {pmsg}"))),
                Ok(Err(e)) => vio.push(("server-error".to_string(), "server-error|v1|summary".to_string(), format!("{}: v1/summary on an accepted database got an error: {e}", db.describe()))),
                Ok(Ok(text)) => {
                    for (psuffix, parser) in PARSERS {
                        let tr = format!("v1{psuffix}");
                        match crate::util::catch(|| parser(text.as_bytes())) {
                            Err(pmsg) => vio.push(("client-panic".to_string(), format!("client-panic|{tr}"), format!("{}: client parse of the response to v1/summary panicked: {pmsg}", db.describe()))),
                            Ok(Err(e)) => vio.push(("client-rejects-response".to_string(), format!("client-rejects-response|{tr}"), format!("{}: response to v1/summary is rejected by the client: {e}", db.describe()))),
                            Ok(Ok(doc)) => {
                                let mut got: Vec<String> = doc.rows().iter().map(|r| r.get_raw_by_name("Product", doc.schema()).unwrap_or("<no Product column>").to_string()).collect();
                                got.sort();
                                if got != want {
                                    vio.push(("summary-mismatch".to_string(), format!("summary-mismatch|{tr}"), format!("{}: v1/summary read back by the client lists [{}], the database holds [{}]", db.describe(), got.iter().map(|x| show(x)).collect::<Vec<_>>().join(", "), want.iter().map(|x| show(x)).collect::<Vec<_>>().join(", "))));
                                }
                            }
                        }
                    }
                }
            }
        }
        (true, vio, evals, served)
    });
    let mut accepted = 0u64;
    let mut evals = 0u64;
    // Report only minimal causes: a failing single-record database is *explained* when a database
    // whose deviations from the base record are a proper subset already fails with the same
    // kind and transport. Databases are visited by increasing number of deviations.
    let devs = |db: &Db| -> Vec<String> {
        if db.recs.len() != 1 {
            return vec![db.label.clone()];
        }
        let r = &db.recs[0];
        let b = Rec::base();
        let mut d = Vec::new();
        if r.product != b.product {
            d.push(format!("product={}", show(&r.product)));
        }
        if r.version != b.version {
            d.push(format!("version={}", show(&r.version)));
        }
        if r.build != b.build {
            d.push(format!("build={:?}", r.build));
        }
        if r.keyring != b.keyring {
            d.push(format!("keyring={:?}", r.keyring));
        }
        if r.product_config != b.product_config {
            d.push("product_config".to_string());
        }
        if r.cdn_path != b.cdn_path {
            d.push("cdn_path".to_string());
        }
        d
    };
    let mut order: Vec<usize> = (0..dbs.len()).collect();
    order.sort_by_key(|i| devs(&dbs[*i]).len());
    let mut failing: Vec<(String, Vec<String>)> = Vec::new(); // (kind|transport|endpoint-class, deviation set)
    let mut results: Vec<Option<(bool, Vec<(String, String, String)>, u64, Vec<String>)>> = results.into_iter().map(Some).collect();
    for i in order {
        let (ok, vio, e, served) = results[i].take().unwrap();
        if ok {
            accepted += 1;
        }
        evals += e;
        rep.add_outcome(crate::util::fnv64_str(&format!("{ok}|{}|{served:?}", vio.len())));
        let d = devs(&dbs[i]);
        for (kind, sig, detail) in vio {
            // sig = kind|transport|...: the first two components identify the clause and transport
            let head: String = sig.split('|').take(2).collect::<Vec<_>>().join("|");
            let explained = failing.iter().any(|(h, fd)| *h == head && fd.len() < d.len() && fd.iter().all(|x| d.contains(x)));
            if explained {
                rep.bump("violations_explained_by_a_smaller_deviation_set", 1);
                continue;
            }
            if !failing.iter().any(|(h, fd)| *h == head && *fd == d) {
                failing.push((head.clone(), d.clone()));
            }
            let sig2 = format!("{head}|{}", d.join(","));
            rep.violation(&kind, &sig2, json!({"level": "function", "db": dbs[i].describe(), "records": dbs[i].recs.iter().enumerate().map(|(j, r)| r.json(j as u64 + 1)).collect::<Vec<_>>()}), &detail);
        }
    }
    rep.add_evaluations(evals);
    rep.add_nontrivial_count(evals);
    rep.bump("databases_generated", dbs.len() as u64);
    rep.bump("databases_accepted_by_validator", accepted);
}

// ---------------------------------------------------------------- level B: real sockets

/// Why a server task ended on its own.
#[derive(Clone, Debug)]
enum Exit {
    /// `start_server` could not bind its port: someone else is listening there. Nothing seen
    /// through that port says anything about the project's server — the scenario is void and is
    /// run again.
    BindFailed(String),
    /// any other end of a server that is meant to run forever: judged (server-died)
    Other(String),
}

/// One of the two servers of a scenario.
struct Srv {
    task: tokio::task::JoinHandle<()>,
    /// set when `start_server` returned
    exit: Arc<std::sync::OnceLock<Exit>>,
    /// set when the first poll of `start_server` is over. `start_server` binds before its first
    /// await that can be pending, so from then on `exit` says whether the bind succeeded.
    polled: Arc<std::sync::atomic::AtomicBool>,
}

impl Srv {
    fn spawn<F>(delay: Option<Duration>, server: F) -> Srv
    where
        F: std::future::Future<Output = Result<(), cascette_ribbit::ServerError>> + Send + 'static,
    {
        let exit = Arc::new(std::sync::OnceLock::new());
        let polled = Arc::new(std::sync::atomic::AtomicBool::new(false));
        let (x, p) = (exit.clone(), polled.clone());
        let task = tokio::spawn(async move {
            if let Some(d) = delay {
                tokio::time::sleep(d).await;
            }
            let mut server = Box::pin(server);
            std::future::poll_fn(move |cx| {
                let r = server.as_mut().poll(cx);
                let done = if let std::task::Poll::Ready(r) = r {
                    let _ = x.set(exit_of(r));
                    std::task::Poll::Ready(())
                } else {
                    std::task::Poll::Pending
                };
                p.store(true, std::sync::atomic::Ordering::Release);
                done
            })
            .await;
        });
        Srv { task, exit, polled }
    }
    fn polled(&self) -> bool {
        self.polled.load(std::sync::atomic::Ordering::Acquire) || self.task.is_finished()
    }
    /// The server task ended although it had bound its port.
    fn died(&self) -> Option<String> {
        match self.exit.get() {
            Some(Exit::BindFailed(_)) => None,
            Some(Exit::Other(e)) => Some(e.clone()),
            None if self.task.is_finished() => Some("the task ended (panic)".to_string()),
            None => None,
        }
    }
}

struct Servers {
    tcp_port: u16,
    http_port: u16,
    tcp: Srv,
    http: Srv,
    /// the two ports stay set aside for as long as the servers run
    _reserved: Vec<crate::net::ReservedPort>,
}

impl Servers {
    /// `Some(why)` when one of the two servers never owned its port. Waits (bounded) for the
    /// first poll of both server tasks, after which the answer is final.
    async fn lost_port(&self) -> Option<String> {
        for _ in 0..400 {
            if self.tcp.polled() && self.http.polled() {
                break;
            }
            tokio::time::sleep(Duration::from_millis(5)).await;
        }
        self.lost_port_now()
    }
    fn lost_port_now(&self) -> Option<String> {
        for (name, srv) in [("TCP", &self.tcp), ("HTTP", &self.http)] {
            if let Some(Exit::BindFailed(e)) = srv.exit.get() {
                return Some(format!("{name} server: {e}"));
            }
        }
        None
    }
    fn stop(&self) {
        self.tcp.task.abort();
        self.http.task.abort();
    }
}

fn exit_of(r: Result<(), cascette_ribbit::ServerError>) -> Exit {
    match r {
        Err(e @ (cascette_ribbit::ServerError::TcpBindFailed { .. } | cascette_ribbit::ServerError::HttpBindFailed { .. })) => Exit::BindFailed(error_chain(&e)),
        Err(e) => Exit::Other(format!("start_server returned Err: {}", error_chain(&e))),
        Ok(()) => Exit::Other("start_server returned Ok(())".to_string()),
    }
}

fn error_chain(e: &dyn std::error::Error) -> String {
    let mut s = e.to_string();
    let mut cur = e.source();
    while let Some(c) = cur {
        let t = c.to_string();
        if !s.contains(&t) {
            s.push_str(": ");
            s.push_str(&t);
        }
        cur = c.source();
    }
    s
}

/// Scenarios that were void because a server lost its port to someone else, and were run again.
static PORT_RACES: std::sync::atomic::AtomicU64 = std::sync::atomic::AtomicU64::new(0);
/// Server starts that had to fall back to pick-close-bind (see `start_servers`).
static UNRESERVED_STARTS: std::sync::atomic::AtomicU64 = std::sync::atomic::AtomicU64::new(0);
const PORT_ATTEMPTS: usize = 6;

/// Self-test of the lost-port handling (never set by a registered command):
/// `VERIF_C15_STEAL_PORT=early|late` makes every 5th server start lose its TCP port to a foreign
/// listener that answers every connection with an HTTP error, the way a neighbouring scenario's
/// HTTP server would. `early`: the server's bind() fails before the start-up probe looks;
/// `late` (returns true): the server task binds 60 ms later and the start-up probe does not wait
/// for it, so the probe is answered by the foreign listener and the whole scenario runs against
/// it before the loss is noticed. Either way the run must end exactly as without the variable,
/// with the void scenarios counted.
async fn steal_port_self_test(tcp_port: u16) -> bool {
    static CALLS: std::sync::atomic::AtomicU64 = std::sync::atomic::AtomicU64::new(0);
    let Ok(mode) = std::env::var("VERIF_C15_STEAL_PORT") else { return false };
    if CALLS.fetch_add(1, std::sync::atomic::Ordering::Relaxed) % 5 != 2 {
        return false;
    }
    // explicit bind with SO_REUSEADDR: allowed next to the (non-listening) reservation
    let Ok(l) = tokio::net::TcpListener::bind(("127.0.0.1", tcp_port)).await else { return false };
    tokio::spawn(async move {
        // lives for 3 s: long enough for any scenario started on this port
        let _ = tokio::time::timeout(Duration::from_secs(3), async {
            while let Ok((mut s, _)) = l.accept().await {
                tokio::spawn(async move {
                    let mut buf = [0u8; 256];
                    let _ = tokio::time::timeout(Duration::from_millis(200), s.read(&mut buf)).await;
                    let _ = s.write_all(b"HTTP/1.1 400 Bad Request\r\ncontent-length: 0\r\n\r\n").await;
                });
            }
        })
        .await;
    });
    mode == "late"
}

/// Both servers on two loopback ports. `start_server` takes an address, not a listener, so the
/// port has to be chosen before the server binds it: the two ports are set aside with
/// [`crate::net::ReservedPort`] and stay set aside while the servers run, so that no other
/// scenario of this process, no other process and no outgoing connection can be given the number
/// in between (an earlier version picked a number by binding port 0 and closing that socket;
/// with 8 scenarios starting servers side by side one of them was eventually handed a number
/// another had picked but not bound yet, its own TCP server failed to bind, and its clients
/// talked to the neighbour's HTTP server — DESIGN B.9). Should a kernel refuse the server's bind
/// next to the reservation, later attempts release the reservation just before the server
/// starts; a bind that fails is never judged, only retried.
async fn start_servers(state: Arc<AppState>) -> Result<Servers, StartFail> {
    let mut reserve = true;
    for _ in 0..10 {
        let mut reserved = vec![crate::net::ReservedPort::new(), crate::net::ReservedPort::new()];
        let (tcp_port, http_port) = (reserved[0].port, reserved[1].port);
        let late = steal_port_self_test(tcp_port).await;
        if !reserve {
            UNRESERVED_STARTS.fetch_add(1, std::sync::atomic::Ordering::Relaxed);
            reserved.clear();
        }
        let tcp = Srv::spawn(late.then_some(Duration::from_millis(60)), cascette_ribbit::tcp::start_server(format!("127.0.0.1:{tcp_port}").parse().unwrap(), state.clone()));
        let http = Srv::spawn(None, cascette_ribbit::http::start_server(format!("127.0.0.1:{http_port}").parse().unwrap(), state.clone()));
        let srv = Servers { tcp_port, http_port, tcp, http, _reserved: reserved };
        // wait until both accept and both binds are known to have succeeded
        let mut ok = false;
        for _ in 0..200 {
            let a = tokio::net::TcpStream::connect(("127.0.0.1", tcp_port)).await.is_ok();
            let b = tokio::net::TcpStream::connect(("127.0.0.1", http_port)).await.is_ok();
            if srv.tcp.exit.get().is_some() || srv.http.exit.get().is_some() || srv.tcp.task.is_finished() || srv.http.task.is_finished() {
                break;
            }
            if a && b && (late || (srv.tcp.polled() && srv.http.polled())) {
                ok = true;
                break;
            }
            tokio::time::sleep(Duration::from_millis(5)).await;
        }
        if ok {
            return Ok(srv);
        }
        srv.stop();
        if srv.lost_port_now().is_some() {
            PORT_RACES.fetch_add(1, std::sync::atomic::Ordering::Relaxed);
            if std::env::var_os("VERIF_C15_STEAL_PORT").is_none() {
                reserve = false;
            }
            continue;
        }
        // a server that had its port and ended on its own while nothing but the start-up probe
        // (connect, close) had happened: not an environment event
        for (name, s) in [("tcp", &srv.tcp), ("http", &srv.http)] {
            if let Some(why) = s.died() {
                return Err(StartFail::Died(name, why));
            }
        }
    }
    Err(StartFail::NoPort)
}

enum StartFail {
    /// ten attempts without a pair of servers that accept: machinery
    NoPort,
    /// (which server, why): the server bound its port and then ended during start-up
    Died(&'static str, String),
}

impl StartFail {
    fn report(self, whom: &str) -> (String, String, String) {
        match self {
            StartFail::NoPort => ("machinery".into(), "machinery".into(), "could not start servers".into()),
            StartFail::Died(which, why) => (
                "server-died".into(),
                format!("server-died|{which}|at-start-up"),
                format!("{whom}: the {} server ended on its own after a client connected and closed without sending anything (the start-up probe): {why}", which.to_uppercase()),
            ),
        }
    }
}

/// One database over real sockets. A run in which a server never owned its port (see
/// [`Exit::BindFailed`]) is void, whatever was observed, and the database is run again.
async fn socket_level_db(db: Db) -> Vec<(String, String, String)> {
    let mut last = String::new();
    for _ in 0..PORT_ATTEMPTS {
        match socket_level_db_once(&db).await {
            Ok(vio) => return vio,
            Err(why) => {
                PORT_RACES.fetch_add(1, std::sync::atomic::Ordering::Relaxed);
                last = why;
            }
        }
    }
    vec![("machinery".into(), "machinery".into(), format!("{}: {PORT_ATTEMPTS} attempts in a row lost a server port to another listener ({last})", db.describe()))]
}

async fn socket_level_db_once(db: &Db) -> Result<Vec<(String, String, String)>, String> {
    let mut vio = Vec::new();
    let Some((state, _sc)) = load_state(db) else { return Ok(vio) };
    let srv = match start_servers(state).await {
        Ok(srv) => srv,
        Err(f) => return Ok(vec![f.report(&db.describe())]),
    };
    let mut products: Vec<String> = db.recs.iter().map(|r| r.product.clone()).collect();
    products.sort();
    products.dedup();
    for p in &products {
        let cands = newest(db, p);
        let ps = show(p);
        for ep in ["versions", "cdns", "bgdl"] {
            // TCP v1 and v2 through the real RibbitClient
            for ver in ["v1", "v2"] {
                let rc = cascette_protocol::RibbitClient::new(format!("tcp://127.0.0.1:{}", srv.tcp_port)).expect("ribbit client");
                let r = tokio::time::timeout(Duration::from_secs(5), rc.query(&format!("{ver}/products/{p}/{ep}"))).await;
                match r {
                    Err(_) => vio.push(("no-answer".into(), format!("no-answer|tcp-{ver}"), format!("{}: TCP {ver} {ps}/{ep}: no answer within 5 s", db.describe()))),
                    Ok(Err(e)) => vio.push(("client-rejects-response".into(), format!("socket|client-rejects-response|tcp-{ver}|{}", sig_fields(db, &cands, ep)), format!("{}: TCP {ver} {ps}/{ep}: {e}", db.describe()))),
                    Ok(Ok(doc)) => {
                        if let Err((kind, field, detail)) = judge(&doc, ep, &cands) {
                            vio.push((kind.clone(), format!("socket|{kind}|tcp-{ver}|{field}|{}", sig_fields(db, &cands, ep)), format!("{}: TCP {ver} {ps}/{ep}: {detail}", db.describe())));
                        }
                    }
                }
            }
            // HTTP through the real TactClient
            let tc = cascette_protocol::TactClient::new(format!("http://127.0.0.1:{}", srv.http_port), false).expect("tact client");
            let r = tokio::time::timeout(Duration::from_secs(5), tc.query(&format!("v1/products/{p}/{ep}"))).await;
            match r {
                Err(_) => vio.push(("no-answer".into(), "no-answer|http".into(), format!("{}: HTTP {ps}/{ep}: no answer within 5 s", db.describe()))),
                Ok(Err(e)) => vio.push(("client-rejects-response".into(), format!("socket|client-rejects-response|http|{}", sig_fields(db, &cands, ep)), format!("{}: HTTP {ps}/{ep}: {e}", db.describe()))),
                Ok(Ok(doc)) => {
                    if let Err((kind, field, detail)) = judge(&doc, ep, &cands) {
                        vio.push((kind.clone(), format!("socket|{kind}|http|{field}|{}", sig_fields(db, &cands, ep)), format!("{}: HTTP {ps}/{ep}: {detail}", db.describe())));
                    }
                }
            }
        }
    }
    if let Some(why) = srv.lost_port().await {
        srv.stop();
        eprintln!("C15: {}: void, {why}; {} observations through the foreign listener discarded{}", db.describe(), vio.len(), vio.first().map_or(String::new(), |v| format!(", e.g. [{}] {}", v.0, v.2)));
        return Err(why);
    }
    if let Some(why) = srv.tcp.died() {
        vio.push(("server-died".into(), "server-died|tcp".into(), format!("{}: the TCP server task ended: {why}", db.describe())));
    }
    if let Some(why) = srv.http.died() {
        vio.push(("server-died".into(), "server-died|http".into(), format!("{}: the HTTP server task ended: {why}", db.describe())));
    }
    srv.stop();
    Ok(vio)
}

fn sig_fields(db: &Db, cands: &[&Rec], ep: &str) -> String {
    if cands.len() != 1 {
        return "tie".into();
    }
    let r = cands[0];
    let mut why = Vec::new();
    if db.recs.len() > 1 {
        why.push(db.label.clone());
    }
    if r.product != "wow" {
        why.push(format!("product={}", show(&r.product)));
    }
    if ep == "cdns" {
        why.push(format!("cdn_path={}", r.cdn_path.is_some()));
        return why.join(",");
    }
    if r.version != "1.0.0" && r.version != "2.0.0" {
        why.push(format!("version={}", show(&r.version)));
    }
    if !r.build.chars().all(|c| c.is_ascii_digit()) || r.build.len() > 9 {
        why.push(format!("build={:?}", r.build));
    }
    if r.keyring.as_deref().is_some_and(|k| k != H2) {
        why.push(format!("keyring={:?}", r.keyring));
    }
    why.join(",")
}

#[derive(Clone, Copy, Debug, PartialEq)]
enum Bad {
    UnknownProduct,
    WrongArity,
    Empty,
    Long64K,
    Long8M,
    NonUtf8,
    NeverTerminated,
    ConnectClose,
}

const BADS: [Bad; 8] = [Bad::UnknownProduct, Bad::WrongArity, Bad::Empty, Bad::Long64K, Bad::Long8M, Bad::NonUtf8, Bad::NeverTerminated, Bad::ConnectClose];

fn bad_payload(b: Bad) -> Vec<u8> {
    match b {
        Bad::UnknownProduct => b"v1/products/nosuch/versions\r\n".to_vec(),
        Bad::WrongArity => b"v1/products/wow\r\n".to_vec(),
        Bad::Empty => b"\r\n".to_vec(),
        Bad::Long64K => {
            let mut v = vec![b'a'; 64 * 1024];
            v.extend_from_slice(b"\r\n");
            v
        }
        Bad::Long8M => vec![b'a'; 8 * 1024 * 1024], // no terminator either: must not be buffered forever to the detriment of others
        Bad::NonUtf8 => b"v1/products/\xff\xfe\x80/versions\r\n".to_vec(),
        Bad::NeverTerminated => b"v1/products/wow/versions".to_vec(),
        Bad::ConnectClose => Vec::new(),
    }
}

/// One robustness scenario: bad clients `bads` and one good client in arrival order `order`
/// (indices into [bad0, bad1, good]); bad connections stay open until the good client was judged
/// unless `close_first`.
async fn robustness_scenario(tcp_port: u16, bads: Vec<Bad>, order: Vec<usize>, close_first: bool) -> Result<String, (String, String)> {
    let mut open: Vec<tokio::net::TcpStream> = Vec::new();
    let mut good_result: Option<Result<(), String>> = None;
    for who in order {
        if who < bads.len() {
            let b = bads[who];
            let Ok(mut s) = tokio::net::TcpStream::connect(("127.0.0.1", tcp_port)).await else {
                return Err(("server-not-accepting".into(), format!("could not connect bad client {b:?}")));
            };
            if b != Bad::ConnectClose {
                let payload = bad_payload(b);
                // do not wait for the server to drain 8 MiB: write with a deadline
                let _ = tokio::time::timeout(Duration::from_millis(500), s.write_all(&payload)).await;
                let _ = s.flush().await;
                // a terminated bad request gets an error reply or a closed connection
                if payload.ends_with(b"\n") {
                    let mut buf = Vec::new();
                    let _ = tokio::time::timeout(Duration::from_secs(2), s.read_to_end(&mut buf)).await;
                }
            }
            if close_first || b == Bad::ConnectClose {
                drop(s);
            } else {
                open.push(s);
            }
        } else {
            let rc = cascette_protocol::RibbitClient::new(format!("tcp://127.0.0.1:{tcp_port}")).expect("client");
            let r = tokio::time::timeout(Duration::from_secs(2), rc.query("v1/products/wow/versions")).await;
            good_result = Some(match r {
                Err(_) => Err("a well-formed client was not answered within 2 s".to_string()),
                Ok(Err(e)) => Err(format!("a well-formed client got an error: {e}")),
                Ok(Ok(_)) => Ok(()),
            });
        }
    }
    drop(open);
    match good_result {
        Some(Ok(())) => Ok("answered".into()),
        Some(Err(e)) => Err(("good-client-not-served".into(), e)),
        None => Ok("no good client".into()),
    }
}

/// Outcome of one split-request scenario.
enum SplitOutcome {
    /// the answer parsed and equals the database
    Good,
    /// could not be judged without depending on timing (second segment written too late, or
    /// no end of the answer within the deadline)
    Unjudged(String),
    /// (what, detail)
    Bad(String, String),
}

/// A well-formed request line delivered in two TCP segments: `line[..cut]`, a pause in which the
/// server task runs and sees only the first segment, `line[cut..]`, write side closed (as
/// `RibbitClient` does); the answer is read to EOF and parsed by the client's code.
/// The verdict does not depend on timing for a correct server: it waits for the line terminator
/// (10 s read timeout; the scenario is unjudged if the two writes were more than 5 s apart).
async fn split_request(tcp_port: u16, line: Vec<u8>, cut: usize, endpoint: &'static str, db: Arc<Db>) -> SplitOutcome {
    let Ok(mut s) = tokio::net::TcpStream::connect(("127.0.0.1", tcp_port)).await else {
        return SplitOutcome::Bad("connect-failed".into(), "the server does not accept connections".into());
    };
    let _ = s.set_nodelay(true);
    let t0 = std::time::Instant::now();
    if s.write_all(&line[..cut]).await.is_err() || s.flush().await.is_err() {
        return SplitOutcome::Bad("no-answer".into(), "the server closed the connection while the first segment was being written".into());
    }
    tokio::time::sleep(Duration::from_millis(150)).await;
    // a server that has already answered/closed makes these writes fail or not: either way the
    // answer (or its absence) is what is judged
    let _ = s.write_all(&line[cut..]).await;
    let _ = s.flush().await;
    if t0.elapsed() > Duration::from_secs(5) {
        return SplitOutcome::Unjudged("the two segments were written more than 5 s apart".into());
    }
    let _ = s.shutdown().await;
    let mut buf = Vec::new();
    match tokio::time::timeout(Duration::from_secs(30), s.read_to_end(&mut buf)).await {
        Err(_) => return SplitOutcome::Unjudged("no end of the answer within 30 s".into()),
        Ok(Err(_)) if buf.is_empty() => return SplitOutcome::Bad("no-answer".into(), "the server reset the connection without an answer".into()),
        _ => {}
    }
    if buf.is_empty() {
        return SplitOutcome::Bad("no-answer".into(), "the server closed the connection without an answer".into());
    }
    match crate::util::catch(|| client_parse(&buf)) {
        Err(p) => SplitOutcome::Bad("client-panic".into(), format!("client parse panicked: {p}")),
        Ok(Err(e)) => SplitOutcome::Bad("client-rejects-response".into(), format!("the client rejects the answer: {e}")),
        Ok(Ok(doc)) => {
            if endpoint == "summary" {
                let got: Vec<&str> = doc.rows().iter().filter_map(|r| r.get_raw_by_name("Product", doc.schema())).collect();
                if got == ["wow"] { SplitOutcome::Good } else { SplitOutcome::Bad("summary-mismatch".into(), format!("summary lists {got:?}")) }
            } else {
                match judge(&doc, endpoint, &newest(&db, "wow")) {
                    Ok(()) => SplitOutcome::Good,
                    Err((kind, _, detail)) => SplitOutcome::Bad(kind, detail),
                }
            }
        }
    }
}

/// Every cut position of every request line of the list, concurrently.
async fn split_request_scenarios(tcp_port: u16, tier: Tier) -> (u64, u64, Vec<(String, String, String)>) {
    let db = Arc::new(Db::new("base".into(), vec![Rec::base()]));
    let mut lines: Vec<(&'static str, &'static str, &'static str)> = vec![("v1/products/wow/versions", "\r\n", "versions"), ("v2/products/wow/cdns", "\r\n", "cdns"), ("v1/summary", "\r\n", "summary")];
    if tier == Tier::Thorough {
        lines.extend([("v2/products/wow/versions", "\n", "versions"), ("v1/products/wow/bgdl", "\n", "bgdl"), ("v1/products/wow/cdns", "\r\n", "cdns"), ("v2/products/wow/bgdl", "\r\n", "bgdl")]);
    }
    let mut scen = Vec::new();
    for (cmd, term, ep) in lines {
        let line = format!("{cmd}{term}").into_bytes();
        for cut in 1..line.len() {
            scen.push((cmd, term, ep, line.clone(), cut));
        }
    }
    let results: Vec<(&'static str, &'static str, usize, SplitOutcome)> = futures::stream::iter(scen.into_iter().map(|(cmd, term, ep, line, cut)| {
        let db = db.clone();
        async move { (cmd, term, cut, split_request(tcp_port, line, cut, ep, db).await) }
    }))
    .buffer_unordered(48)
    .collect()
    .await;
    let mut vio = Vec::new();
    let (mut n, mut unjudged) = (0u64, 0u64);
    for (cmd, term, cut, o) in results {
        n += 1;
        match o {
            SplitOutcome::Good => {}
            SplitOutcome::Unjudged(_) => unjudged += 1,
            SplitOutcome::Bad(what, detail) => {
                let ver = &cmd[..2];
                let class = if cut < cmd.len() { "cut-inside-the-command" } else { "cut-at-or-inside-the-line-terminator" };
                vio.push(("split-request".to_string(), format!("split-request|tcp-{ver}|{class}|{what}"), format!("request line {:?} sent as {:?} + 150 ms + {:?}: {detail}", format!("{cmd}{term}"), &format!("{cmd}{term}")[..cut], &format!("{cmd}{term}")[cut..])));
            }
        }
    }
    (n, unjudged, vio)
}

fn permutations(n: usize) -> Vec<Vec<usize>> {
    fn rec(cur: &mut Vec<usize>, used: &mut Vec<bool>, out: &mut Vec<Vec<usize>>) {
        if cur.len() == used.len() {
            out.push(cur.clone());
            return;
        }
        for i in 0..used.len() {
            if !used[i] {
                used[i] = true;
                cur.push(i);
                rec(cur, used, out);
                cur.pop();
                used[i] = false;
            }
        }
    }
    let mut out = Vec::new();
    rec(&mut Vec::new(), &mut vec![false; n], &mut out);
    out
}

pub fn run(tier: Tier, seed: u64) -> i32 {
    let rep = Report::new("C15", tier, seed, Level::ModelChecking);
    // the full bounds take seconds: both tiers run them (the tier only labels the evidence)
    DEEP_DATES.store(tier == Tier::Thorough, std::sync::atomic::Ordering::Relaxed);
    let tier = Tier::Thorough;
    rep.set_rule("(A) every single-record database over product×version×build×keyring×product_config×cdn_path alphabets (products incl. '/', leading '#', edge white space, '..', a 1100-byte name; versions incl. the BPSV and V1-envelope delimiters; builds incl. the u32/i64/u64 boundaries) plus the multi-record time-order databases plus every ordered pair of dates from a date grid (first/15th/last day of every month of 1999, 2000, 2023, 2024, 2025, 2099, 2100; thorough adds 2038, 2106, 2400) as a two-build product in both file orders, restricted to those BuildDatabase::from_file accepts, × product × {versions,cdns,bgdl} × TCP {v1,v2} + v1/summary: server handle_command → both client parsers (mime_parser path of RibbitClient, v1_mime module) → field-by-field comparison with the newest record by an independent calendar / product list comparison; (B) real servers and real clients over loopback for a spanning subset of databases × TCP v1/v2 + HTTP, every ordered pair of misbehaving request classes with one well-formed client in every arrival order, connections held open or closed first, and every well-formed request line of a list delivered in two TCP segments at every cut position; states = scenarios, transitions = requests, traces = scenarios executed");
    rep.assume("a single cut is exhaustive for request segmentation: the server's reader state is the received prefix; the pause between the segments (150 ms) only has to let the server task run once — a correct server's answer does not depend on it");
    rep.assume("'newest' = chronologically newest by the ISO-8601 offset; tied timestamps accept any tied record");
    rep.assume("loopback sockets, plain HTTP; 2 s answer deadline for a well-formed client while misbehaving clients are connected");
    let mut dbs = single_record_dbs();
    dbs.extend(multi_record_dbs());
    dbs.extend(date_dbs(tier));
    function_level(&rep, &dbs);

    // level B
    let mut subset: Vec<Db> = Vec::new();
    let base = Rec::base();
    for v in VERSIONS {
        subset.push(Db::new(format!("1rec version={v:?}"), vec![Rec { version: v.into(), ..base.clone() }]));
    }
    for b in BUILDS {
        subset.push(Db::new(format!("1rec build={b:?}"), vec![Rec { build: b.into(), ..base.clone() }]));
    }
    for k in keyrings() {
        subset.push(Db::new(format!("1rec keyring={k:?}"), vec![Rec { keyring: k, product_config: Some(H1.into()), cdn_path: Some("tpr/x".into()), ..base.clone() }]));
    }
    for p in &products() {
        subset.push(Db::new(format!("1rec product={}", show(p)), vec![Rec { product: p.clone(), ..base.clone() }]));
    }
    // a reply far larger than a socket send buffer (the version is repeated for every region):
    // a server that hands the reply to the socket with a single write() delivers a prefix
    {
        let big = "V".repeat(2 << 20);
        subset.push(Db::new(format!("1rec version={}", show(&big)), vec![Rec { version: big, ..base.clone() }]));
    }
    subset.extend(multi_record_dbs());
    // one database of every calendar class of the date pairs / triples
    let mut seen_class = std::collections::BTreeSet::new();
    for db in date_dbs(Tier::Quick) {
        if seen_class.insert(db.label.clone()) {
            subset.push(db);
        }
    }
    let rt = tokio::runtime::Builder::new_multi_thread().worker_threads(8).enable_all().build().expect("runtime");
    let n_subset = subset.len();
    let labels: Vec<String> = subset.iter().map(Db::describe).collect();
    let sock_results: Vec<Vec<(String, String, String)>> = rt.block_on(async { futures::stream::iter(subset.into_iter().map(socket_level_db)).buffered(8).collect().await });
    for (i, vio) in sock_results.into_iter().enumerate() {
        rep.add_outcome(crate::util::fnv64_str(&format!("sock|{}", vio.len())));
        for (kind, sig, detail) in vio {
            if kind == "machinery" {
                rep.machinery_error(&detail);
            } else {
                rep.violation(&kind, &sig, json!({"level": "socket", "db": labels[i]}), &detail);
            }
        }
    }
    rep.bump("socket_level_databases", n_subset as u64);

    // robustness
    let mut split_counts = (0u64, 0u64);
    let robust: (u64, Vec<(String, String, String)>) = rt.block_on(async {
        let db = Db::new("base".into(), vec![Rec::base()]);
        let Some((state, _sc)) = load_state(&db) else { return (0, vec![("machinery".into(), "machinery".into(), "base database rejected".into())]) };
        // as at the socket level: a pass in which the server never owned its port is void
        let mut lost = String::new();
        for _ in 0..PORT_ATTEMPTS {
        let srv = match start_servers(state.clone()).await {
            Ok(srv) => srv,
            Err(f) => return (0, vec![f.report("robustness pass")]),
        };
        let mut vio = Vec::new();
        let mut n = 0u64;
        let mut scen: Vec<(Vec<Bad>, Vec<usize>, bool)> = Vec::new();
        for a in BADS {
            for order in permutations(2) {
                for cf in [false, true] {
                    scen.push((vec![a], order.clone(), cf));
                }
            }
        }
        for (i, a) in BADS.iter().enumerate() {
            for b in BADS.iter().skip(if tier == Tier::Thorough { 0 } else { i }) {
                if tier == Tier::Quick && (*a == Bad::Long8M && *b == Bad::Long8M) {
                    continue;
                }
                for order in permutations(3) {
                    for cf in [false, true] {
                        scen.push((vec![*a, *b], order.clone(), cf));
                    }
                }
            }
        }
        let port = srv.tcp_port;
        let results: Vec<((Vec<Bad>, Vec<usize>, bool), Result<String, (String, String)>)> = futures::stream::iter(scen.into_iter().map(|(b, o, c)| async move {
            let r = robustness_scenario(port, b.clone(), o.clone(), c).await;
            ((b, o, c), r)
        }))
        .buffer_unordered(16)
        .collect()
        .await;
        for ((b, o, c), r) in results {
            n += 1;
            if let Err((kind, detail)) = r {
                let mut classes: Vec<String> = b.iter().map(|x| format!("{x:?}")).collect();
                classes.sort();
                vio.push((kind.clone(), format!("{kind}|bad={}", classes.join("+")), format!("bad clients {b:?}, arrival order {o:?} (last index = good client), closed first = {c}: {detail}")));
            }
        }
        // well-formed request lines that arrive in two segments
        let (n_split, unjudged_split, split_vio) = split_request_scenarios(port, tier).await;
        vio.extend(split_vio);
        split_counts = (n_split, unjudged_split);
        // the server must still be alive and answering
        let rc = cascette_protocol::RibbitClient::new(format!("tcp://127.0.0.1:{port}")).expect("client");
        if tokio::time::timeout(Duration::from_secs(3), rc.query("v1/products/wow/versions")).await.map(|r| r.is_ok()) != Ok(true) || srv.tcp.task.is_finished() {
            vio.push(("server-wedged".into(), "server-wedged".into(), "after all robustness scenarios the server no longer answers a well-formed request".into()));
        }
        let lost_now = srv.lost_port().await;
        srv.stop();
        if let Some(why) = lost_now {
            PORT_RACES.fetch_add(1, std::sync::atomic::Ordering::Relaxed);
            lost = why;
            continue;
        }
        return (n, vio);
        }
        (0, vec![("machinery".into(), "machinery".into(), format!("robustness: {PORT_ATTEMPTS} attempts in a row lost a server port to another listener ({lost})"))])
    });
    drop(rt);
    // a server that died at start-up is reported as such; that no scenario ran is then no news
    let robust_started = !robust.1.iter().any(|v| v.1.ends_with("|at-start-up"));
    for (kind, sig, detail) in robust.1 {
        if kind == "machinery" {
            rep.machinery_error(&detail);
        } else {
            rep.violation(&kind, &sig, json!({"level": "robustness"}), &detail);
        }
    }
    rep.bump("robustness_scenarios", robust.0);
    rep.bump("socket_scenarios_void_for_a_lost_port_and_run_again", PORT_RACES.load(std::sync::atomic::Ordering::Relaxed));
    rep.bump("server_starts_without_port_reservation", UNRESERVED_STARTS.load(std::sync::atomic::Ordering::Relaxed));
    rep.bump("split_request_scenarios", split_counts.0);
    rep.bump("split_request_scenarios_unjudged_for_timing", split_counts.1);
    if !robust_started {
        rep.cap_hit("the robustness pass did not run: the server died at start-up (reported)");
    } else if split_counts.0 == 0 {
        rep.machinery_error("no split-request scenario ran");
    } else if split_counts.1 * 2 > split_counts.0 {
        rep.cap_hit("more than half of the split-request scenarios could not be judged (machine too loaded)");
    }
    rep.add_evaluations(robust.0 + split_counts.0 + n_subset as u64 * 9);
    rep.add_nontrivial_count(robust.0 + split_counts.0 + n_subset as u64 * 9);
    rep.add_states(dbs.len() as u64 + n_subset as u64 + robust.0 + split_counts.0);
    rep.add_transitions(dbs.len() as u64 * 7 + n_subset as u64 * 9 + robust.0 * 3 + split_counts.0);
    rep.add_traces(dbs.len() as u64 + n_subset as u64 + robust.0 + split_counts.0);
    rep.sample(json!({"database": dbs[0].label, "records": [dbs[0].recs[0].json(1)]}));
    rep.sample(json!({"database": multi_record_dbs()[2].label}));
    if let Some(d) = date_dbs(Tier::Quick).into_iter().find(|d| d.note.contains("2024-01-15") && d.note.contains("2024-09-15")) {
        rep.sample(json!({"database": d.describe()}));
    }
    rep.sample(json!({"split_request": "\"v1/products/wow/ver\" + 150 ms + \"sions\\r\\n\" (every cut position of every request line)"}));
    rep.sample(json!({"robustness": "bad clients [Long8M, NeverTerminated], order [0,2,1], held open"}));
    // vacuity guard: rejected and accepted databases, and for several builds per product both the
    // first and a later record of the file must have been seen served
    if rep.outcomes() < 6 {
        rep.machinery_error("vacuous: fewer than 6 distinct outcomes (rejected / accepted databases, position of the served record in the file)");
    }
    rep.finish()
}

pub fn replay(w: &Value) -> i32 {
    // function-level witnesses carry the records
    let wit = &w["witness"];
    if let Some(recs) = wit["records"].as_array() {
        let recs: Vec<Rec> = recs
            .iter()
            .map(|r| Rec {
                product: r["product"].as_str().unwrap_or("").into(),
                version: r["version"].as_str().unwrap_or("").into(),
                build: r["build"].as_str().unwrap_or("").into(),
                keyring: r["keyring"].as_str().map(String::from),
                product_config: r["product_config"].as_str().map(String::from),
                cdn_path: r["cdn_path"].as_str().map(String::from),
                build_time: r["build_time"].as_str().unwrap_or("").into(),
            })
            .collect();
        let db = Db::new("replay".into(), recs);
        let rep = Report::new("C15", Tier::Quick, 0, Level::ModelChecking);
        function_level(&rep, &[db]);
        let v = rep.violations_snapshot();
        for x in &v {
            println!("violates: {} — {}", x.sig, x.detail);
        }
        return i32::from(!v.is_empty());
    }
    println!("socket-level and robustness witnesses are re-run by `./check C15 quick` (scenario text is in the replay file)");
    2
}
