//! C15 — what the Ribbit server emits, the Ribbit client reads back as the database says.
//!
//! (A) function level: every build database over small field alphabets that
//! `BuildDatabase::from_file` accepts × product × endpoint × TCP v1/v2: the bytes produced
//! by the server's own `handle_command` are parsed with the client's own code path
//! (`is_v1_mime_response` → `parse_v1_mime_to_bpsv` | `BpsvDocument::parse`) and every field
//! of every row must equal the record of the newest build.
//! (B) the real pair over loopback (`tcp::start_server`, `http::start_server`; `RibbitClient`,
//! `TactClient`) for a spanning subset of databases and for every request-line class from
//! 1–2 misbehaving clients in every arrival order while a well-formed client must still be
//! answered.

use crate::report::{Level, Report, Tier};
use crate::util::{Scratch, par_map};
use cascette_formats::bpsv::BpsvDocument;
use cascette_ribbit::config::ServerConfig;
use cascette_ribbit::server::AppState;
use futures::StreamExt;
use serde_json::{Value, json};
use std::sync::Arc;
use std::time::Duration;
use tokio::io::{AsyncReadExt, AsyncWriteExt};

const H1: &str = "0123456789abcdef0123456789abcdef";
const H2: &str = "fedcba9876543210fedcba9876543210";

#[derive(Clone, Debug)]
pub struct Rec {
    pub product: String,
    pub version: String,
    pub build: String,
    pub keyring: Option<String>,
    pub product_config: Option<String>,
    pub cdn_path: Option<String>,
    pub build_time: String,
}

impl Rec {
    fn base() -> Rec {
        Rec { product: "wow".into(), version: "1.0.0".into(), build: "1".into(), keyring: None, product_config: None, cdn_path: None, build_time: "2024-01-01T00:00:00+00:00".into() }
    }
    fn json(&self, id: u64) -> Value {
        let mut v = json!({
            "id": id, "product": self.product, "version": self.version, "build": self.build,
            "build_config": H1, "cdn_config": H2, "keyring": self.keyring, "product_config": self.product_config,
            "build_time": self.build_time,
            "encoding_ekey": "aaaabbbbccccddddeeeeffffaaaaffff", "root_ekey": "bbbbccccddddeeeeffffaaaabbbbcccc",
            "install_ekey": "ccccddddeeeeffffaaaabbbbccccdddd", "download_ekey": "ddddeeeeffffaaaabbbbccccddddeeee",
        });
        if let Some(p) = &self.cdn_path {
            v["cdn_path"] = json!(p);
        }
        v
    }
}

const PRODUCTS: [&str; 3] = ["wow", "a_b", "a.b"];
const VERSIONS: [&str; 7] = ["1.0.0", "1", "1 0", "a|b", "x\ny", "##", "v\u{e9}"];
const BUILDS: [&str; 7] = ["1", "0", "65536", "4294967296", "01", "-1", "12a"];

fn keyrings() -> Vec<Option<String>> {
    vec![None, Some(H2.to_string()), Some("zz".to_string())]
}

/// Seconds since epoch for the timestamps used here (fixed small set; hand-computed offsets).
fn actual_time(ts: &str) -> Option<i64> {
    // format: YYYY-MM-DDTHH:MM:SS+HH:MM with fixed date 2024-01-01/02
    let (dt, off) = ts.split_at(19);
    let day: i64 = dt[8..10].parse().ok()?;
    let h: i64 = dt[11..13].parse().ok()?;
    let m: i64 = dt[14..16].parse().ok()?;
    let s: i64 = dt[17..19].parse().ok()?;
    let sign = if off.starts_with('-') { -1 } else { 1 };
    let oh: i64 = off[1..3].parse().ok()?;
    let om: i64 = off[4..6].parse().ok()?;
    Some(day * 86400 + h * 3600 + m * 60 + s - sign * (oh * 3600 + om * 60))
}

#[derive(Clone, Debug)]
pub struct Db {
    pub recs: Vec<Rec>,
    pub label: String,
}

fn single_record_dbs() -> Vec<Db> {
    let mut out = Vec::new();
    for p in PRODUCTS {
        for v in VERSIONS {
            for b in BUILDS {
                for k in keyrings() {
                    for pc in [None, Some(H1.to_string())] {
                        for cp in [None, Some("tpr/x".to_string())] {
                            let r = Rec { product: p.into(), version: v.into(), build: b.into(), keyring: k.clone(), product_config: pc.clone(), cdn_path: cp.clone(), ..Rec::base() };
                            out.push(Db { label: format!("1rec product={p:?} version={v:?} build={b:?} keyring={k:?} product_config={} cdn_path={}", pc.is_some(), cp.is_some()), recs: vec![r] });
                        }
                    }
                }
            }
        }
    }
    out
}

fn multi_record_dbs() -> Vec<Db> {
    let mut out = Vec::new();
    let times: [(&str, &str, &str); 4] = [
        ("ascending-same-offset", "2024-01-01T00:00:00+00:00", "2024-01-01T06:00:00+00:00"),
        ("mixed-offsets-lexicographic-differs", "2024-01-01T10:00:00+09:00", "2024-01-01T05:00:00+00:00"),
        ("mixed-offsets-negative", "2024-01-01T20:00:00-08:00", "2024-01-02T01:00:00+00:00"),
        ("equal", "2024-01-01T00:00:00+00:00", "2024-01-01T00:00:00+00:00"),
    ];
    for (name, t1, t2) in times {
        for swap in [false, true] {
            let mut a = Rec { version: "1.0.0".into(), build: "100".into(), build_time: t1.into(), ..Rec::base() };
            let mut b = Rec { version: "2.0.0".into(), build: "200".into(), build_time: t2.into(), ..Rec::base() };
            if swap {
                std::mem::swap(&mut a, &mut b);
            }
            out.push(Db { label: format!("2rec same product, times {name}, file order swapped={swap}"), recs: vec![a, b] });
        }
    }
    // two products
    out.push(Db { label: "2rec two products".into(), recs: vec![Rec::base(), Rec { product: "a_b".into(), version: "9.9".into(), build: "9".into(), ..Rec::base() }] });
    // three records, newest in the middle
    out.push(Db {
        label: "3rec newest in the middle".into(),
        recs: vec![
            Rec { version: "1".into(), build: "1".into(), build_time: "2024-01-01T00:00:00+00:00".into(), ..Rec::base() },
            Rec { version: "3".into(), build: "3".into(), build_time: "2024-01-01T09:00:00+00:00".into(), ..Rec::base() },
            Rec { version: "2".into(), build: "2".into(), build_time: "2024-01-01T03:00:00+00:00".into(), ..Rec::base() },
        ],
    });
    out
}

fn load_state(db: &Db) -> Option<(Arc<AppState>, Scratch)> {
    let sc = Scratch::new("c15");
    let path = sc.path.join("builds.json");
    let arr: Vec<Value> = db.recs.iter().enumerate().map(|(i, r)| r.json(i as u64 + 1)).collect();
    std::fs::write(&path, serde_json::to_vec(&arr).ok()?).ok()?;
    let cfg = ServerConfig {
        http_bind: "127.0.0.1:0".parse().ok()?,
        tcp_bind: "127.0.0.1:0".parse().ok()?,
        builds: path,
        cdn_hosts: "cdn.test.example".to_string(),
        cdn_path: "tpr/default".to_string(),
        tls_cert: None,
        tls_key: None,
    };
    AppState::new(&cfg).ok().map(|s| (Arc::new(s), sc))
}

/// The newest record(s) of a product by actual time (ties: any of the tied records).
fn newest<'a>(db: &'a Db, product: &str) -> Vec<&'a Rec> {
    let recs: Vec<&Rec> = db.recs.iter().filter(|r| r.product == product).collect();
    let best = recs.iter().filter_map(|r| actual_time(&r.build_time)).max();
    recs.into_iter().filter(|r| actual_time(&r.build_time) == best).collect()
}

fn client_parse(raw: &[u8]) -> Result<BpsvDocument, String> {
    // exactly what RibbitClient::query_v1_mime does with the raw bytes
    if cascette_protocol::mime_parser::is_v1_mime_response(raw) {
        cascette_protocol::mime_parser::parse_v1_mime_to_bpsv(raw).map_err(|e| e.to_string())
    } else {
        <BpsvDocument as cascette_formats::CascFormat>::parse(raw).map_err(|e| e.to_string())
    }
}

/// Compare the parsed document with the expected record. Returns Err((kind, field, detail)).
fn judge(doc: &BpsvDocument, endpoint: &str, cands: &[&Rec]) -> Result<(), (String, String, String)> {
    let schema = doc.schema();
    let mut last_err = None;
    'cand: for rec in cands {
        let expect: Vec<(&str, String)> = match endpoint {
            "versions" | "bgdl" => vec![
                ("BuildConfig", H1.to_string()),
                ("CDNConfig", H2.to_string()),
                ("KeyRing", rec.keyring.clone().unwrap_or_default()),
                ("BuildId", rec.build.clone()),
                ("VersionsName", rec.version.clone()),
                ("ProductConfig", rec.product_config.clone().unwrap_or_default()),
            ],
            _ => vec![
                ("Path", rec.cdn_path.clone().unwrap_or_else(|| "tpr/default".to_string())),
                ("Hosts", "cdn.test.example".to_string()),
                ("ConfigPath", rec.cdn_path.clone().unwrap_or_else(|| "tpr/default".to_string())),
            ],
        };
        let n_regions = if endpoint == "cdns" { 5 } else { 7 };
        if doc.rows().len() != n_regions {
            last_err = Some(("row-count".to_string(), "rows".to_string(), format!("{} rows parsed, the server emits one per region ({n_regions})", doc.rows().len())));
            continue 'cand;
        }
        for row in doc.rows() {
            for (name, want) in &expect {
                let got = row.get_raw_by_name(name, schema);
                if got != Some(want.as_str()) {
                    last_err = Some(("field-mismatch".to_string(), (*name).to_string(), format!("field {name}: client reads {got:?}, database says {want:?}")));
                    continue 'cand;
                }
            }
        }
        return Ok(());
    }
    Err(last_err.unwrap_or_else(|| ("no-candidate".into(), String::new(), "no record for product".into())))
}

fn field_class(db: &Db, field: &str) -> String {
    // signature helper: which alphabet value of the offending field
    let r = &db.recs[0];
    match field {
        "VersionsName" => format!("version={:?}", r.version),
        "BuildId" => format!("build={:?}", r.build),
        "KeyRing" => format!("keyring={:?}", r.keyring),
        _ => field.to_string(),
    }
}

fn function_level(rep: &Report, dbs: &[Db]) {
    let results = par_map(dbs.len(), |i| {
        let db = &dbs[i];
        let Some((state, _sc)) = load_state(db) else { return (false, Vec::new(), 0u64) };
        let mut vio = Vec::new();
        let mut evals = 0u64;
        let mut products: Vec<&str> = db.recs.iter().map(|r| r.product.as_str()).collect();
        products.sort_unstable();
        products.dedup();
        for p in products {
            let cands = newest(db, p);
            for ep in ["versions", "cdns", "bgdl"] {
                for ver in ["v1", "v2"] {
                    evals += 1;
                    let cmd = format!("{ver}/products/{p}/{ep}");
                    let out = crate::util::catch(|| cascette_ribbit::tcp::handlers::handle_command(&cmd, &state));
                    let text = match out {
                        Err(pmsg) => {
                            vio.push(("server-panic".to_string(), format!("server-panic|{ver}"), format!("handle_command({cmd:?}) panicked: {pmsg}")));
                            continue;
                        }
                        Ok(Err(e)) => {
                            vio.push(("server-error".to_string(), format!("server-error|{ver}|{ep}"), format!("well-formed request {cmd:?} on an accepted database got an error: {e}")));
                            continue;
                        }
                        Ok(Ok(t)) => t,
                    };
                    match crate::util::catch(|| client_parse(text.as_bytes())) {
                        Err(pmsg) => vio.push(("client-panic".to_string(), format!("client-panic|{ver}"), format!("client parse of the response to {cmd:?} panicked: {pmsg}"))),
                        Ok(Err(e)) => {
                            // which field made it unreadable? sign by the non-base field values of the newest record
                            let r = cands[0];
                            let mut why = Vec::new();
                            if r.version != "1.0.0" {
                                why.push(format!("version={:?}", r.version));
                            }
                            if r.build != "1" {
                                why.push(format!("build={:?}", r.build));
                            }
                            if r.keyring.as_deref().is_some_and(|k| k != H2) {
                                why.push(format!("keyring={:?}", r.keyring));
                            }
                            // only fields that this endpoint carries can be the cause
                            if ep == "cdns" {
                                why.clear();
                                why.push("cdns".into());
                            }
                            vio.push(("client-rejects-response".to_string(), format!("client-rejects-response|{ver}|{}", why.join(",")), format!("{}: response to {cmd:?} is rejected by the client: {e}", db.label)));
                        }
                        Ok(Ok(doc)) => {
                            if let Err((kind, field, detail)) = judge(&doc, ep, &cands) {
                                let fc = if db.recs.len() == 1 { field_class(db, &field) } else { db.label.clone() };
                                vio.push((kind.clone(), format!("{kind}|{ver}|{field}|{fc}"), format!("{}: {cmd}: {detail}", db.label)));
                            }
                        }
                    }
                }
            }
        }
        (true, vio, evals)
    });
    let mut accepted = 0u64;
    let mut evals = 0u64;
    // Report only minimal causes: a failing single-record database is *explained* when a database
    // whose deviations from the base record are a proper subset already fails with the same
    // kind and transport. Databases are visited by increasing number of deviations.
    let devs = |db: &Db| -> Vec<String> {
        if db.recs.len() != 1 {
            return vec![db.label.clone()];
        }
        let r = &db.recs[0];
        let b = Rec::base();
        let mut d = Vec::new();
        if r.product != b.product {
            d.push(format!("product={:?}", r.product));
        }
        if r.version != b.version {
            d.push(format!("version={:?}", r.version));
        }
        if r.build != b.build {
            d.push(format!("build={:?}", r.build));
        }
        if r.keyring != b.keyring {
            d.push(format!("keyring={:?}", r.keyring));
        }
        if r.product_config != b.product_config {
            d.push("product_config".to_string());
        }
        if r.cdn_path != b.cdn_path {
            d.push("cdn_path".to_string());
        }
        d
    };
    let mut order: Vec<usize> = (0..dbs.len()).collect();
    order.sort_by_key(|i| devs(&dbs[*i]).len());
    let mut failing: Vec<(String, Vec<String>)> = Vec::new(); // (kind|transport|endpoint-class, deviation set)
    let mut results: Vec<Option<(bool, Vec<(String, String, String)>, u64)>> = results.into_iter().map(Some).collect();
    for i in order {
        let (ok, vio, e) = results[i].take().unwrap();
        if ok {
            accepted += 1;
        }
        evals += e;
        rep.add_outcome(crate::util::fnv64_str(&format!("{ok}|{}", vio.len())));
        let d = devs(&dbs[i]);
        for (kind, sig, detail) in vio {
            // sig = kind|transport|...: the first two components identify the clause and transport
            let head: String = sig.split('|').take(2).collect::<Vec<_>>().join("|");
            let explained = failing.iter().any(|(h, fd)| *h == head && fd.len() < d.len() && fd.iter().all(|x| d.contains(x)));
            if explained {
                rep.bump("violations_explained_by_a_smaller_deviation_set", 1);
                continue;
            }
            if !failing.iter().any(|(h, fd)| *h == head && *fd == d) {
                failing.push((head.clone(), d.clone()));
            }
            let sig2 = format!("{head}|{}", d.join(","));
            rep.violation(&kind, &sig2, json!({"level": "function", "db": dbs[i].label, "records": dbs[i].recs.iter().enumerate().map(|(j, r)| r.json(j as u64 + 1)).collect::<Vec<_>>()}), &detail);
        }
    }
    rep.add_evaluations(evals);
    rep.add_nontrivial_count(evals);
    rep.bump("databases_generated", dbs.len() as u64);
    rep.bump("databases_accepted_by_validator", accepted);
}

// ---------------------------------------------------------------- level B: real sockets

async fn free_port() -> u16 {
    let l = tokio::net::TcpListener::bind("127.0.0.1:0").await.expect("bind");
    l.local_addr().map(|a| a.port()).unwrap_or(0)
}

struct Servers {
    tcp_port: u16,
    http_port: u16,
    tcp_task: tokio::task::JoinHandle<()>,
    http_task: tokio::task::JoinHandle<()>,
}

async fn start_servers(state: Arc<AppState>) -> Option<Servers> {
    for _ in 0..5 {
        let tcp_port = free_port().await;
        let http_port = free_port().await;
        let s1 = state.clone();
        let s2 = state.clone();
        let tcp_task = tokio::spawn(async move {
            let _ = cascette_ribbit::tcp::start_server(format!("127.0.0.1:{tcp_port}").parse().unwrap(), s1).await;
        });
        let http_task = tokio::spawn(async move {
            let _ = cascette_ribbit::http::start_server(format!("127.0.0.1:{http_port}").parse().unwrap(), s2).await;
        });
        // wait until both accept
        let mut ok = false;
        for _ in 0..100 {
            let a = tokio::net::TcpStream::connect(("127.0.0.1", tcp_port)).await.is_ok();
            let b = tokio::net::TcpStream::connect(("127.0.0.1", http_port)).await.is_ok();
            if a && b {
                ok = true;
                break;
            }
            if tcp_task.is_finished() || http_task.is_finished() {
                break;
            }
            tokio::time::sleep(Duration::from_millis(5)).await;
        }
        if ok {
            return Some(Servers { tcp_port, http_port, tcp_task, http_task });
        }
        tcp_task.abort();
        http_task.abort();
    }
    None
}

async fn socket_level_db(db: Db) -> Vec<(String, String, String)> {
    let mut vio = Vec::new();
    let Some((state, _sc)) = load_state(&db) else { return vio };
    let Some(srv) = start_servers(state).await else {
        return vec![("machinery".into(), "machinery".into(), "could not start servers".into())];
    };
    let mut products: Vec<String> = db.recs.iter().map(|r| r.product.clone()).collect();
    products.sort();
    products.dedup();
    for p in &products {
        let cands = newest(&db, p);
        for ep in ["versions", "cdns", "bgdl"] {
            // TCP v1 and v2 through the real RibbitClient
            for ver in ["v1", "v2"] {
                let rc = cascette_protocol::RibbitClient::new(format!("tcp://127.0.0.1:{}", srv.tcp_port)).expect("ribbit client");
                let r = tokio::time::timeout(Duration::from_secs(5), rc.query(&format!("{ver}/products/{p}/{ep}"))).await;
                match r {
                    Err(_) => vio.push(("no-answer".into(), format!("no-answer|tcp-{ver}"), format!("{}: TCP {ver} {p}/{ep}: no answer within 5 s", db.label))),
                    Ok(Err(e)) => vio.push(("client-rejects-response".into(), format!("socket|client-rejects-response|tcp-{ver}|{}", sig_fields(&cands, ep)), format!("{}: TCP {ver} {p}/{ep}: {e}", db.label))),
                    Ok(Ok(doc)) => {
                        if let Err((kind, field, detail)) = judge(&doc, ep, &cands) {
                            vio.push((kind.clone(), format!("socket|{kind}|tcp-{ver}|{field}|{}", sig_fields(&cands, ep)), format!("{}: TCP {ver} {p}/{ep}: {detail}", db.label)));
                        }
                    }
                }
            }
            // HTTP through the real TactClient
            let tc = cascette_protocol::TactClient::new(format!("http://127.0.0.1:{}", srv.http_port), false).expect("tact client");
            let r = tokio::time::timeout(Duration::from_secs(5), tc.query(&format!("v1/products/{p}/{ep}"))).await;
            match r {
                Err(_) => vio.push(("no-answer".into(), "no-answer|http".into(), format!("{}: HTTP {p}/{ep}: no answer within 5 s", db.label))),
                Ok(Err(e)) => vio.push(("client-rejects-response".into(), format!("socket|client-rejects-response|http|{}", sig_fields(&cands, ep)), format!("{}: HTTP {p}/{ep}: {e}", db.label))),
                Ok(Ok(doc)) => {
                    if let Err((kind, field, detail)) = judge(&doc, ep, &cands) {
                        vio.push((kind.clone(), format!("socket|{kind}|http|{field}|{}", sig_fields(&cands, ep)), format!("{}: HTTP {p}/{ep}: {detail}", db.label)));
                    }
                }
            }
        }
    }
    if srv.tcp_task.is_finished() {
        vio.push(("server-died".into(), "server-died|tcp".into(), format!("{}: the TCP server task ended", db.label)));
    }
    if srv.http_task.is_finished() {
        vio.push(("server-died".into(), "server-died|http".into(), format!("{}: the HTTP server task ended", db.label)));
    }
    srv.tcp_task.abort();
    srv.http_task.abort();
    vio
}

fn sig_fields(cands: &[&Rec], ep: &str) -> String {
    if cands.len() != 1 {
        return "tie".into();
    }
    let r = cands[0];
    if ep == "cdns" {
        return format!("cdn_path={}", r.cdn_path.is_some());
    }
    let mut why = Vec::new();
    if r.version != "1.0.0" && r.version != "2.0.0" {
        why.push(format!("version={:?}", r.version));
    }
    if !r.build.chars().all(|c| c.is_ascii_digit()) || r.build.len() > 9 {
        why.push(format!("build={:?}", r.build));
    }
    if r.keyring.as_deref().is_some_and(|k| k != H2) {
        why.push(format!("keyring={:?}", r.keyring));
    }
    why.join(",")
}

#[derive(Clone, Copy, Debug, PartialEq)]
enum Bad {
    UnknownProduct,
    WrongArity,
    Empty,
    Long64K,
    Long8M,
    NonUtf8,
    NeverTerminated,
    ConnectClose,
}

const BADS: [Bad; 8] = [Bad::UnknownProduct, Bad::WrongArity, Bad::Empty, Bad::Long64K, Bad::Long8M, Bad::NonUtf8, Bad::NeverTerminated, Bad::ConnectClose];

fn bad_payload(b: Bad) -> Vec<u8> {
    match b {
        Bad::UnknownProduct => b"v1/products/nosuch/versions\r\n".to_vec(),
        Bad::WrongArity => b"v1/products/wow\r\n".to_vec(),
        Bad::Empty => b"\r\n".to_vec(),
        Bad::Long64K => {
            let mut v = vec![b'a'; 64 * 1024];
            v.extend_from_slice(b"\r\n");
            v
        }
        Bad::Long8M => vec![b'a'; 8 * 1024 * 1024], // no terminator either: must not be buffered forever to the detriment of others
        Bad::NonUtf8 => b"v1/products/\xff\xfe\x80/versions\r\n".to_vec(),
        Bad::NeverTerminated => b"v1/products/wow/versions".to_vec(),
        Bad::ConnectClose => Vec::new(),
    }
}

/// One robustness scenario: bad clients `bads` and one good client in arrival order `order`
/// (indices into [bad0, bad1, good]); bad connections stay open until the good client was judged
/// unless `close_first`.
async fn robustness_scenario(tcp_port: u16, bads: Vec<Bad>, order: Vec<usize>, close_first: bool) -> Result<String, (String, String)> {
    let mut open: Vec<tokio::net::TcpStream> = Vec::new();
    let mut good_result: Option<Result<(), String>> = None;
    for who in order {
        if who < bads.len() {
            let b = bads[who];
            let Ok(mut s) = tokio::net::TcpStream::connect(("127.0.0.1", tcp_port)).await else {
                return Err(("server-not-accepting".into(), format!("could not connect bad client {b:?}")));
            };
            if b != Bad::ConnectClose {
                let payload = bad_payload(b);
                // do not wait for the server to drain 8 MiB: write with a deadline
                let _ = tokio::time::timeout(Duration::from_millis(500), s.write_all(&payload)).await;
                let _ = s.flush().await;
                // a terminated bad request gets an error reply or a closed connection
                if payload.ends_with(b"\n") {
                    let mut buf = Vec::new();
                    let _ = tokio::time::timeout(Duration::from_secs(2), s.read_to_end(&mut buf)).await;
                }
            }
            if close_first || b == Bad::ConnectClose {
                drop(s);
            } else {
                open.push(s);
            }
        } else {
            let rc = cascette_protocol::RibbitClient::new(format!("tcp://127.0.0.1:{tcp_port}")).expect("client");
            let r = tokio::time::timeout(Duration::from_secs(2), rc.query("v1/products/wow/versions")).await;
            good_result = Some(match r {
                Err(_) => Err("a well-formed client was not answered within 2 s".to_string()),
                Ok(Err(e)) => Err(format!("a well-formed client got an error: {e}")),
                Ok(Ok(_)) => Ok(()),
            });
        }
    }
    drop(open);
    match good_result {
        Some(Ok(())) => Ok("answered".into()),
        Some(Err(e)) => Err(("good-client-not-served".into(), e)),
        None => Ok("no good client".into()),
    }
}

fn permutations(n: usize) -> Vec<Vec<usize>> {
    fn rec(cur: &mut Vec<usize>, used: &mut Vec<bool>, out: &mut Vec<Vec<usize>>) {
        if cur.len() == used.len() {
            out.push(cur.clone());
            return;
        }
        for i in 0..used.len() {
            if !used[i] {
                used[i] = true;
                cur.push(i);
                rec(cur, used, out);
                cur.pop();
                used[i] = false;
            }
        }
    }
    let mut out = Vec::new();
    rec(&mut Vec::new(), &mut vec![false; n], &mut out);
    out
}

pub fn run(tier: Tier, seed: u64) -> i32 {
    let rep = Report::new("C15", tier, seed, Level::ModelChecking);
    rep.set_rule("(A) every single-record database over product×version×build×keyring×product_config×cdn_path alphabets plus the multi-record time-order databases, restricted to those BuildDatabase::from_file accepts, × product × {versions,cdns,bgdl} × TCP {v1,v2}: server handle_command → client parse → field-by-field comparison with the newest record; (B) real servers and real clients over loopback for a spanning subset of databases × TCP v1/v2 + HTTP, and every multiset of ≤2 (thorough: ordered pairs) misbehaving request classes with one well-formed client in every arrival order, connections held open or closed first; states = scenarios, transitions = requests, traces = scenarios executed");
    rep.assume("'newest' = chronologically newest by the ISO-8601 offset; tied timestamps accept any tied record");
    rep.assume("loopback sockets, plain HTTP; 2 s answer deadline for a well-formed client while misbehaving clients are connected");
    let mut dbs = single_record_dbs();
    dbs.extend(multi_record_dbs());
    function_level(&rep, &dbs);

    // level B
    let mut subset: Vec<Db> = Vec::new();
    let base = Rec::base();
    for v in VERSIONS {
        subset.push(Db { label: format!("1rec version={v:?}"), recs: vec![Rec { version: v.into(), ..base.clone() }] });
    }
    for b in BUILDS {
        subset.push(Db { label: format!("1rec build={b:?}"), recs: vec![Rec { build: b.into(), ..base.clone() }] });
    }
    for k in keyrings() {
        subset.push(Db { label: format!("1rec keyring={k:?}"), recs: vec![Rec { keyring: k, product_config: Some(H1.into()), cdn_path: Some("tpr/x".into()), ..base.clone() }] });
    }
    for p in PRODUCTS {
        subset.push(Db { label: format!("1rec product={p:?}"), recs: vec![Rec { product: p.into(), ..base.clone() }] });
    }
    subset.extend(multi_record_dbs());
    let rt = tokio::runtime::Builder::new_multi_thread().worker_threads(8).enable_all().build().expect("runtime");
    let n_subset = subset.len();
    let labels: Vec<String> = subset.iter().map(|d| d.label.clone()).collect();
    let sock_results: Vec<Vec<(String, String, String)>> = rt.block_on(async { futures::stream::iter(subset.into_iter().map(socket_level_db)).buffered(8).collect().await });
    for (i, vio) in sock_results.into_iter().enumerate() {
        rep.add_outcome(crate::util::fnv64_str(&format!("sock|{}", vio.len())));
        for (kind, sig, detail) in vio {
            if kind == "machinery" {
                rep.machinery_error(&detail);
            } else {
                rep.violation(&kind, &sig, json!({"level": "socket", "db": labels[i]}), &detail);
            }
        }
    }
    rep.bump("socket_level_databases", n_subset as u64);

    // robustness
    let robust: (u64, Vec<(String, String, String)>) = rt.block_on(async {
        let db = Db { label: "base".into(), recs: vec![Rec::base()] };
        let Some((state, _sc)) = load_state(&db) else { return (0, vec![("machinery".into(), "machinery".into(), "base database rejected".into())]) };
        let Some(srv) = start_servers(state).await else { return (0, vec![("machinery".into(), "machinery".into(), "could not start servers".into())]) };
        let mut vio = Vec::new();
        let mut n = 0u64;
        let mut scen: Vec<(Vec<Bad>, Vec<usize>, bool)> = Vec::new();
        for a in BADS {
            for order in permutations(2) {
                for cf in [false, true] {
                    scen.push((vec![a], order.clone(), cf));
                }
            }
        }
        for (i, a) in BADS.iter().enumerate() {
            for b in BADS.iter().skip(if tier == Tier::Thorough { 0 } else { i }) {
                if tier == Tier::Quick && (*a == Bad::Long8M && *b == Bad::Long8M) {
                    continue;
                }
                for order in permutations(3) {
                    for cf in [false, true] {
                        scen.push((vec![*a, *b], order.clone(), cf));
                    }
                }
            }
        }
        let port = srv.tcp_port;
        let results: Vec<((Vec<Bad>, Vec<usize>, bool), Result<String, (String, String)>)> = futures::stream::iter(scen.into_iter().map(|(b, o, c)| async move {
            let r = robustness_scenario(port, b.clone(), o.clone(), c).await;
            ((b, o, c), r)
        }))
        .buffer_unordered(16)
        .collect()
        .await;
        for ((b, o, c), r) in results {
            n += 1;
            if let Err((kind, detail)) = r {
                let mut classes: Vec<String> = b.iter().map(|x| format!("{x:?}")).collect();
                classes.sort();
                vio.push((kind.clone(), format!("{kind}|bad={}", classes.join("+")), format!("bad clients {b:?}, arrival order {o:?} (last index = good client), closed first = {c}: {detail}")));
            }
        }
        // the server must still be alive and answering
        let rc = cascette_protocol::RibbitClient::new(format!("tcp://127.0.0.1:{port}")).expect("client");
        if tokio::time::timeout(Duration::from_secs(3), rc.query("v1/products/wow/versions")).await.map(|r| r.is_ok()) != Ok(true) || srv.tcp_task.is_finished() {
            vio.push(("server-wedged".into(), "server-wedged".into(), "after all robustness scenarios the server no longer answers a well-formed request".into()));
        }
        srv.tcp_task.abort();
        srv.http_task.abort();
        (n, vio)
    });
    drop(rt);
    for (kind, sig, detail) in robust.1 {
        if kind == "machinery" {
            rep.machinery_error(&detail);
        } else {
            rep.violation(&kind, &sig, json!({"level": "robustness"}), &detail);
        }
    }
    rep.bump("robustness_scenarios", robust.0);
    rep.add_evaluations(robust.0 + n_subset as u64 * 9);
    rep.add_nontrivial_count(robust.0 + n_subset as u64 * 9);
    rep.add_states(dbs.len() as u64 + n_subset as u64 + robust.0);
    rep.add_transitions(dbs.len() as u64 * 6 + n_subset as u64 * 9 + robust.0 * 3);
    rep.add_traces(dbs.len() as u64 + n_subset as u64 + robust.0);
    rep.sample(json!({"database": dbs[0].label, "records": [dbs[0].recs[0].json(1)]}));
    rep.sample(json!({"database": multi_record_dbs()[2].label}));
    rep.sample(json!({"robustness": "bad clients [Long8M, NeverTerminated], order [0,2,1], held open"}));
    rep.finish()
}

pub fn replay(w: &Value) -> i32 {
    // function-level witnesses carry the records
    let wit = &w["witness"];
    if let Some(recs) = wit["records"].as_array() {
        let recs: Vec<Rec> = recs
            .iter()
            .map(|r| Rec {
                product: r["product"].as_str().unwrap_or("").into(),
                version: r["version"].as_str().unwrap_or("").into(),
                build: r["build"].as_str().unwrap_or("").into(),
                keyring: r["keyring"].as_str().map(String::from),
                product_config: r["product_config"].as_str().map(String::from),
                cdn_path: r["cdn_path"].as_str().map(String::from),
                build_time: r["build_time"].as_str().unwrap_or("").into(),
            })
            .collect();
        let db = Db { recs, label: "replay".into() };
        let rep = Report::new("C15", Tier::Quick, 0, Level::ModelChecking);
        function_level(&rep, &[db]);
        let v = rep.violations_snapshot();
        for x in &v {
            println!("violates: {} — {}", x.sig, x.detail);
        }
        return i32::from(!v.is_empty());
    }
    println!("socket-level and robustness witnesses are re-run by `./check C15 quick` (scenario text is in the replay file)");
    2
}
