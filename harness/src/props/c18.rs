//! C18 — compaction never loses or overwrites live data.
//!
//! ENUM engine, three parts, all on the real functions of `storage::compaction`:
//!
//! **spans** — `extract_compact_segment` on a file of L grid units with position-identifying
//! content and *every* ordered tuple of ≤ k spans whose end points lie on the grid
//! (non-overlapping, adjacent, gapped, zero-length, not starting at 0, overlapping, duplicate;
//! every input order), plus every set of ≥ k+1 pairwise disjoint non-empty spans in three
//! input orders. Two grids: the *byte grid* (unit 1 byte, every byte distinct) and the
//! *buffer grid* (unit 64 KiB ± 1 × every buffer budget, so that spans are smaller than,
//! equal to and larger than the I/O buffer and source/destination ranges of one move
//! overlap). Oracle: a set in which two spans share a byte must be refused with the file
//! byte-identical; any other set must be accepted, the file must equal the spans' original
//! bytes concatenated in offset order, and the returned value must equal old − new length.
//!
//! **mover** — `CompactionFileMover::compact_in_place` for every (src, dest ≤ src, len) on
//! both grids and `move_data` for every (src, dest, len) between two files and within one
//! file (dest ≤ src): the destination range holds the source's original bytes, nothing else
//! changes. (Moves towards higher offsets inside one file are not judged: compaction only
//! moves data down, and the statement is about compaction.)
//!
//! **plan** — `plan_archive_merge` for every population of ≤ n segments with
//! write_position ∈ {0, 1, s/4, s/2, 3s/4, s−1, s} × state ∈ {Frozen, Thawed} × threshold ×
//! segment size. Oracle, exactly the three clauses of the statement: no move's destination
//! range intersects [0, dest.write_position); destination ranges of two moves into one
//! segment are disjoint; dest_offset + length ≤ segment_size.

use crate::report::{Level, Report, Tier};
use crate::util::{Scratch, SplitMix, catch, fnv64, norm_loc, norm_msg, par_map, take_last_panic_loc};
use cascette_client_storage::storage::compaction::{CompactionFileMover, DataSpan, extract_compact_segment, plan_archive_merge};
use cascette_client_storage::storage::{SegmentHeader, SegmentInfo, SegmentState};
use serde_json::{Value, json};
use std::collections::{BTreeMap, BTreeSet};
use std::fs::{File, OpenOptions};
use std::os::unix::fs::FileExt;
use std::path::Path;

// ---------------------------------------------------------------------------------------
// shared
// ---------------------------------------------------------------------------------------

#[derive(Clone, Debug)]
struct Finding {
    kind: String,
    class: String,
    detail: String,
}

fn panic_site(msg: &str) -> String {
    let loc = take_last_panic_loc().map(|l| norm_loc(&l)).unwrap_or_else(|| "?".into());
    let loc = match loc.find("crates/") {
        Some(i) => loc[i..].to_string(),
        None => loc,
    };
    format!("{loc}: {}", norm_msg(msg))
}

/// Class accumulator: occurrences and the simplest witness (smallest order key).
struct Acc<K: Ord + Clone, W: Clone> {
    classes: BTreeMap<String, (u64, K, W, Finding)>,
}

impl<K: Ord + Clone, W: Clone> Acc<K, W> {
    fn new() -> Self {
        Acc { classes: BTreeMap::new() }
    }
    fn add(&mut self, f: &Finding, key: K, w: &W, n: u64) {
        match self.classes.get_mut(&f.class) {
            None => {
                self.classes.insert(f.class.clone(), (n, key, w.clone(), f.clone()));
            }
            Some(e) => {
                e.0 += n;
                if key < e.1 {
                    e.1 = key;
                    e.2 = w.clone();
                    e.3 = f.clone();
                }
            }
        }
    }
    fn merge(&mut self, other: Acc<K, W>) {
        for (_, (n, k, w, f)) in other.classes {
            self.add(&f, k, &w, n);
        }
    }
}

fn open_rw(p: &Path) -> File {
    OpenOptions::new().read(true).write(true).create(true).truncate(false).open(p).expect("open scratch file")
}

fn reset_file(f: &File, content: &[u8]) {
    f.set_len(0).expect("truncate scratch file");
    f.write_all_at(content, 0).expect("write scratch file");
}

fn read_file(f: &File) -> Vec<u8> {
    let len = f.metadata().expect("stat scratch file").len() as usize;
    let mut v = vec![0u8; len];
    f.read_exact_at(&mut v, 0).expect("read scratch file");
    v
}

/// Position-identifying content: on the byte grid every byte is distinct; on larger grids
/// seeded filler (any misplaced, lost or duplicated range changes the comparison).
fn content(units: u64, unit: u64, seed: u64) -> Vec<u8> {
    let n = (units * unit) as usize;
    if unit == 1 {
        (0..n).map(|i| 0x10 + i as u8).collect()
    } else {
        SplitMix(seed ^ 0xC18).bytes(n)
    }
}

fn show_bytes(b: &[u8]) -> String {
    if b.len() <= 24 { hex::encode(b) } else { format!("<{} bytes, fnv {:016x}>", b.len(), fnv64(b)) }
}

// ---------------------------------------------------------------------------------------
// spans part
// ---------------------------------------------------------------------------------------

#[derive(Clone, Debug, PartialEq, Eq, PartialOrd, Ord)]
struct SpanCase {
    units: u64,
    unit: u64,
    budget: usize,
    /// (offset, length) in grid units, in input order
    spans: Vec<(u64, u64)>,
}

impl SpanCase {
    fn order_key(&self) -> (usize, u64, u64, Vec<(u64, u64)>, usize) {
        (self.spans.len(), self.units, self.unit, self.spans.clone(), self.budget)
    }
    fn short(&self) -> String {
        format!("unit={}:file={}u:spans={:?}:budget={}", self.unit, self.units, self.spans, self.budget)
    }
    fn to_json(&self, seed: u64) -> Value {
        json!({"part": "spans", "unit": self.unit, "file_units": self.units, "budget": self.budget,
               "spans_offset_length_in_units": self.spans.iter().map(|s| json!([s.0, s.1])).collect::<Vec<_>>(), "seed": seed})
    }
}

#[derive(Clone, Copy, PartialEq, Eq, Debug)]
enum Expect {
    /// two spans share a byte
    MustRefuse,
    /// no shared byte, but a zero-length span lies strictly inside another span: the repo's own
    /// `DataSpan::overlaps` calls that overlapping, set theory does not — either answer passes
    Either,
    MustAccept,
}

fn classify(spans: &[(u64, u64)]) -> Expect {
    let mut either = false;
    for (i, a) in spans.iter().enumerate() {
        for (j, b) in spans.iter().enumerate() {
            if i == j {
                continue;
            }
            if i < j && a.1 > 0 && b.1 > 0 && a.0 < b.0 + b.1 && b.0 < a.0 + a.1 {
                return Expect::MustRefuse;
            }
            if a.1 == 0 && b.1 > 0 && a.0 > b.0 && a.0 < b.0 + b.1 {
                either = true;
            }
        }
    }
    if either { Expect::Either } else { Expect::MustAccept }
}

struct SpanOutcome {
    finding: Option<Finding>,
    /// 0 refused, 1 accepted-unchanged, 2 accepted-moved
    outcome: u8,
    moved_overlapping: bool,
}

fn eval_spans(file: &mut File, orig: &[u8], c: &SpanCase) -> SpanOutcome {
    reset_file(file, orig);
    let mut spans: Vec<DataSpan> = c.spans.iter().map(|s| DataSpan { offset: s.0 * c.unit, length: s.1 * c.unit }).collect();
    let mut mover = CompactionFileMover::new(c.budget);
    let buf = mover.buffer_size() as u64;
    let res = catch(|| extract_compact_segment(file, &mut spans, &mut mover).map_err(|e| e.to_string()));
    let after = read_file(file);
    let expect = classify(&c.spans);
    let mut sorted = c.spans.clone();
    sorted.sort_by_key(|s| s.0);
    let mut want = Vec::new();
    for s in &sorted {
        want.extend_from_slice(&orig[(s.0 * c.unit) as usize..((s.0 + s.1) * c.unit) as usize]);
    }
    let has_zero = c.spans.iter().any(|s| s.1 == 0);
    let is_sorted = c.spans.windows(2).all(|w| w[0].0 <= w[1].0);
    let grid = if c.unit == 1 { "byte-grid" } else { "buffer-grid" };
    let bigger = c.spans.iter().any(|s| s.1 * c.unit > buf);
    // class = oracle clause + whether zero-length spans are involved; grid, input order and
    // buffer relation are recorded in the detail only (one defect, one signature)
    let flags = if has_zero { "with-zero-length-span" } else { "no-zero-length-span" };
    let features = format!("{grid}, input sorted by offset: {is_sorted}, a span larger than the buffer: {bigger}");
    // a move whose source and destination ranges overlap (gap smaller than the span)
    let mut wp = 0;
    let mut moved_overlapping = false;
    for s in &sorted {
        if s.0 > wp && s.0 - wp < s.1 {
            moved_overlapping = true;
        }
        wp += s.1;
    }
    let mk = |kind: &str, detail: String| SpanOutcome {
        finding: Some(Finding { kind: kind.to_string(), class: format!("{kind}/{flags}"), detail: format!("{detail} ({features})") }),
        outcome: 9,
        moved_overlapping,
    };
    match res {
        Err(m) => {
            let site = panic_site(&m);
            SpanOutcome {
                finding: Some(Finding { kind: "panic".into(), class: format!("panic/{site}"), detail: format!("extract_compact_segment panicked at {site}") }),
                outcome: 9,
                moved_overlapping,
            }
        }
        Ok(Err(e)) => {
            if after != orig {
                return mk("refusal-modified-file", format!("returned Err({e}) but the file changed: before {} after {}", show_bytes(orig), show_bytes(&after)));
            }
            if expect == Expect::MustAccept {
                return mk("false-refusal", format!("no two spans share a byte, yet the call returned Err({e})"));
            }
            SpanOutcome { finding: None, outcome: 0, moved_overlapping }
        }
        Ok(Ok(saved)) => {
            if expect == Expect::MustRefuse {
                return mk("overlap-accepted", format!("two spans share a byte, yet the call returned Ok({saved}); file now {}", show_bytes(&after)));
            }
            // The empty span set: "no live data" could mean "empty the file" or "nothing to
            // do"; the text does not say, both are accepted as long as the report is truthful.
            if c.spans.is_empty() && after == orig && saved == 0 {
                return SpanOutcome { finding: None, outcome: 1, moved_overlapping };
            }
            if after != want {
                let at = after.iter().zip(want.iter()).position(|(a, b)| a != b).unwrap_or(after.len().min(want.len()));
                return mk(
                    "wrong-content",
                    format!("file after compaction differs from the live spans' bytes in offset order (lengths {} vs {}, first difference at byte {at}): got {} want {}", after.len(), want.len(), show_bytes(&after), show_bytes(&want)),
                );
            }
            let truth = orig.len() as u64 - after.len() as u64;
            if saved != truth {
                return mk("wrong-bytes-saved", format!("returned {saved} bytes saved, the file shrank by {truth}"));
            }
            SpanOutcome { finding: None, outcome: if after == orig { 1 } else { 2 }, moved_overlapping }
        }
    }
}

/// All spans (offset, length) with end points on 0..=units.
fn all_spans(units: u64) -> Vec<(u64, u64)> {
    let mut v = Vec::new();
    for o in 0..=units {
        for l in 0..=(units - o) {
            v.push((o, l));
        }
    }
    v
}

/// All sets of exactly ≥ min pairwise-disjoint non-empty spans, sorted by offset.
fn disjoint_sets(units: u64, min: usize) -> Vec<Vec<(u64, u64)>> {
    fn rec(from: u64, units: u64, cur: &mut Vec<(u64, u64)>, out: &mut Vec<Vec<(u64, u64)>>, min: usize) {
        if cur.len() >= min {
            out.push(cur.clone());
        }
        for o in from..units {
            for l in 1..=(units - o) {
                cur.push((o, l));
                rec(o + l, units, cur, out, min);
                cur.pop();
            }
        }
    }
    let mut out = Vec::new();
    rec(0, units, &mut Vec::new(), &mut out, min);
    out
}

#[derive(Default)]
struct SpanStats {
    cases: u64,
    refused: u64,
    accepted_unchanged: u64,
    accepted_moved: u64,
    must_refuse: u64,
    either: u64,
    moved_overlapping: u64,
    span_gt_buffer: u64,
}

struct SpanShard {
    stats: SpanStats,
    acc: Acc<(usize, u64, u64, Vec<(u64, u64)>, usize), SpanCase>,
    samples: Vec<Value>,
}

/// Enumerate the span tuples of one (unit, units, budget) cell, sharded by the first span.
fn span_cases(units: u64, max_tuple: usize, shard: usize, n_shards: usize) -> Vec<Vec<(u64, u64)>> {
    let alpha = all_spans(units);
    let mut out: Vec<Vec<(u64, u64)>> = Vec::new();
    if shard == 0 {
        out.push(Vec::new());
    }
    // tuples of length 1..=max_tuple whose first element index ≡ shard (mod n_shards)
    for (fi, f) in alpha.iter().enumerate() {
        if fi % n_shards != shard {
            continue;
        }
        let mut stack: Vec<Vec<(u64, u64)>> = vec![vec![*f]];
        while let Some(t) = stack.pop() {
            if t.len() < max_tuple {
                for s in &alpha {
                    let mut n = t.clone();
                    n.push(*s);
                    stack.push(n);
                }
            }
            out.push(t);
        }
    }
    // larger disjoint sets in three input orders (sorted, reversed, odd positions first)
    for (si, set) in disjoint_sets(units, max_tuple + 1).into_iter().enumerate() {
        if si % n_shards != shard {
            continue;
        }
        let mut rev = set.clone();
        rev.reverse();
        let mut inter: Vec<(u64, u64)> = set.iter().skip(1).step_by(2).copied().collect();
        inter.extend(set.iter().step_by(2).copied());
        out.push(set);
        out.push(rev);
        out.push(inter);
    }
    out
}

fn run_spans(rep: &Report, tier: Tier, seed: u64) -> Value {
    // cells: (unit, max file units, max tuple length, budgets)
    let kib = 1024usize;
    let byte_cells: Vec<(u64, u64, usize, Vec<usize>)> = match tier {
        Tier::Quick => vec![(1, 8, 3, vec![0])],
        Tier::Thorough => vec![(1, 10, 3, vec![0]), (1, 6, 4, vec![0])],
    };
    let budgets_q = vec![128 * kib, 192 * kib, 320 * kib, 1024 * kib];
    let budgets_t = vec![0, 128 * kib, 192 * kib, 256 * kib, 320 * kib, 512 * kib, 1024 * kib, 3072 * kib];
    let buffer_cells: Vec<(u64, u64, usize, Vec<usize>)> = match tier {
        Tier::Quick => vec![(65536, 6, 2, budgets_q.clone()), (65536, 5, 3, vec![128 * kib]), (65537, 5, 2, vec![128 * kib])],
        Tier::Thorough => vec![(65536, 8, 2, budgets_t.clone()), (65536, 6, 3, budgets_t.clone()), (65537, 6, 3, vec![128 * kib, 192 * kib]), (65535, 6, 3, vec![128 * kib, 192 * kib])],
    };
    const SHARDS: usize = 8;
    let mut tasks: Vec<(u64, u64, usize, usize, usize)> = Vec::new(); // unit, units, max_tuple, budget, shard
    for (unit, max_units, max_tuple, budgets) in byte_cells.iter().chain(buffer_cells.iter()) {
        for units in 0..=*max_units {
            for b in budgets {
                for sh in 0..SHARDS {
                    tasks.push((*unit, units, *max_tuple, *b, sh));
                }
            }
        }
    }
    tasks.sort_by_key(|t| std::cmp::Reverse(t.0 * t.1.pow(2 * t.2 as u32).max(1)));
    let shards = par_map(tasks.len(), |ti| {
        let (unit, units, max_tuple, budget, shard) = tasks[ti];
        let scratch = Scratch::new("c18s");
        let mut file = open_rw(&scratch.path.join("seg.data"));
        let orig = content(units, unit, seed);
        let mut sh = SpanShard { stats: SpanStats::default(), acc: Acc::new(), samples: Vec::new() };
        let buf = CompactionFileMover::new(budget).buffer_size() as u64;
        for spans in span_cases(units, max_tuple, shard, SHARDS) {
            let c = SpanCase { units, unit, budget, spans };
            let o = eval_spans(&mut file, &orig, &c);
            sh.stats.cases += 1;
            match classify(&c.spans) {
                Expect::MustRefuse => sh.stats.must_refuse += 1,
                Expect::Either => sh.stats.either += 1,
                Expect::MustAccept => {}
            }
            match o.outcome {
                0 => sh.stats.refused += 1,
                1 => sh.stats.accepted_unchanged += 1,
                2 => sh.stats.accepted_moved += 1,
                _ => {}
            }
            if o.outcome == 2 && o.moved_overlapping {
                sh.stats.moved_overlapping += 1;
            }
            if o.outcome == 2 && c.spans.iter().any(|s| s.1 * unit > buf) {
                sh.stats.span_gt_buffer += 1;
            }
            if let Some(f) = &o.finding {
                sh.acc.add(f, c.order_key(), &c, 1);
            } else if sh.samples.is_empty() && o.outcome == 2 && o.moved_overlapping && c.spans.len() >= 2 && !c.spans.windows(2).all(|w| w[0].0 <= w[1].0) {
                let mut j = c.to_json(seed);
                j["verdict"] = json!("accepted; file = spans' bytes in offset order; bytes saved truthful");
                sh.samples.push(j);
            }
        }
        sh
    });
    let mut st = SpanStats::default();
    let mut acc = Acc::new();
    let mut samples = Vec::new();
    for sh in shards {
        st.cases += sh.stats.cases;
        st.refused += sh.stats.refused;
        st.accepted_unchanged += sh.stats.accepted_unchanged;
        st.accepted_moved += sh.stats.accepted_moved;
        st.must_refuse += sh.stats.must_refuse;
        st.either += sh.stats.either;
        st.moved_overlapping += sh.stats.moved_overlapping;
        st.span_gt_buffer += sh.stats.span_gt_buffer;
        acc.merge(sh.acc);
        if samples.len() < 4 {
            samples.extend(sh.samples);
        }
    }
    rep.add_evaluations(st.cases);
    rep.add_nontrivial_count(st.accepted_moved + st.refused);
    for (i, n) in [st.refused, st.accepted_unchanged, st.accepted_moved, st.moved_overlapping, st.span_gt_buffer].iter().enumerate() {
        if *n > 0 {
            rep.add_outcome(fnv64(format!("spans-{i}").as_bytes()));
        }
    }
    for s in samples.iter().take(4) {
        rep.sample(s.clone());
    }
    // replay-before-report on a fresh file
    let scratch = Scratch::new("c18r");
    let mut file = open_rw(&scratch.path.join("seg.data"));
    for (class, (n, _, c, f)) in &acc.classes {
        let orig = content(c.units, c.unit, seed);
        let again = eval_spans(&mut file, &orig, c);
        if again.finding.as_ref().map(|g| &g.class) != Some(class) {
            rep.machinery_error(&format!("spans: witness {} of class {class} did not fail again on replay", c.short()));
            continue;
        }
        let mut w = c.to_json(seed);
        w["cases_in_class"] = json!(n);
        rep.violation(&f.kind, &format!("spans/{class}/min:{}", c.short()), w, &format!("{} [{n} cases in this class]", f.detail));
    }
    if st.refused == 0 || st.accepted_moved == 0 || st.accepted_unchanged == 0 || st.moved_overlapping == 0 || st.span_gt_buffer == 0 {
        rep.machinery_error(&format!(
            "spans part is vacuous: refused {} accepted-unchanged {} accepted-moved {} moves with overlapping source/destination {} spans larger than the buffer {}",
            st.refused, st.accepted_unchanged, st.accepted_moved, st.moved_overlapping, st.span_gt_buffer
        ));
    }
    let cell = |c: &(u64, u64, usize, Vec<usize>)| json!({"unit_bytes": c.0, "file_units": format!("0..={}", c.1), "ordered_tuples_up_to": c.2, "larger_disjoint_sets": "all, in 3 input orders", "budgets": c.3});
    json!({
        "byte_grid": byte_cells.iter().map(cell).collect::<Vec<_>>(),
        "buffer_grid": buffer_cells.iter().map(cell).collect::<Vec<_>>(),
        "cases": st.cases,
        "sets_with_two_spans_sharing_a_byte": st.must_refuse,
        "sets_with_zero_length_span_strictly_inside_another (either answer passes)": st.either,
        "refused": st.refused,
        "accepted_file_unchanged": st.accepted_unchanged,
        "accepted_data_moved": st.accepted_moved,
        "accepted_with_a_move_whose_source_and_destination_overlap": st.moved_overlapping,
        "accepted_with_a_span_larger_than_the_io_buffer": st.span_gt_buffer,
    })
}

// ---------------------------------------------------------------------------------------
// mover part
// ---------------------------------------------------------------------------------------

#[derive(Clone, Debug, PartialEq, Eq, PartialOrd, Ord)]
struct MoveCase {
    /// "in-place", "two-files", "same-file-two-handles"
    api: &'static str,
    unit: u64,
    units: u64,
    budget: usize,
    src: u64,
    dest: u64,
    len: u64,
}

impl MoveCase {
    fn short(&self) -> String {
        format!("unit={}:file={}u:src={}:dest={}:len={}:budget={}", self.unit, self.units, self.src, self.dest, self.len, self.budget)
    }
    fn to_json(&self, seed: u64) -> Value {
        json!({"part": "mover", "api": self.api, "unit": self.unit, "file_units": self.units, "budget": self.budget, "src": self.src, "dest": self.dest, "len": self.len, "seed": seed})
    }
    fn order_key(&self) -> (u64, u64, u64, u64, u64, usize) {
        (self.units, self.unit, self.len, self.src, self.dest, self.budget)
    }
}

fn eval_move(dir: &Path, c: &MoveCase, seed: u64) -> Option<Finding> {
    let orig = content(c.units, c.unit, seed);
    let (s, d, l) = ((c.src * c.unit) as usize, (c.dest * c.unit) as usize, (c.len * c.unit) as usize);
    let a_path = dir.join("a.data");
    let b_path = dir.join("b.data");
    let mut mover = CompactionFileMover::new(c.budget);
    let flags = format!("{}/{}", c.api, if c.unit == 1 { "byte-grid" } else { "buffer-grid" });
    let mk = |kind: &str, detail: String| Some(Finding { kind: kind.to_string(), class: format!("{kind}/{flags}"), detail });
    match c.api {
        "in-place" => {
            let mut f = open_rw(&a_path);
            reset_file(&f, &orig);
            let r = catch(|| mover.compact_in_place(&mut f, s as u64, d as u64, l as u64).map_err(|e| e.to_string()));
            let after = read_file(&f);
            let mut want = orig.clone();
            want.copy_within(s..s + l, d);
            match r {
                Err(m) => {
                    let site = panic_site(&m);
                    Some(Finding { kind: "panic".into(), class: format!("panic/{site}"), detail: format!("compact_in_place panicked at {site}") })
                }
                Ok(Err(e)) => mk("mover-error", format!("compact_in_place returned Err({e}) for ranges inside the file")),
                Ok(Ok(())) if after != want => mk("mover-wrong-bytes", format!("after compact_in_place the file is {} — expected {}", show_bytes(&after), show_bytes(&want))),
                Ok(Ok(())) => None,
            }
        }
        "two-files" => {
            // destination file: different content of the same length; writing may extend it
            let dest_orig: Vec<u8> = orig.iter().map(|b| b ^ 0x80).collect();
            let mut src = open_rw(&a_path);
            reset_file(&src, &orig);
            let mut dst = open_rw(&b_path);
            reset_file(&dst, &dest_orig);
            let r = catch(|| mover.move_data(&mut src, s as u64, &mut dst, d as u64, l as u64).map_err(|e| e.to_string()));
            let after_src = read_file(&src);
            let after = read_file(&dst);
            let mut want = dest_orig.clone();
            if l > 0 && want.len() < d + l {
                want.resize(d + l, 0);
            }
            want[d..d + l].copy_from_slice(&orig[s..s + l]);
            match r {
                Err(m) => {
                    let site = panic_site(&m);
                    Some(Finding { kind: "panic".into(), class: format!("panic/{site}"), detail: format!("move_data panicked at {site}") })
                }
                Ok(Err(e)) => mk("mover-error", format!("move_data returned Err({e}) for a source range inside the file")),
                Ok(Ok(())) if after_src != orig => mk("mover-source-changed", "move_data changed the source file".into()),
                Ok(Ok(())) if after != want => mk("mover-wrong-bytes", format!("after move_data the destination is {} — expected {}", show_bytes(&after), show_bytes(&want))),
                Ok(Ok(())) => None,
            }
        }
        _ => {
            let f0 = open_rw(&a_path);
            reset_file(&f0, &orig);
            let mut src = open_rw(&a_path);
            let mut dst = open_rw(&a_path);
            let r = catch(|| mover.move_data(&mut src, s as u64, &mut dst, d as u64, l as u64).map_err(|e| e.to_string()));
            let after = read_file(&f0);
            let mut want = orig.clone();
            want.copy_within(s..s + l, d);
            match r {
                Err(m) => {
                    let site = panic_site(&m);
                    Some(Finding { kind: "panic".into(), class: format!("panic/{site}"), detail: format!("move_data panicked at {site}") })
                }
                Ok(Err(e)) => mk("mover-error", format!("move_data (same file) returned Err({e})")),
                Ok(Ok(())) if after != want => mk("mover-wrong-bytes", format!("after move_data within one file the file is {} — expected {}", show_bytes(&after), show_bytes(&want))),
                Ok(Ok(())) => None,
            }
        }
    }
}

fn run_mover(rep: &Report, tier: Tier, seed: u64) -> Value {
    let kib = 1024usize;
    let mut cases: Vec<MoveCase> = Vec::new();
    let mut grid = |unit: u64, max_units: u64, budgets: &[usize]| {
        for units in 0..=max_units {
            for b in budgets {
                for src in 0..=units {
                    for len in 0..=(units - src) {
                        for dest in 0..=units {
                            if dest <= src {
                                cases.push(MoveCase { api: "in-place", unit, units, budget: *b, src, dest, len });
                                cases.push(MoveCase { api: "same-file-two-handles", unit, units, budget: *b, src, dest, len });
                            }
                            cases.push(MoveCase { api: "two-files", unit, units, budget: *b, src, dest, len });
                        }
                    }
                }
            }
        }
    };
    match tier {
        Tier::Quick => {
            grid(1, 6, &[0]);
            grid(65536, 5, &[128 * kib, 192 * kib]);
        }
        Tier::Thorough => {
            grid(1, 9, &[0]);
            grid(65536, 7, &[0, 128 * kib, 192 * kib, 320 * kib, 1024 * kib, 3072 * kib]);
            grid(65537, 5, &[128 * kib, 192 * kib]);
        }
    }
    let n = cases.len();
    let chunk = 64usize;
    let shards = par_map(n.div_ceil(chunk), |ci| {
        let scratch = Scratch::new("c18m");
        let mut acc: Acc<(u64, u64, u64, u64, u64, usize), MoveCase> = Acc::new();
        let mut overlapping = 0u64;
        for c in &cases[ci * chunk..((ci + 1) * chunk).min(n)] {
            if c.api != "two-files" && c.len > 0 && c.dest < c.src && c.src - c.dest < c.len {
                overlapping += 1;
            }
            if let Some(f) = eval_move(&scratch.path, c, seed) {
                acc.add(&f, c.order_key(), c, 1);
            }
        }
        (acc, overlapping)
    });
    let mut acc = Acc::new();
    let mut overlapping = 0;
    for (a, o) in shards {
        acc.merge(a);
        overlapping += o;
    }
    rep.add_evaluations(n as u64);
    rep.add_nontrivial_count(cases.iter().filter(|c| c.len > 0 && (c.api == "two-files" || c.src != c.dest)).count() as u64);
    let scratch = Scratch::new("c18mr");
    for (class, (cnt, _, c, f)) in &acc.classes {
        let again = eval_move(&scratch.path, c, seed);
        if again.as_ref().map(|g| &g.class) != Some(class) {
            rep.machinery_error(&format!("mover: witness {} did not fail again on replay", c.short()));
            continue;
        }
        let mut w = c.to_json(seed);
        w["cases_in_class"] = json!(cnt);
        rep.violation(&f.kind, &format!("mover/{class}/min:{}", c.short()), w, &format!("{} [{cnt} cases in this class]", f.detail));
    }
    if overlapping == 0 {
        rep.machinery_error("mover part is vacuous: no move with overlapping source and destination ranges");
    }
    json!({"cases": n, "same_file_moves_with_overlapping_ranges": overlapping, "apis": ["compact_in_place (dest ≤ src)", "move_data between two files (all src, dest, len)", "move_data within one file through two handles (dest ≤ src)"]})
}

// ---------------------------------------------------------------------------------------
// plan part
// ---------------------------------------------------------------------------------------

#[derive(Clone, Debug, PartialEq, Eq, PartialOrd, Ord)]
struct PlanCase {
    seg_size: u64,
    /// threshold in hundredths
    thr100: u32,
    /// (frozen, write_position)
    pop: Vec<(bool, u64)>,
}

impl PlanCase {
    fn pop_str(&self) -> String {
        let v: Vec<String> = self.pop.iter().map(|(f, w)| format!("{}{}", if *f { 'F' } else { 'T' }, w)).collect();
        format!("[{}]", v.join(","))
    }
    fn short(&self) -> String {
        format!("segment_size={}:threshold={}:segments={}", self.seg_size, f64::from(self.thr100) / 100.0, self.pop_str())
    }
    fn to_json(&self) -> Value {
        json!({"part": "plan", "segment_size": self.seg_size, "threshold_hundredths": self.thr100,
               "segments_frozen_writepos": self.pop.iter().map(|(f, w)| json!([f, w])).collect::<Vec<_>>()})
    }
    fn order_key(&self) -> (usize, u64, u64, Vec<(bool, u64)>, u32) {
        (self.pop.len(), self.seg_size, self.pop.iter().map(|p| p.1).sum(), self.pop.clone(), self.thr100)
    }
    fn segments(&self) -> Vec<SegmentInfo> {
        self.pop
            .iter()
            .enumerate()
            .map(|(i, (frozen, wp))| {
                // index == position in the slice, so both readings of MoveItem::dest_segment agree
                let mut s = SegmentInfo::new(i as u16, SegmentHeader::default());
                s.state = if *frozen { SegmentState::Frozen } else { SegmentState::Thawed };
                s.write_position = *wp;
                s
            })
            .collect()
    }
}

struct PlanEval {
    findings: Vec<Finding>,
    moves: usize,
    targets: usize,
    source_is_also_target: bool,
}

fn eval_plan(c: &PlanCase) -> PlanEval {
    let segs = c.segments();
    let thr = f64::from(c.thr100) / 100.0;
    let mut ev = PlanEval { findings: Vec::new(), moves: 0, targets: 0, source_is_also_target: false };
    let plan = match catch(|| plan_archive_merge(&segs, thr, c.seg_size)) {
        Ok(p) => p,
        Err(m) => {
            let site = panic_site(&m);
            ev.findings.push(Finding { kind: "panic".into(), class: format!("panic/{site}"), detail: format!("plan_archive_merge panicked at {site}") });
            return ev;
        }
    };
    ev.moves = plan.moves.len();
    let targets: BTreeSet<u16> = plan.moves.iter().map(|m| m.dest_segment).collect();
    let sources: BTreeSet<u16> = plan.moves.iter().map(|m| m.source_segment).collect();
    ev.targets = targets.len();
    ev.source_is_also_target = targets.intersection(&sources).next().is_some();
    let describe = |i: usize| {
        let m = &plan.moves[i];
        format!("move #{i}: segment {} [{}, {}) → segment {} [{}, {})", m.source_segment, m.source_offset, m.source_offset + m.length, m.dest_segment, m.dest_offset, m.dest_offset + m.length)
    };
    let ord = |i: usize| if i == 0 { "first-move" } else { "later-move" };
    for (i, m) in plan.moves.iter().enumerate() {
        let Some(dest) = segs.get(m.dest_segment as usize) else {
            ev.findings.push(Finding { kind: "plan-bad-segment".into(), class: "plan-bad-segment".into(), detail: format!("{} names a destination segment that does not exist", describe(i)) });
            continue;
        };
        if m.length > 0 && m.dest_offset < dest.write_position {
            ev.findings.push(Finding {
                kind: "plan-onto-live-bytes".into(),
                class: format!("plan-onto-live-bytes/{}", ord(i)),
                detail: format!("{} — but segment {} already uses [0, {})", describe(i), m.dest_segment, dest.write_position),
            });
        }
        if m.dest_offset + m.length > c.seg_size {
            ev.findings.push(Finding {
                kind: "plan-overfill".into(),
                class: format!("plan-overfill/{}", ord(i)),
                detail: format!("{} ends beyond the segment size {}", describe(i), c.seg_size),
            });
        }
        for (j, n) in plan.moves.iter().enumerate().skip(i + 1) {
            if n.dest_segment == m.dest_segment && m.length > 0 && n.length > 0 && m.dest_offset < n.dest_offset + n.length && n.dest_offset < m.dest_offset + m.length {
                ev.findings.push(Finding { kind: "plan-moves-overlap".into(), class: "plan-moves-overlap".into(), detail: format!("{} and {} overlap in the destination", describe(i), describe(j)) });
            }
        }
    }
    ev
}

/// Segment sizes from 1 KiB up are *headered* segments: a real segment starts with its 480-byte
/// header (`SEGMENT_HEADER_SIZE`), so its write position is never below 480 unless the segment
/// was never used (0); the positions then divide the payload area instead of the whole segment.
const HEADER: u64 = 480;

fn wp_values(s: u64) -> Vec<u64> {
    let mut v = if s >= 1024 {
        let p = s - HEADER;
        vec![0, HEADER, HEADER + 1, HEADER + p / 4, HEADER + p / 2, HEADER + 3 * p / 4, s - 1, s]
    } else {
        vec![0, 1, s / 4, s / 2, 3 * s / 4, s - 1, s]
    };
    v.sort_unstable();
    v.dedup();
    v
}

fn run_plan(rep: &Report, tier: Tier) -> Value {
    let max_segs = tier.pick(5usize, 6usize);
    let thresholds = [25u32, 50, 75, 100, 150];
    let sizes = [8u64, 100, 2048];
    // shard: (size, threshold, count, first segment option)
    let mut tasks: Vec<(u64, u32, usize, usize)> = Vec::new();
    for s in sizes {
        let opts = wp_values(s).len() * 2;
        for t in thresholds {
            tasks.push((s, t, 0, 0));
            for k in 1..=max_segs {
                for first in 0..opts {
                    tasks.push((s, t, k, first));
                }
            }
        }
    }
    tasks.sort_by_key(|t| std::cmp::Reverse(t.2));
    struct Sh {
        plans: u64,
        nonempty: u64,
        multi_target: u64,
        src_also_target: u64,
        moves: u64,
        shapes: BTreeSet<(usize, usize)>,
        acc: Acc<(usize, u64, u64, Vec<(bool, u64)>, u32), PlanCase>,
        sample: Option<Value>,
    }
    let shards = par_map(tasks.len(), |ti| {
        let (s, t, k, first) = tasks[ti];
        let wps = wp_values(s);
        let opts: Vec<(bool, u64)> = [true, false].iter().flat_map(|f| wps.iter().map(move |w| (*f, *w))).collect();
        let mut sh = Sh { plans: 0, nonempty: 0, multi_target: 0, src_also_target: 0, moves: 0, shapes: BTreeSet::new(), acc: Acc::new(), sample: None };
        let rest = k.saturating_sub(1);
        let total = opts.len().pow(rest as u32);
        for idx in 0..total {
            let mut pop = Vec::with_capacity(k);
            if k > 0 {
                pop.push(opts[first]);
            }
            let mut x = idx;
            for _ in 0..rest {
                pop.push(opts[x % opts.len()]);
                x /= opts.len();
            }
            let c = PlanCase { seg_size: s, thr100: t, pop };
            let ev = eval_plan(&c);
            sh.plans += 1;
            sh.moves += ev.moves as u64;
            if ev.moves > 0 {
                sh.nonempty += 1;
            }
            if ev.targets > 1 {
                sh.multi_target += 1;
            }
            if ev.source_is_also_target {
                sh.src_also_target += 1;
            }
            sh.shapes.insert((ev.moves, ev.targets));
            for f in &ev.findings {
                sh.acc.add(f, c.order_key(), &c, 1);
            }
            if sh.sample.is_none() && ev.findings.is_empty() && ev.targets > 1 {
                let mut j = c.to_json();
                j["verdict"] = json!(format!("{} moves into {} destination segments, all three geometry clauses hold", ev.moves, ev.targets));
                sh.sample = Some(j);
            }
        }
        sh
    });
    let (mut plans, mut nonempty, mut multi, mut sat, mut moves) = (0u64, 0u64, 0u64, 0u64, 0u64);
    let mut shapes = BTreeSet::new();
    let mut acc = Acc::new();
    let mut samples = 0;
    for sh in shards {
        plans += sh.plans;
        nonempty += sh.nonempty;
        multi += sh.multi_target;
        sat += sh.src_also_target;
        moves += sh.moves;
        shapes.extend(sh.shapes);
        acc.merge(sh.acc);
        if let Some(s) = sh.sample {
            if samples < 2 {
                rep.sample(s);
                samples += 1;
            }
        }
    }
    rep.add_evaluations(plans);
    rep.add_nontrivial_count(nonempty);
    for s in &shapes {
        rep.add_outcome(fnv64(format!("plan-{s:?}").as_bytes()));
    }
    for (class, (n, _, c, f)) in &acc.classes {
        let again = eval_plan(c);
        if !again.findings.iter().any(|g| g.class == *class) {
            rep.machinery_error(&format!("plan: witness {} did not fail again on replay", c.short()));
            continue;
        }
        let mut w = c.to_json();
        w["cases_in_class"] = json!(n);
        rep.violation(&f.kind, &format!("plan/{class}/min:{}", c.short()), w, &format!("{} [{n} populations in this class]", f.detail));
    }
    if nonempty == 0 || nonempty == plans || shapes.len() < 4 {
        rep.machinery_error(&format!("plan part is vacuous: {nonempty} of {plans} plans non-empty, {} distinct (moves, targets) shapes", shapes.len()));
    }
    json!({
        "max_segments": max_segs, "segment_sizes": sizes, "thresholds": thresholds.iter().map(|t| f64::from(*t) / 100.0).collect::<Vec<_>>(),
        "write_positions": "0, 1, s/4, s/2, 3s/4, s-1, s; for the headered size 2048 (480-byte segment header + payload p): 0, 480, 481, 480+p/4, 480+p/2, 480+3p/4, s-1, s", "states": ["Frozen", "Thawed"],
        "populations": plans, "non_empty_plans": nonempty, "plans_with_more_than_one_destination": multi, "moves_checked": moves,
        "informational_plans_where_a_source_segment_is_also_a_destination (not a clause of the statement, not judged)": sat,
    })
}


// ---------------------------------------------------------------------------------------
// wide part — offsets and totals beyond 31 and 32 bits (sparse files)
// ---------------------------------------------------------------------------------------

/// `extract_compact_segment` on sparse files whose first live span is already in place and is
/// 2^31 … 2^32 + 2^31 bytes long (nothing has to be copied for it), followed by a gap and a small
/// live span, followed by dead bytes. Judged on the file length, the reported saving, the bytes of
/// the small span and the marked ends of the large one (the holes in between read as zeros and
/// are not read back).
fn wide_cases() -> Vec<(&'static str, u64, u64)> {
    // (name, length of the first span, gap)
    vec![
        ("first span 2^31 - 4096", (1u64 << 31) - 4096, 4096),
        ("first span 2^31", 1u64 << 31, 4096),
        ("first span 2^32 - 4096", (1u64 << 32) - 4096, 4096),
        ("first span 2^32", 1u64 << 32, 4096),
        ("first span 2^32 + 2^31", (1u64 << 32) + (1u64 << 31), 8192),
        ("first span 2^32 - 50 (the small span crosses 2^32)", (1u64 << 32) - 50, 4096),
    ]
}

fn eval_wide(name: &str, big: u64, gap: u64) -> Option<Finding> {
    let sc = Scratch::new("c18w");
    let path = sc.path.join("segment");
    let f = std::fs::OpenOptions::new().read(true).write(true).create(true).truncate(true).open(&path).expect("scratch file");
    let small: Vec<u8> = (0..100u8).map(|i| i.wrapping_mul(7).wrapping_add(3)).collect();
    let head: Vec<u8> = (0..64u8).map(|i| 0x80 | i).collect();
    let tail: Vec<u8> = (0..64u8).map(|i| 0x40 | i).collect();
    let small_at = big + gap;
    let orig_len = small_at + 100 + 5000;
    f.set_len(orig_len).expect("sparse file");
    f.write_all_at(&head, 0).expect("write");
    f.write_all_at(&tail, big - 64).expect("write");
    f.write_all_at(&small, small_at).expect("write");
    f.write_all_at(b"DEAD", small_at + 100 + 10).expect("write");
    let mut spans = vec![DataSpan { offset: small_at, length: 100 }, DataSpan { offset: 0, length: big }];
    let mut mover = CompactionFileMover::new(0);
    let mut file = f;
    let res = catch(|| extract_compact_segment(&mut file, &mut spans, &mut mover).map_err(|e| e.to_string()));
    let mk = |kind: &str, detail: String| Some(Finding { kind: kind.to_string(), class: format!("{kind}/wide-offsets"), detail: format!("{name}, gap {gap}, then 100 live bytes, then 5000 dead bytes: {detail}") });
    let saved = match res {
        Err(m) => {
            let site = panic_site(&m);
            return Some(Finding { kind: "panic".into(), class: format!("panic/{site}"), detail: format!("{name}: extract_compact_segment panicked at {site}") });
        }
        Ok(Err(e)) => return mk("false-refusal", format!("two disjoint spans inside the file, yet the call returned Err({e})")),
        Ok(Ok(s)) => s,
    };
    let len = file.metadata().expect("stat").len();
    let want_len = big + 100;
    if len != want_len {
        return mk("wrong-content", format!("file length after compaction is {len}, the live spans hold {want_len} bytes"));
    }
    let mut buf = vec![0u8; 100];
    file.read_exact_at(&mut buf, big).expect("read");
    if buf != small {
        return mk("wrong-content", format!("the 100 live bytes are not at offset {big} after compaction (found {})", show_bytes(&buf)));
    }
    let mut b64 = vec![0u8; 64];
    file.read_exact_at(&mut b64, 0).expect("read");
    let head_ok = b64 == head;
    file.read_exact_at(&mut b64, big - 64).expect("read");
    if !head_ok || b64 != tail {
        return mk("wrong-content", "the first span, which was in place, has been overwritten at one of its ends".to_string());
    }
    if saved != orig_len - want_len {
        return mk("wrong-bytes-saved", format!("returned {saved} bytes saved, the file shrank by {}", orig_len - want_len));
    }
    None
}

fn run_wide(rep: &Report) -> Value {
    let cases = wide_cases();
    let res = par_map(cases.len(), |i| eval_wide(cases[i].0, cases[i].1, cases[i].2));
    rep.add_evaluations(cases.len() as u64);
    rep.add_nontrivial_count(cases.len() as u64);
    let mut reported = BTreeSet::new();
    for (i, f) in res.into_iter().enumerate() {
        rep.add_outcome(fnv64(format!("wide-{}", f.as_ref().map_or("ok", |f| f.kind.as_str())).as_bytes()));
        if let Some(f) = f {
            if reported.insert(f.class.clone()) {
                rep.violation(&f.kind, &format!("wide/{}/min:{}", f.class, cases[i].0), json!({"part": "wide", "case": i}), &f.detail);
            }
        }
    }
    json!({"cases": cases.iter().map(|c| c.0).collect::<Vec<_>>(), "what": "sparse file, first live span in place, gap, 100 live bytes, 5000 dead bytes; length, saving, the small span and both ends of the large one are compared"})
}

// ---------------------------------------------------------------------------------------
// entry points
// ---------------------------------------------------------------------------------------

pub fn run(tier: Tier, seed: u64) -> i32 {
    let rep = Report::new("C18", tier, seed, Level::Exploration);
    rep.set_rule(
        "spans: one case = (grid unit, file length in units, buffer budget, ordered tuple of spans with end points on the grid); every tuple up to the stated length (repetitions, overlaps, zero-length spans included) and every larger set of disjoint non-empty spans in 3 input orders; non-trivial = data was moved or the set was refused \
         | mover: every (src, dest, len) on the grid per API; non-trivial = len > 0 and something has to move \
         | wide: six sparse-file geometries with offsets and totals around 2^31 and 2^32 | plan: every population (state × write_position per segment) up to the segment bound × threshold × segment size; non-trivial = the plan contains at least one move. All cases are distinct by construction.",
    );
    rep.assume("files live on tmpfs (/dev/shm); short reads/writes and I/O errors are not injected");
    rep.assume("spans lie inside the file (live data exists); a span beyond EOF is a caller error outside the statement");
    rep.assume("a zero-length span strictly inside another span may be refused or accepted; the empty span set may empty the file or leave it alone");
    rep.assume("SegmentInfo.index equals the position in the slice, so MoveItem segment numbers are unambiguous");
    let s = run_spans(&rep, tier, seed);
    let t_spans = rep.elapsed_s();
    let m = run_mover(&rep, tier, seed);
    let t_mover = rep.elapsed_s();
    let p = run_plan(&rep, tier);
    let wide = run_wide(&rep);
    rep.extra(
        "bounds",
        json!({"spans": s, "mover": m, "plan": p, "wide": wide, "wall_s": {"spans": (t_spans * 10.0).round() / 10.0, "mover": ((t_mover - t_spans) * 10.0).round() / 10.0, "plan": ((rep.elapsed_s() - t_mover) * 10.0).round() / 10.0}}),
    );
    rep.finish()
}

pub fn replay(w: &Value) -> i32 {
    let w = &w["witness"];
    let seed = w["seed"].as_u64().unwrap_or(0);
    let finding: Vec<Finding> = match w["part"].as_str() {
        Some("wide") => {
            let cases = wide_cases();
            let i = (w["case"].as_u64().unwrap_or(0) as usize).min(cases.len() - 1);
            println!("replaying extract_compact_segment on a sparse file: {}", cases[i].0);
            eval_wide(cases[i].0, cases[i].1, cases[i].2).into_iter().collect()
        }
        Some("spans") => {
            let c = SpanCase {
                units: w["file_units"].as_u64().unwrap_or(0),
                unit: w["unit"].as_u64().unwrap_or(1),
                budget: w["budget"].as_u64().unwrap_or(0) as usize,
                spans: w["spans_offset_length_in_units"].as_array().map(|a| a.iter().map(|s| (s[0].as_u64().unwrap_or(0), s[1].as_u64().unwrap_or(0))).collect()).unwrap_or_default(),
            };
            println!("replaying extract_compact_segment: {}", c.short());
            let scratch = Scratch::new("c18replay");
            let mut file = open_rw(&scratch.path.join("seg.data"));
            eval_spans(&mut file, &content(c.units, c.unit, seed), &c).finding.into_iter().collect()
        }
        Some("mover") => {
            let api = match w["api"].as_str() {
                Some("in-place") => "in-place",
                Some("two-files") => "two-files",
                _ => "same-file-two-handles",
            };
            let c = MoveCase {
                api,
                unit: w["unit"].as_u64().unwrap_or(1),
                units: w["file_units"].as_u64().unwrap_or(0),
                budget: w["budget"].as_u64().unwrap_or(0) as usize,
                src: w["src"].as_u64().unwrap_or(0),
                dest: w["dest"].as_u64().unwrap_or(0),
                len: w["len"].as_u64().unwrap_or(0),
            };
            println!("replaying {}: {}", c.api, c.short());
            let scratch = Scratch::new("c18replay");
            eval_move(&scratch.path, &c, seed).into_iter().collect()
        }
        Some("plan") => {
            let c = PlanCase {
                seg_size: w["segment_size"].as_u64().unwrap_or(8),
                thr100: w["threshold_hundredths"].as_u64().unwrap_or(50) as u32,
                pop: w["segments_frozen_writepos"].as_array().map(|a| a.iter().map(|s| (s[0].as_bool().unwrap_or(true), s[1].as_u64().unwrap_or(0))).collect()).unwrap_or_default(),
            };
            println!("replaying plan_archive_merge: {}", c.short());
            let plan = plan_archive_merge(&c.segments(), f64::from(c.thr100) / 100.0, c.seg_size);
            for m in &plan.moves {
                println!("  move: segment {} [{}, +{}) → segment {} @ {}", m.source_segment, m.source_offset, m.length, m.dest_segment, m.dest_offset);
            }
            eval_plan(&c).findings
        }
        _ => {
            println!("MACHINERY-ERROR: witness has no part");
            return 2;
        }
    };
    for f in &finding {
        println!("violates: {}: {}", f.class, f.detail);
    }
    if finding.is_empty() {
        println!("no violation");
        0
    } else {
        1
    }
}
