//! C04 — local storage returns every stored object byte-for-byte, at any later time.
//!
//! SEQ engine: every admissible history ≤ depth d over
//! {write(payload class × size class [× compress flag]), read(#j), query(#j), remove(#j),
//!  flush, reopen[, compact]} executed on the real `DynamicContainer` (with and without an
//! attached `LruManager`), the real `Installation` and the real `ArchiveManager` (ZLib / LZ4
//! default compression), in lock-step with a map model  encoding key → payload.
//!
//! How the encoding key of a written object is obtained (read from the code under test):
//! * `DynamicContainer::write(key, data)` returns `()` and *ignores* the key argument; the
//!   object is indexed under `MD5(single-chunk BLTE, mode N, of data)` (documented in
//!   `Container::write` / `ArchiveManager::write_content`). The harness computes that key
//!   independently (own BLTE framing + the `md5` crate) and also passes it as the `key`
//!   argument, so both readings of "write by key" agree.
//! * `Installation::write_file` returns the *content* key; the documented encoding key is
//!   again `MD5(blte_data)`. The harness uses the computed key if `has_encoding_key` confirms
//!   it right after the write and otherwise falls back to the one new entry of
//!   `get_all_index_entries()` (the key the API gave back).
//! * `ArchiveManager::write_content` returns `(archive, offset, size, ekey)`; the object is
//!   read back through `read_content(archive, offset, size)`.
//!
//! Oracle (no more than the property text): a read of a key whose write returned `Ok` and
//! that was not removed afterwards returns exactly the written bytes — right away, after
//! further writes, after `reopen` (= drop the object, construct and open/initialize a new one
//! on the same directory; none of the three types documents a close/flush call that a caller
//! must make first, `DynamicContainer::flush_all_updates` is an optional KMT merge and is an
//! operation of the alphabet). `query`/`has_encoding_key` of such a key is `true`.
//! NOT judged (the text is silent): the result of reading/querying a removed or never
//! successfully written key, the return value of `remove`/`flush`, a failing write (the
//! property is conditional on the write having succeeded), on-disk header checksums.
//! A `reopen` that fails is judged only when at least one live object exists (then that
//! object cannot be read any more).
//!
//! Besides the explicit `read(#j)` operations (which are *mutators* too: LRU touch,
//! installation read cache, non-resident marking), every history ends with an audit that
//! queries and reads every live key. The audit runs after the last operation of a history
//! only, so it never perturbs the state that longer histories continue from.
//!
//! Pre-states ("start from non-initial states"):
//! * `prefill`: one 200 000-byte object written and the store reopened.
//! * `near_full(gap)`: one small object written, then `data.000` extended to `2^30 - gap`
//!   bytes and the store reopened — the state every history of writes totalling just under
//!   1 GiB leads to (`ArchiveManager` derives its append position from the file length only;
//!   the extension is a hole, tmpfs files are sparse). 2^30 is where the 30-bit offset field
//!   of a local index entry ends, so the histories that follow enumerate every way a small
//!   alphabet of writes can fill, exactly fill, straddle or start behind that boundary, each
//!   followed by reads, queries and reopen. The oracle is unchanged: what was written reads
//!   back. Where the store puts the bytes (same file, next `data.NNN`) is not judged, only
//!   counted.

use crate::report::{Level, Report, Tier};
use crate::seq::{SeqBounds, SeqRun, SeqSubject, explore};
use crate::util::{Scratch, block_on, catch, fnv64_str, seeded_bytes};
use cascette_client_storage::StorageError;
use cascette_client_storage::container::{Container, DynamicContainer};
use cascette_client_storage::installation::Installation;
use cascette_client_storage::lru::LruManager;
use cascette_client_storage::storage::ArchiveManager;
use cascette_crypto::EncodingKey;
use cascette_formats::blte::CompressionMode;
use std::collections::BTreeMap;
use std::path::{Path, PathBuf};
use std::sync::Arc;
use std::sync::atomic::{AtomicU64, Ordering};

// ---------------------------------------------------------------------------------------
// payloads
// ---------------------------------------------------------------------------------------

#[derive(Clone, Copy, PartialEq, Eq, PartialOrd, Ord, Debug)]
pub enum Class {
    /// seeded incompressible filler
    Rand,
    /// all zero bytes (compressible)
    Zeros,
    /// starts with the magic `BLTE`, rest filler (not a valid BLTE file)
    BlteStart,
    /// filler with the magic `BLTE` at offset 0x1E (where a local entry puts it)
    BlteAt1E,
    /// a complete, valid single-chunk BLTE file (mode N) of exactly `size` bytes
    Nested,
    /// a complete 30-byte local entry header followed by a complete BLTE file
    HdrBlte,
}

pub const CLASSES: [Class; 6] =
    [Class::Rand, Class::Zeros, Class::BlteStart, Class::BlteAt1E, Class::Nested, Class::HdrBlte];

impl Class {
    pub fn name(self) -> &'static str {
        match self {
            Class::Rand => "rand",
            Class::Zeros => "zeros",
            Class::BlteStart => "blte-start",
            Class::BlteAt1E => "blte@0x1e",
            Class::Nested => "nested-blte",
            Class::HdrBlte => "hdr+blte",
        }
    }
    pub fn parse(s: &str) -> Option<Class> {
        CLASSES.iter().copied().find(|c| c.name() == s)
    }
    /// Smallest size at which the class is what its name says.
    pub fn min_size(self) -> u32 {
        match self {
            Class::Rand => 0,
            Class::Zeros => 1,
            Class::BlteStart => 4,
            Class::BlteAt1E => 34,
            Class::Nested => 9,
            Class::HdrBlte => 39,
        }
    }
}

/// The six size classes of the design.
pub const SIZES: [u32; 6] = [0, 1, 50, 100, 1000, 70_000];
pub const LARGE: u32 = 70_000;
/// Size of the object written by the pre-history of the `prefill` configurations.
pub const PREFILL_SIZE: u32 = 200_000;
/// Size of the object written by the pre-history of the `near_full` configurations (not a
/// size class of the alphabet, so its key never coincides with a key of the history).
pub const NEAR_PRE_SIZE: u32 = 300;
/// End of the range an index entry can address inside one `data.NNN`: 30 offset bits.
pub const ARCHIVE_FIELD_LIMIT: u64 = 1 << 30;
/// Bytes every stored object occupies besides its payload: 30-byte local header + 9-byte
/// BLTE frame (mode N).
pub const ENTRY_OVERHEAD: u32 = 39;

/// Own framing of a single-chunk, uncompressed BLTE file: magic, header size 0, mode 'N'.
pub fn blte_n(data: &[u8]) -> Vec<u8> {
    let mut v = Vec::with_capacity(9 + data.len());
    v.extend_from_slice(b"BLTE");
    v.extend_from_slice(&[0, 0, 0, 0]);
    v.push(b'N');
    v.extend_from_slice(data);
    v
}

/// Documented encoding key of an object stored without compression: MD5 of its BLTE form.
pub fn ekey_n(data: &[u8]) -> [u8; 16] {
    md5::compute(blte_n(data)).0
}

pub fn make_payload(class: Class, size: u32, seed: u64) -> Vec<u8> {
    let n = size as usize;
    let tag = ((class as u64) << 32) | u64::from(size);
    let filler = |k: usize, sub: u64| seeded_bytes(seed, tag ^ (sub << 48), k);
    let mut v = match class {
        Class::Rand => filler(n, 0),
        Class::Zeros => vec![0u8; n],
        Class::BlteStart => {
            let mut v = b"BLTE".to_vec();
            v.extend_from_slice(&filler(n.saturating_sub(4), 1));
            v
        }
        Class::BlteAt1E => {
            let mut v = filler(n, 2);
            if n >= 34 {
                v[30..34].copy_from_slice(b"BLTE");
            }
            v
        }
        Class::Nested => blte_n(&filler(n.saturating_sub(9), 3)),
        Class::HdrBlte => {
            let inner = blte_n(&filler(n.saturating_sub(39), 4));
            let mut key = md5::compute(&inner).0;
            key.reverse();
            let mut v = Vec::with_capacity(n);
            v.extend_from_slice(&key); // 0x00 encoding key, reversed
            v.extend_from_slice(&(inner.len() as u32 + 30).to_be_bytes()); // 0x10 size incl. header
            v.extend_from_slice(&[0, 0]); // 0x14 flags
            v.extend_from_slice(&filler(8, 5)); // 0x16 checksums (not validated by any reader)
            v.extend_from_slice(&inner); // 0x1E BLTE
            v
        }
    };
    v.truncate(n);
    debug_assert_eq!(v.len(), n);
    v
}

pub struct Pl {
    pub bytes: Vec<u8>,
    /// MD5(BLTE-N(bytes)), computed independently of the code under test
    pub ekey: [u8; 16],
}

// ---------------------------------------------------------------------------------------
// operations
// ---------------------------------------------------------------------------------------

#[derive(Clone, PartialEq)]
pub enum Op {
    Write { class: Class, size: u32, compress: bool },
    /// read the j-th object written by this history (by its encoding key)
    Read(u8),
    Query(u8),
    Remove(u8),
    Flush,
    Reopen,
    Compact,
}

impl std::fmt::Debug for Op {
    fn fmt(&self, f: &mut std::fmt::Formatter<'_>) -> std::fmt::Result {
        match self {
            Op::Write { class, size, compress } => {
                if *compress {
                    write!(f, "write({},{},compress)", class.name(), size)
                } else {
                    write!(f, "write({},{})", class.name(), size)
                }
            }
            Op::Read(j) => write!(f, "read(#{j})"),
            Op::Query(j) => write!(f, "query(#{j})"),
            Op::Remove(j) => write!(f, "remove(#{j})"),
            Op::Flush => write!(f, "flush"),
            Op::Reopen => write!(f, "reopen"),
            Op::Compact => write!(f, "compact"),
        }
    }
}

pub fn parse_op(s: &str) -> Option<Op> {
    let s = s.trim();
    let arg = |s: &str| -> Option<String> { Some(s.split_once('(')?.1.strip_suffix(')')?.to_string()) };
    let idx = |s: &str| -> Option<u8> { arg(s)?.strip_prefix('#')?.parse().ok() };
    Some(if s.starts_with("write(") {
        let a = arg(s)?;
        let parts: Vec<&str> = a.split(',').collect();
        if parts.len() < 2 {
            return None;
        }
        Op::Write {
            class: Class::parse(parts[0])?,
            size: parts[1].parse().ok()?,
            compress: parts.get(2).is_some_and(|p| *p == "compress"),
        }
    } else if s.starts_with("read(") {
        Op::Read(idx(s)?)
    } else if s.starts_with("query(") {
        Op::Query(idx(s)?)
    } else if s.starts_with("remove(") {
        Op::Remove(idx(s)?)
    } else if s == "flush" {
        Op::Flush
    } else if s == "reopen" {
        Op::Reopen
    } else if s == "compact" {
        Op::Compact
    } else {
        return None;
    })
}

// ---------------------------------------------------------------------------------------
// the three kinds of real store
// ---------------------------------------------------------------------------------------

#[derive(Clone, Copy, PartialEq, Eq, Debug)]
pub enum Kind {
    Dyn { lru: bool },
    Inst,
    /// ArchiveManager with this default compression: b'Z' or b'4'
    Arch(u8),
}

impl Kind {
    fn label(self) -> String {
        match self {
            Kind::Dyn { lru } => format!("DynamicContainer(lru={lru})"),
            Kind::Inst => "Installation".to_string(),
            Kind::Arch(m) => format!("ArchiveManager(mode={})", m as char),
        }
    }
}

enum Store {
    Dyn(DynamicContainer),
    Inst(Installation),
    Arch(ArchiveManager),
}

type Loc = (u16, u32, u32);

fn mode_of(m: u8) -> CompressionMode {
    if m == b'4' { CompressionMode::LZ4 } else { CompressionMode::ZLib }
}

fn open_store(kind: Kind, dir: &Path) -> Result<Store, String> {
    match kind {
        Kind::Dyn { lru } => {
            let mut b = DynamicContainer::builder(dir.to_path_buf());
            if lru {
                // capacity 2: with three objects the tracker evicts; eviction from the
                // recency tracker must never affect what a read returns
                let m = LruManager::new(2, dir.to_path_buf());
                b = b.lru(Arc::new(cascette_client_storage::verif_hooks::sync::RwLock::new(m)));
            }
            let c = b.build().map_err(|e| format!("build: {e}"))?;
            block_on(c.open()).map_err(|e| format!("open: {e}"))?;
            Ok(Store::Dyn(c))
        }
        Kind::Inst => {
            let i = Installation::open(dir.to_path_buf()).map_err(|e| format!("open: {e}"))?;
            block_on(i.initialize()).map_err(|e| format!("initialize: {e}"))?;
            Ok(Store::Inst(i))
        }
        Kind::Arch(m) => {
            std::fs::create_dir_all(dir).map_err(|e| format!("mkdir: {e}"))?;
            let mut a = ArchiveManager::with_compression(dir, mode_of(m));
            block_on(a.open_all()).map_err(|e| format!("open_all: {e}"))?;
            Ok(Store::Arch(a))
        }
    }
}

/// Path of `data.NNN` of a store rooted at `dir` (an installation keeps it in `data/`).
fn data_file(kind: Kind, dir: &Path, id: u16) -> PathBuf {
    let base = match kind {
        Kind::Inst => dir.join(cascette_client_storage::DATA_DIR),
        Kind::Dyn { .. } | Kind::Arch(_) => dir.to_path_buf(),
    };
    base.join(format!("data.{id:03}"))
}

fn err_variant(e: &StorageError) -> &'static str {
    match e {
        StorageError::Io(_) => "Io",
        StorageError::Index(_) => "Index",
        StorageError::Archive(_) => "Archive",
        StorageError::NotFound(_) => "NotFound",
        StorageError::InvalidFormat(_) => "InvalidFormat",
        StorageError::TruncatedRead(_) => "TruncatedRead",
        StorageError::Corruption(_) => "Corruption",
        StorageError::AccessDenied(_) => "AccessDenied",
        _ => "Other",
    }
}

impl Store {
    /// Returns the key under which the object can be read back (see module docs) and, for
    /// the archive manager, its location.
    fn write(&mut self, pl: &Pl, compress: bool, known: &[[u8; 16]]) -> Result<([u8; 16], Option<Loc>, bool), StorageError> {
        match self {
            Store::Dyn(c) => {
                block_on(c.write(&pl.ekey, &pl.bytes))?;
                Ok((pl.ekey, None, false))
            }
            Store::Inst(i) => {
                let before: Vec<[u8; 9]> = block_on(i.get_all_index_entries()).into_iter().map(|e| e.key).collect();
                block_on(i.write_file(pl.bytes.clone(), compress))?;
                if block_on(i.has_encoding_key(&EncodingKey::from_bytes(pl.ekey))) {
                    return Ok((pl.ekey, None, false));
                }
                // documented key not present: take the key the index gives back, if it is unambiguous
                let after: Vec<[u8; 9]> = block_on(i.get_all_index_entries()).into_iter().map(|e| e.key).collect();
                let fresh: Vec<[u8; 9]> = after
                    .into_iter()
                    .filter(|k| !before.contains(k) && !known.iter().any(|kk| kk[..9] == k[..]))
                    .collect();
                if fresh.len() == 1 {
                    let mut k = [0u8; 16];
                    k[..9].copy_from_slice(&fresh[0]);
                    return Ok((k, None, true));
                }
                // no way to learn the key: keep the documented one; the oracle will say "not found"
                Ok((pl.ekey, None, false))
            }
            Store::Arch(a) => {
                let (id, off, size, key) = a.write_content(&pl.bytes, compress)?;
                Ok((key, Some((id, off, size)), false))
            }
        }
    }

    fn read(&self, key: &[u8; 16], loc: Option<Loc>, expect_len: usize) -> Result<Vec<u8>, StorageError> {
        match self {
            Store::Dyn(c) => {
                // a buffer larger than the object: a read that returns more than was written shows
                let mut buf = vec![0xA5u8; expect_len + 64];
                let n = block_on(c.read(key, 0, expect_len as u32, &mut buf))?;
                buf.truncate(n);
                Ok(buf)
            }
            Store::Inst(i) => block_on(i.read_file_by_encoding_key(&EncodingKey::from_bytes(*key))),
            Store::Arch(a) => {
                let (id, off, size) = loc.expect("archive subject reads by location");
                a.read_content(id, off, size)
            }
        }
    }

    /// `None`: the store has no query operation (archive manager).
    fn query(&self, key: &[u8; 16]) -> Option<Result<bool, StorageError>> {
        match self {
            Store::Dyn(c) => Some(block_on(c.query(key))),
            Store::Inst(i) => Some(Ok(block_on(i.has_encoding_key(&EncodingKey::from_bytes(*key))))),
            Store::Arch(_) => None,
        }
    }
}

// ---------------------------------------------------------------------------------------
// subject
// ---------------------------------------------------------------------------------------

#[derive(Default)]
pub struct Counters {
    pub reads_judged: AtomicU64,
    pub reads_exact: AtomicU64,
    pub reads_unjudged: AtomicU64,
    pub queries_judged: AtomicU64,
    pub write_errors: AtomicU64,
    pub key_from_index: AtomicU64,
    pub reopen_failed_empty: AtomicU64,
    pub same_key_rewrites: AtomicU64,
    pub writes_not_doubling: AtomicU64,
    pub writes_doubling: AtomicU64,
    /// near-full pre-state: non-violating runs (explored histories, samples, minimisation
    /// candidates) after which a `data.001` exists
    pub hist_rolled_over: AtomicU64,
    /// near-full pre-state: such runs after which `data.000` is longer than 2^30 bytes
    pub hist_past_field_limit: AtomicU64,
    /// near-full pre-state: such runs after which `data.000` is exactly 2^30 bytes long
    pub hist_exact_fill: AtomicU64,
}

pub struct Subject {
    pub kind: Kind,
    pub seed: u64,
    /// pre-history: one PREFILL_SIZE object written and the store reopened (so that the
    /// mapping of the data file already covers a big file when the history starts)
    pub prefill: bool,
    /// pre-history: one NEAR_PRE_SIZE object written, `data.000` extended to
    /// `ARCHIVE_FIELD_LIMIT - gap` bytes, store reopened
    pub near_full: Option<u32>,
    pub writes: Vec<(Class, u32, bool)>,
    pub max_writes: usize,
    pub max_large: usize,
    pub max_reopen: usize,
    pub with_compact: bool,
    table: BTreeMap<(Class, u32), Arc<Pl>>,
    pub ctr: Counters,
}

impl Subject {
    pub fn new(kind: Kind, seed: u64, prefill: bool, writes: Vec<(Class, u32, bool)>) -> Subject {
        let mut table = BTreeMap::new();
        for (c, s, _) in &writes {
            table.entry((*c, *s)).or_insert_with(|| {
                let bytes = make_payload(*c, *s, seed);
                let ekey = ekey_n(&bytes);
                Arc::new(Pl { bytes, ekey })
            });
        }
        if prefill {
            let bytes = make_payload(Class::Rand, PREFILL_SIZE, seed);
            let ekey = ekey_n(&bytes);
            table.insert((Class::Rand, PREFILL_SIZE), Arc::new(Pl { bytes, ekey }));
        }
        {
            let bytes = make_payload(Class::Rand, NEAR_PRE_SIZE, seed);
            let ekey = ekey_n(&bytes);
            table.insert((Class::Rand, NEAR_PRE_SIZE), Arc::new(Pl { bytes, ekey }));
        }
        Subject {
            kind,
            seed,
            prefill,
            near_full: None,
            writes,
            max_writes: 3,
            max_large: 3,
            max_reopen: 4,
            with_compact: false,
            table,
            ctr: Counters::default(),
        }
    }

    /// Start every history from an archive that is `gap` bytes short of 2^30.
    pub fn with_near_full(mut self, gap: u32) -> Subject {
        self.near_full = Some(gap);
        self
    }

    fn payload(&self, class: Class, size: u32) -> Arc<Pl> {
        if let Some(p) = self.table.get(&(class, size)) {
            return p.clone();
        }
        let bytes = make_payload(class, size, self.seed);
        let ekey = ekey_n(&bytes);
        Arc::new(Pl { bytes, ekey })
    }
}

struct Obj {
    key: [u8; 16],
    loc: Option<Loc>,
    pl: Arc<Pl>,
    /// the write returned Ok
    ok: bool,
}

struct Live {
    loc: Option<Loc>,
    pl: Arc<Pl>,
    /// index of the history object (or "prefill") that this key was last written by
    who: String,
}

fn first_diff(a: &[u8], b: &[u8]) -> usize {
    a.iter().zip(b.iter()).position(|(x, y)| x != y).unwrap_or(a.len().min(b.len()))
}

/// Compare a read result with what was written. `None` = as the property demands.
fn judge_read(res: &Result<Vec<u8>, StorageError>, expect: &[u8]) -> Option<(String, String)> {
    match res {
        Ok(got) if got.as_slice() == expect => None,
        Ok(got) => {
            let rel = if got.len() < expect.len() {
                "shorter"
            } else if got.len() > expect.len() {
                "longer"
            } else {
                "same-length"
            };
            Some((
                format!("wrong-bytes({rel})"),
                format!(
                    "read returned {} bytes, {} were written; first difference at byte {}; got starts {}, written starts {}",
                    got.len(),
                    expect.len(),
                    first_diff(got, expect),
                    hex::encode(&got[..got.len().min(12)]),
                    hex::encode(&expect[..expect.len().min(12)])
                ),
            ))
        }
        Err(StorageError::TruncatedRead(m)) => Some(("truncated-read".into(), format!("read of a written object failed: Truncated read: {m}"))),
        Err(StorageError::NotFound(m)) => Some(("not-found".into(), format!("read of a written object failed: Content not found: {m}"))),
        Err(e) => Some((format!("read-error({})", err_variant(e)), format!("read of a written object failed: {e}"))),
    }
}

fn short_res(res: &Result<Vec<u8>, StorageError>) -> String {
    match res {
        Ok(v) => format!("ok{}:{:x}", v.len(), crate::util::fnv64(v) & 0xffff),
        Err(e) => format!("err:{}", err_variant(e)),
    }
}

impl SeqSubject for Subject {
    type Op = Op;

    fn config_name(&self) -> String {
        let base = format!("{}|prefill={}|seed={}", self.kind.label(), self.prefill, self.seed);
        match self.near_full {
            Some(gap) => format!("{base}|gap={gap}"),
            None => base,
        }
    }

    fn sig_config(&self) -> String {
        // attaching the recency tracker is not part of the signature; the pre-state is
        let base = match self.kind {
            Kind::Dyn { .. } => "DynamicContainer".to_string(),
            Kind::Inst => "Installation".to_string(),
            Kind::Arch(m) => format!("ArchiveManager[{}]", m as char),
        };
        let base = if self.prefill { format!("{base}+prefill") } else { base };
        match self.near_full {
            Some(gap) => format!("{base}+data.000@2^30-{gap}"),
            None => base,
        }
    }

    fn alphabet(&self) -> Vec<Op> {
        let mut a: Vec<Op> = self
            .writes
            .iter()
            .map(|(class, size, compress)| Op::Write { class: *class, size: *size, compress: *compress })
            .collect();
        let nj = self.max_writes.min(3) as u8;
        for j in 0..nj {
            a.push(Op::Read(j));
        }
        if !matches!(self.kind, Kind::Arch(_)) {
            for j in 0..nj {
                a.push(Op::Query(j));
            }
        }
        if matches!(self.kind, Kind::Dyn { .. }) {
            for j in 0..nj {
                a.push(Op::Remove(j));
            }
            a.push(Op::Flush);
        }
        a.push(Op::Reopen);
        if self.with_compact && matches!(self.kind, Kind::Arch(_)) {
            a.push(Op::Compact);
        }
        a
    }

    fn admissible(&self, hist: &[Op]) -> bool {
        let mut writes = 0usize;
        let mut large = 0usize;
        let mut reopen = 0usize;
        for op in hist {
            match op {
                Op::Write { size, .. } => {
                    writes += 1;
                    if *size >= LARGE {
                        large += 1;
                    }
                }
                Op::Read(j) | Op::Query(j) | Op::Remove(j) => {
                    // refers to an object written earlier in this history
                    if usize::from(*j) >= writes {
                        return false;
                    }
                }
                Op::Reopen => reopen += 1,
                Op::Flush | Op::Compact => {}
            }
        }
        writes <= self.max_writes && large <= self.max_large && reopen <= self.max_reopen
    }

    fn canon(&self, hist: &[Op]) -> String {
        // sizes and payload classes by name, objects by their index in the history
        hist.iter().map(|o| format!("{o:?}")).collect::<Vec<_>>().join(";")
    }

    fn run(&self, hist: &[Op]) -> SeqRun {
        let scratch = Scratch::new("c04");
        let dir: PathBuf = scratch.path.join("store");
        let mut calls = 0u64;
        let mut log = String::new();

        let fail = |i: usize, kind: &str, detail: String, calls: u64| SeqRun {
            violation: Some((i, kind.to_string(), detail)),
            state_key: None,
            outcome: 0,
            calls,
        };
        // a harness-side impossibility is never a verdict: panic, the driver prints MACHINERY-ERROR
        let machinery = |what: String, _calls: u64| -> SeqRun { panic!("C04 harness setup: {what}") };

        let mut store = match catch(|| open_store(self.kind, &dir)) {
            Ok(Ok(s)) => s,
            Ok(Err(e)) => return machinery(format!("cannot open an empty store: {e}"), calls),
            Err(p) => return machinery(format!("opening an empty store panicked: {p}"), calls),
        };
        calls += 1;

        let mut objs: Vec<Obj> = Vec::new();
        let mut live: BTreeMap<[u8; 16], Live> = BTreeMap::new();
        let mut file_len: u64 = 0; // bytes appended so far (for the collision statistics only)

        if self.prefill {
            let pl = self.payload(Class::Rand, PREFILL_SIZE);
            match catch(|| store.write(&pl, false, &[])) {
                Ok(Ok((key, loc, _))) => {
                    live.insert(key, Live { loc, pl: pl.clone(), who: "prefill".into() });
                    file_len += pl.bytes.len() as u64 + 39;
                }
                Ok(Err(e)) => return machinery(format!("prefill write failed: {e}"), calls),
                Err(p) => return machinery(format!("prefill write panicked: {p}"), calls),
            }
            drop(store);
            store = match catch(|| open_store(self.kind, &dir)) {
                Ok(Ok(s)) => s,
                Ok(Err(e)) => {
                    // the pre-history alone already breaks: report it against the empty history
                    return fail(0, "reopen-failed", format!("pre-history write({PREFILL_SIZE});reopen: {e}"), calls);
                }
                Err(p) => return fail(0, "panic", format!("pre-history reopen panicked: {p}"), calls),
            };
            calls += 2;
        }

        if let Some(gap) = self.near_full {
            let pl = self.payload(Class::Rand, NEAR_PRE_SIZE);
            match catch(|| store.write(&pl, false, &[])) {
                Ok(Ok((key, loc, _))) => {
                    live.insert(key, Live { loc, pl: pl.clone(), who: "pre-object".into() });
                }
                Ok(Err(e)) => return machinery(format!("near-full pre-history write failed: {e}"), calls),
                Err(p) => return machinery(format!("near-full pre-history write panicked: {p}"), calls),
            }
            drop(store);
            // stand-in for (2^30 - gap) bytes of earlier writes: the file gets that length
            let data0 = data_file(self.kind, &dir, 0);
            let target = ARCHIVE_FIELD_LIMIT - u64::from(gap);
            let grown = std::fs::OpenOptions::new().write(true).open(&data0).and_then(|f| {
                let len = f.metadata()?.len();
                if len == 0 || len > target {
                    return Err(std::io::Error::other(format!("data.000 has {len} bytes after the pre-history write")));
                }
                f.set_len(target)
            });
            if let Err(e) = grown {
                return machinery(format!("cannot extend {} to {target} bytes: {e}", data0.display()), calls);
            }
            file_len = target;
            store = match catch(|| open_store(self.kind, &dir)) {
                Ok(Ok(s)) => s,
                Ok(Err(e)) => {
                    return fail(0, "reopen-failed", format!("pre-history write({NEAR_PRE_SIZE});[data.000 grows to 2^30-{gap}];reopen: {e}"), calls);
                }
                Err(p) => return fail(0, "panic", format!("pre-history reopen of a {target}-byte data.000 panicked: {p}"), calls),
            };
            calls += 2;
        }

        for (i, op) in hist.iter().enumerate() {
            calls += 1;
            match op {
                Op::Write { class, size, compress } => {
                    let pl = self.payload(*class, *size);
                    let known: Vec<[u8; 16]> = objs.iter().map(|o| o.key).collect();
                    match catch(|| store.write(&pl, *compress, &known)) {
                        Ok(Ok((key, loc, from_index))) => {
                            if from_index {
                                self.ctr.key_from_index.fetch_add(1, Ordering::Relaxed);
                            }
                            if live.contains_key(&key) {
                                self.ctr.same_key_rewrites.fetch_add(1, Ordering::Relaxed);
                            }
                            let add = pl.bytes.len() as u64 + 39;
                            if file_len > 0 {
                                if (file_len + add) as f64 / file_len as f64 > 2.0 {
                                    self.ctr.writes_doubling.fetch_add(1, Ordering::Relaxed);
                                } else {
                                    self.ctr.writes_not_doubling.fetch_add(1, Ordering::Relaxed);
                                }
                            }
                            file_len += add;
                            live.insert(key, Live { loc, pl: pl.clone(), who: format!("#{}", objs.len()) });
                            objs.push(Obj { key, loc, pl, ok: true });
                            log.push_str("w+;");
                        }
                        Ok(Err(e)) => {
                            // the property is conditional on the write having succeeded
                            self.ctr.write_errors.fetch_add(1, Ordering::Relaxed);
                            objs.push(Obj { key: pl.ekey, loc: None, pl, ok: false });
                            log.push_str(&format!("w-{};", err_variant(&e)));
                        }
                        Err(p) => return fail(i, "panic", format!("{op:?} panicked: {p}"), calls),
                    }
                }
                Op::Read(j) => {
                    let o = &objs[usize::from(*j)];
                    if matches!(self.kind, Kind::Arch(_)) && o.loc.is_none() {
                        log.push_str("r?;");
                        continue; // failed write: no location to read from
                    }
                    let res = match catch(|| store.read(&o.key, o.loc, o.pl.bytes.len())) {
                        Ok(r) => r,
                        Err(p) => return fail(i, "panic", format!("{op:?} panicked: {p}"), calls),
                    };
                    log.push_str(&short_res(&res));
                    log.push(';');
                    let judged = o.ok && live.contains_key(&o.key);
                    if judged {
                        self.ctr.reads_judged.fetch_add(1, Ordering::Relaxed);
                        // same key ⇒ same payload (content-addressed), so the j-th payload is the expectation
                        if let Some((kind, detail)) = judge_read(&res, &o.pl.bytes) {
                            return fail(i, &kind, format!("{op:?}: {detail}"), calls);
                        }
                        self.ctr.reads_exact.fetch_add(1, Ordering::Relaxed);
                    } else {
                        self.ctr.reads_unjudged.fetch_add(1, Ordering::Relaxed);
                    }
                }
                Op::Query(j) => {
                    let o = &objs[usize::from(*j)];
                    let res = match catch(|| store.query(&o.key)) {
                        Ok(r) => r,
                        Err(p) => return fail(i, "panic", format!("{op:?} panicked: {p}"), calls),
                    };
                    log.push_str(&format!("q{:?};", res.as_ref().map(|r| r.as_ref().ok().copied())));
                    if o.ok && live.contains_key(&o.key) {
                        self.ctr.queries_judged.fetch_add(1, Ordering::Relaxed);
                        match res {
                            Some(Ok(true)) | None => {}
                            Some(Ok(false)) => return fail(i, "query-false", format!("{op:?}: a written, not removed key is reported absent"), calls),
                            Some(Err(e)) => return fail(i, &format!("query-error({})", err_variant(&e)), format!("{op:?}: {e}"), calls),
                        }
                    }
                }
                Op::Remove(j) => {
                    let o = &objs[usize::from(*j)];
                    if let Store::Dyn(c) = &store {
                        let key = o.key;
                        match catch(|| block_on(c.remove(&key))) {
                            Ok(r) => {
                                log.push_str(if r.is_ok() { "d+;" } else { "d-;" });
                                // whatever remove answered, the key is not judged any more
                                live.remove(&key);
                            }
                            Err(p) => return fail(i, "panic", format!("{op:?} panicked: {p}"), calls),
                        }
                    }
                }
                Op::Flush => {
                    if let Store::Dyn(c) = &store {
                        match catch(|| c.flush_all_updates()) {
                            Ok(r) => log.push_str(if r.is_ok() { "f+;" } else { "f-;" }),
                            Err(p) => return fail(i, "panic", format!("{op:?} panicked: {p}"), calls),
                        }
                    }
                }
                Op::Compact => {
                    if let Store::Arch(a) = &mut store {
                        match catch(|| a.compact()) {
                            Ok(r) => log.push_str(if r.is_ok() { "c+;" } else { "c-;" }),
                            Err(p) => return fail(i, "panic", format!("{op:?} panicked: {p}"), calls),
                        }
                    }
                }
                Op::Reopen => {
                    drop(store);
                    store = match catch(|| open_store(self.kind, &dir)) {
                        Ok(Ok(s)) => s,
                        Ok(Err(e)) => {
                            if live.is_empty() {
                                // nothing stored: the text says nothing; the history ends here
                                self.ctr.reopen_failed_empty.fetch_add(1, Ordering::Relaxed);
                                return SeqRun::ok(fnv64_str(&format!("{log}reopen-failed-empty")), calls);
                            }
                            return fail(i, "reopen-failed", format!("{op:?}: opening the directory again failed while {} object(s) are stored: {e}", live.len()), calls);
                        }
                        Err(p) => return fail(i, "panic", format!("{op:?} panicked: {p}"), calls),
                    };
                    log.push_str("o;");
                }
            }
        }

        // audit after the last operation: every live key is present and reads back exactly
        if !hist.is_empty() || self.prefill || self.near_full.is_some() {
            let last = hist.len().saturating_sub(1);
            for (key, lv) in &live {
                calls += 2;
                // the read first: it is the clause the property states; the query clause
                // ("not reported missing") only fires on its own when the read was exact
                let res = match catch(|| store.read(key, lv.loc, lv.pl.bytes.len())) {
                    Ok(r) => r,
                    Err(p) => return fail(last, "panic", format!("audit read of object {} panicked: {p}", lv.who), calls),
                };
                self.ctr.reads_judged.fetch_add(1, Ordering::Relaxed);
                log.push_str(&short_res(&res));
                log.push(',');
                if let Some((kind, detail)) = judge_read(&res, &lv.pl.bytes) {
                    return fail(last, &kind, format!("audit after {:?}: object {}: {detail}", hist.last(), lv.who), calls);
                }
                match catch(|| store.query(key)) {
                    Ok(Some(Ok(true))) | Ok(None) => {}
                    Ok(Some(Ok(false))) => {
                        return fail(last, "query-false", format!("audit after {:?}: object {} (written, not removed, readable) is reported absent by query", hist.last(), lv.who), calls);
                    }
                    Ok(Some(Err(e))) => {
                        return fail(last, &format!("query-error({})", err_variant(&e)), format!("audit after {:?}: object {}: {e}", hist.last(), lv.who), calls);
                    }
                    Err(p) => return fail(last, "panic", format!("audit query panicked: {p}"), calls),
                }
                self.ctr.queries_judged.fetch_add(1, Ordering::Relaxed);
                self.ctr.reads_exact.fetch_add(1, Ordering::Relaxed);
            }
        }
        drop(store);
        if self.near_full.is_some() {
            // where the bytes went is not judged, only counted (evidence + vacuity guard)
            let len0 = std::fs::metadata(data_file(self.kind, &dir, 0)).map(|m| m.len()).unwrap_or(0);
            if len0 > ARCHIVE_FIELD_LIMIT {
                self.ctr.hist_past_field_limit.fetch_add(1, Ordering::Relaxed);
            } else if len0 == ARCHIVE_FIELD_LIMIT {
                self.ctr.hist_exact_fill.fetch_add(1, Ordering::Relaxed);
            }
            if data_file(self.kind, &dir, 1).exists() {
                self.ctr.hist_rolled_over.fetch_add(1, Ordering::Relaxed);
            }
        }
        SeqRun::ok(fnv64_str(&log), calls)
    }
}

// ---------------------------------------------------------------------------------------
// alphabets and driver
// ---------------------------------------------------------------------------------------

/// Full product payload class × size class (where the class is what its name says).
fn full_writes() -> Vec<(Class, u32)> {
    let mut v = Vec::new();
    for c in CLASSES {
        for s in SIZES {
            // rand: all six; zeros: all but 0 (= rand,0); the magic-carrying classes from 50 up
            let from = match c {
                Class::Rand => 0,
                Class::Zeros => 1,
                _ => 50,
            };
            if s >= from && s >= c.min_size() {
                v.push((c, s));
            }
        }
    }
    v
}

/// Quick tier: every size class with random bytes, every special payload class at the sizes
/// where its sniffed magic is in range, and the compressible class small and large.
fn quick_writes() -> Vec<(Class, u32)> {
    vec![
        (Class::Rand, 0),
        (Class::Rand, 1),
        (Class::Rand, 50),
        (Class::Rand, 100),
        (Class::Rand, 1000),
        (Class::Rand, 70_000),
        (Class::Zeros, 1000),
        (Class::BlteStart, 50),
        (Class::BlteAt1E, 100),
        (Class::Nested, 100),
        (Class::Nested, 1000),
        (Class::HdrBlte, 100),
    ]
}

fn with_flags(w: &[(Class, u32)], both: bool, compress_subset: &[(Class, u32)]) -> Vec<(Class, u32, bool)> {
    let mut v: Vec<(Class, u32, bool)> = w.iter().map(|(c, s)| (*c, *s, false)).collect();
    if both {
        for (c, s) in w {
            if compress_subset.is_empty() || compress_subset.contains(&(*c, *s)) {
                v.push((*c, *s, true));
            }
        }
    }
    v
}

/// (subject, depth bound, wall-clock budget in seconds). The budgets are several times what
/// an idle 16-core box needs; if one is hit the evidence says `exhaustive: false`.
fn subjects(tier: Tier, seed: u64) -> Vec<(Subject, usize, u64)> {
    let q = quick_writes();
    let f = full_writes();
    // `compress = true` is enumerated for this subset on Installation (whose archive manager
    // has default compression None, so the flag changes nothing on disk today)
    let csub = [(Class::Rand, 100), (Class::Zeros, 1000), (Class::Nested, 100)];
    let csub_t = [
        (Class::Rand, 0),
        (Class::Rand, 100),
        (Class::Rand, 70_000),
        (Class::Zeros, 1000),
        (Class::Zeros, 70_000),
        (Class::BlteStart, 100),
        (Class::Nested, 100),
        (Class::HdrBlte, 1000),
    ];
    let mut out: Vec<(Subject, usize, u64)> = Vec::new();
    match tier {
        Tier::Quick => {
            let mut d0 = Subject::new(Kind::Dyn { lru: false }, seed, false, with_flags(&q, false, &[]));
            d0.max_large = 1;
            out.push((d0, 4, 30));
            let mut d1 = Subject::new(Kind::Dyn { lru: true }, seed, false, with_flags(&q, false, &[]));
            d1.max_large = 1;
            out.push((d1, 3, 20));
            let mut i0 = Subject::new(Kind::Inst, seed, false, with_flags(&q, true, &csub));
            i0.max_large = 1;
            out.push((i0, 4, 30));
            // real compression: compressible payloads small and large, both flag values
            let aw = [
                (Class::Rand, 0),
                (Class::Rand, 100),
                (Class::Rand, 1000),
                (Class::Zeros, 1000),
                (Class::Zeros, 70_000),
                (Class::Nested, 100),
                (Class::HdrBlte, 100),
            ];
            let mut a0 = Subject::new(Kind::Arch(b'Z'), seed, false, with_flags(&aw, true, &[]));
            a0.max_large = 1;
            out.push((a0, 4, 20));
            // pre-state: a 200 000-byte object already stored and mapped
            let pw = [(Class::Rand, 0), (Class::Rand, 100), (Class::Rand, 1000), (Class::Nested, 100)];
            out.push((Subject::new(Kind::Dyn { lru: false }, seed, true, with_flags(&pw, false, &[])), 3, 20));
            out.push((Subject::new(Kind::Inst, seed, true, with_flags(&pw, false, &[])), 3, 20));
            // pre-state: data.000 ends `gap` bytes before 2^30 (entries occupy size + 39 bytes:
            // 39 / 139 / 1039 for the three writes below). gap 0: already at the boundary;
            // 1: nothing fits; 139: write(100) fills it exactly; 140: one byte stays free.
            let nw = [(Class::Rand, 0), (Class::Rand, 100), (Class::Rand, 1000)];
            for gap in NEAR_GAPS_QUICK {
                out.push((Subject::new(Kind::Inst, seed, false, with_flags(&nw, false, &[])).with_near_full(gap), 4, 15));
            }
        }
        Tier::Thorough => {
            // the full product payload class × size class at depth 4 ...
            out.push((Subject::new(Kind::Dyn { lru: false }, seed, false, with_flags(&f, false, &[])), 4, 400));
            // ... and the quick alphabet one level deeper
            let mut d5 = Subject::new(Kind::Dyn { lru: false }, seed, false, with_flags(&q, false, &[]));
            d5.max_large = 1;
            out.push((d5, 5, 500));
            let mut d1 = Subject::new(Kind::Dyn { lru: true }, seed, false, with_flags(&q, false, &[]));
            d1.max_large = 1;
            out.push((d1, 4, 100));
            out.push((Subject::new(Kind::Inst, seed, false, with_flags(&f, true, &csub_t)), 4, 500));
            let mut i5 = Subject::new(Kind::Inst, seed, false, with_flags(&q, false, &[]));
            i5.max_large = 1;
            out.push((i5, 5, 250));
            for m in [b'Z', b'4'] {
                let mut a = Subject::new(Kind::Arch(m), seed, false, with_flags(&q, true, &[]));
                a.with_compact = true;
                a.max_large = 2;
                out.push((a, 4, 150));
            }
            out.push((Subject::new(Kind::Dyn { lru: false }, seed, true, with_flags(&q, false, &[])), 4, 100));
            out.push((Subject::new(Kind::Inst, seed, true, with_flags(&q, false, &[])), 4, 100));
            // near-full pre-states, one level deeper, more gaps (exact fits of one, two and
            // three entries, the large size class) and a payload that is itself a BLTE file
            let nw = [(Class::Rand, 0), (Class::Rand, 100), (Class::Rand, 1000), (Class::Rand, 70_000), (Class::Nested, 100)];
            for gap in NEAR_GAPS_THOROUGH {
                let mut s = Subject::new(Kind::Inst, seed, false, with_flags(&nw, false, &[])).with_near_full(gap);
                s.max_large = 1;
                out.push((s, 4, 120));
            }
            // the quick alphabet one level deeper
            let nq = [(Class::Rand, 0), (Class::Rand, 100), (Class::Rand, 1000)];
            for gap in NEAR_GAPS_QUICK {
                out.push((Subject::new(Kind::Inst, seed, false, with_flags(&nq, false, &[])).with_near_full(gap), 5, 120));
            }
            // the archive manager alone (objects addressed by the location write_content returned)
            let aw = [(Class::Rand, 0), (Class::Rand, 100), (Class::Zeros, 1000)];
            for gap in NEAR_GAPS_QUICK {
                out.push((Subject::new(Kind::Arch(b'Z'), seed, false, with_flags(&aw, true, &[])).with_near_full(gap), 4, 60));
            }
        }
    }
    out
}

/// Distances of the end of `data.000` from 2^30 in the near-full pre-states.
const NEAR_GAPS_QUICK: [u32; 4] = [0, 1, 100 + ENTRY_OVERHEAD, 100 + ENTRY_OVERHEAD + 1];
const NEAR_GAPS_THOROUGH: [u32; 10] = [
    0,
    1,
    ENTRY_OVERHEAD,                  // write(0) fills exactly
    100 + ENTRY_OVERHEAD,            // write(100) fills exactly
    100 + ENTRY_OVERHEAD + 1,        // ... leaves one byte
    100 + 2 * ENTRY_OVERHEAD,        // write(100) and write(0), either order, fill exactly
    1000 + ENTRY_OVERHEAD,           // write(1000) fills exactly
    1100 + 2 * ENTRY_OVERHEAD,       // write(1000) and write(100) fill exactly
    1100 + 3 * ENTRY_OVERHEAD,       // three entries fill exactly
    70_000 + ENTRY_OVERHEAD,         // the large size class fills exactly
];

/// `IndexManager::load_index` prints "DEBUG: Index 00 first 3 entries" lines with `eprintln!`
/// whenever bucket 0 has sorted entries; over a million reopen operations that floods
/// stderr. File descriptor 2 points to /dev/null while the exploration runs (verdicts and
/// machinery errors are printed to stdout by `Report::finish`). `VERIF_SHOW_PANICS` keeps it.
struct StderrGag {
    saved: i32,
}

impl StderrGag {
    fn new() -> Option<StderrGag> {
        if std::env::var_os("VERIF_SHOW_PANICS").is_some() {
            return None;
        }
        // SAFETY: plain descriptor juggling on fds owned by this process
        unsafe {
            let saved = libc::dup(2);
            let null = libc::open(c"/dev/null".as_ptr(), libc::O_WRONLY);
            if saved < 0 || null < 0 {
                return None;
            }
            libc::dup2(null, 2);
            libc::close(null);
            Some(StderrGag { saved })
        }
    }
}

impl Drop for StderrGag {
    fn drop(&mut self) {
        unsafe {
            libc::dup2(self.saved, 2);
            libc::close(self.saved);
        }
    }
}

/// A few complete cases written into the evidence: history, what the real store answered.
fn record_samples(rep: &Report, seed: u64) {
    let w = |class, size| Op::Write { class, size, compress: false };
    let cases: Vec<(Kind, Vec<Op>)> = vec![
        (Kind::Dyn { lru: false }, vec![w(Class::Rand, 1000), w(Class::Rand, 100), Op::Read(1), Op::Reopen]),
        (Kind::Inst, vec![w(Class::Nested, 100), Op::Read(0), Op::Reopen, Op::Read(0)]),
        (Kind::Dyn { lru: true }, vec![w(Class::HdrBlte, 100), Op::Remove(0), w(Class::HdrBlte, 100), Op::Flush]),
        (Kind::Arch(b'Z'), vec![Op::Write { class: Class::Zeros, size: 70_000, compress: true }, w(Class::Rand, 0), Op::Reopen, Op::Read(0)]),
    ];
    let cases: Vec<(Kind, Option<u32>, Vec<Op>)> = cases
        .into_iter()
        .map(|(k, h)| (k, None, h))
        .chain([(Kind::Inst, Some(100 + ENTRY_OVERHEAD), vec![w(Class::Rand, 100), w(Class::Rand, 0), Op::Reopen, Op::Read(1)])])
        .collect();
    for (kind, near, hist) in cases {
        let mut s = Subject::new(kind, seed, false, Vec::new());
        s.near_full = near;
        let r = s.run(&hist);
        rep.sample(serde_json::json!({
            "config": s.config_name(),
            "history": hist.iter().map(|o| format!("{o:?}")).collect::<Vec<_>>(),
            "real_calls": r.calls,
            "verdict": match &r.violation { None => "every judged read returned the written bytes".to_string(), Some((i, k, d)) => format!("violation at op {i}: {k}: {d}") },
            "audit": "after the last operation every live key was queried and read back",
        }));
    }
}

pub fn run(tier: Tier, seed: u64) -> i32 {
    let rep = Report::new("C04", tier, seed, Level::ModelChecking);
    rep.set_rule(
        "every admissible history (objects referenced by read/query/remove exist; ≤3 writes; quick: ≤1 write of 70 000 bytes) up to the depth bound over {write(payload class,size[,compress]), read(#j), query(#j), remove(#j), flush, reopen[, compact]} per subject, executed on the real DynamicContainer / Installation / ArchiveManager in lock-step with a map model ekey→payload; every history additionally ends with an audit (query + read of every live key). Subjects start from the empty store, from a store holding one 200 000-byte object, or from a store whose data.000 ends gap bytes before 2^30 (the end of the 30-bit offset field of an index entry; gap from a list of exact-fit / one-byte-off distances for the entry sizes of the alphabet), so that the enumerated writes fill, exactly fill, straddle or start behind that boundary. No state merging (the mmap snapshot of the data file, the installation read cache and the update/sorted split of the index are hidden state), so states = histories; every history is distinct and non-trivial (≥1 operation on the real store)",
    );
    rep.assume("reference model: BTreeMap encoding key → payload; a key is live from a successful write until a remove of it");
    rep.assume("encoding key of an uncompressed write = MD5('BLTE' 00000000 'N' payload), framed by the harness and hashed with the independent `md5` crate; ArchiveManager objects are addressed by the location and key that write_content returned");
    rep.assume("storage directories live on tmpfs; crash behaviour is C06's subject; 9-byte key-prefix collisions between the ≤ 30 distinct payloads do not occur (checked at start)");
    rep.assume("VERIF_SEED only selects the filler bytes of the payload classes");
    rep.assume("near-full pre-states: data.000 is given its length of 2^30-gap bytes with set_len (a hole) instead of by writing 1 GiB of objects; ArchiveManager::open_all takes the append position from the file length and nothing reads the hole. DynamicContainer is not run from these pre-states (its open() reads every data file completely into memory: 1 GiB per open); it shares ArchiveManager + IndexManager with Installation");

    // the payload table must not contain two payloads with the same 9-byte key prefix
    {
        let mut seen: BTreeMap<[u8; 9], (Class, u32)> = BTreeMap::new();
        let mut all = full_writes();
        all.push((Class::Rand, PREFILL_SIZE));
        all.push((Class::Rand, NEAR_PRE_SIZE));
        for (c, s) in all {
            let k = ekey_n(&make_payload(c, s, seed));
            let mut p = [0u8; 9];
            p.copy_from_slice(&k[..9]);
            if let Some(prev) = seen.insert(p, (c, s)) {
                rep.machinery_error(&format!("payloads {prev:?} and {:?} share a 9-byte key prefix under seed {seed}", (c, s)));
            }
        }
    }

    let gag = StderrGag::new();
    record_samples(&rep, seed);

    let mut per_subject = Vec::new();
    let mut tot = [0u64; 13];
    for (s, depth, budget) in subjects(tier, seed) {
        let started = std::time::Instant::now();
        let st = explore(&s, &SeqBounds::depth(depth).with_budget(budget), &rep);
        let wall_s = (started.elapsed().as_secs_f64() * 10.0).round() / 10.0;
        let c = &s.ctr;
        let vals = [
            c.reads_judged.load(Ordering::Relaxed),
            c.reads_exact.load(Ordering::Relaxed),
            c.reads_unjudged.load(Ordering::Relaxed),
            c.queries_judged.load(Ordering::Relaxed),
            c.write_errors.load(Ordering::Relaxed),
            c.key_from_index.load(Ordering::Relaxed),
            c.reopen_failed_empty.load(Ordering::Relaxed),
            c.same_key_rewrites.load(Ordering::Relaxed),
            c.writes_not_doubling.load(Ordering::Relaxed),
            c.writes_doubling.load(Ordering::Relaxed),
            c.hist_rolled_over.load(Ordering::Relaxed),
            c.hist_past_field_limit.load(Ordering::Relaxed),
            c.hist_exact_fill.load(Ordering::Relaxed),
        ];
        if s.near_full.is_some() && st.violations == 0 && vals[10] + vals[11] == 0 {
            rep.machinery_error(&format!("{}: no history moved the end of the stored data past 2^30 (neither a longer data.000 nor a data.001 was seen): the near-full pre-state does not do its job", s.config_name()));
        }
        for (t, v) in tot.iter_mut().zip(vals.iter()) {
            *t += *v;
        }
        per_subject.push(serde_json::json!({
            "subject": s.config_name(),
            "depth": depth,
            "depth_completed": st.completed_depth,
            "alphabet": s.alphabet().len(),
            "write_ops": s.writes.len(),
            "max_writes": s.max_writes,
            "max_large_writes": s.max_large,
            "histories": st.histories,
            "violating_histories": st.violations,
            "reads_judged": vals[0],
            "reads_exact": vals[1],
            "write_errors": vals[4],
            "wall_s": wall_s,
            "near_full_gap": s.near_full,
            "runs_ending_with_data.001": vals[10],
            "runs_ending_with_data.000_longer_than_2^30": vals[11],
            "runs_ending_with_data.000_of_exactly_2^30": vals[12],
        }));
    }
    rep.extra(
        "bounds",
        serde_json::json!({
            "size_classes": SIZES,
            "payload_classes": CLASSES.iter().map(|c| c.name()).collect::<Vec<_>>(),
            "prefill_object_bytes": PREFILL_SIZE,
            "near_full_pre_object_bytes": NEAR_PRE_SIZE,
            "near_full_gaps": match tier { Tier::Quick => NEAR_GAPS_QUICK.to_vec(), Tier::Thorough => NEAR_GAPS_THOROUGH.to_vec() },
            "entry_overhead_bytes": ENTRY_OVERHEAD,
            "per_subject": per_subject,
        }),
    );
    rep.extra(
        "oracle_counters",
        serde_json::json!({
            "reads_judged": tot[0], "reads_exact": tot[1], "reads_of_removed_or_unwritten_keys_not_judged": tot[2],
            "queries_judged": tot[3], "failed_writes_not_judged": tot[4], "installation_keys_taken_from_index": tot[5],
            "reopen_failed_with_nothing_stored": tot[6], "writes_of_an_already_live_key": tot[7],
            "writes_that_do_not_double_the_data_file": tot[8], "writes_that_more_than_double_it": tot[9],
            "near_full_runs_ending_with_data.001": tot[10],
            "near_full_runs_ending_with_data.000_longer_than_2^30": tot[11],
            "near_full_runs_ending_with_data.000_of_exactly_2^30": tot[12],
        }),
    );
    drop(gag);
    // vacuity guards
    if rep.outcomes() < 10 {
        rep.machinery_error("vacuous exploration: fewer than 10 distinct outcomes");
    }
    if tot[1] == 0 {
        rep.machinery_error("vacuous oracle: no read ever returned the written bytes (key derivation broken?)");
    }
    if tot[7] == 0 || tot[8] == 0 || tot[9] == 0 {
        rep.machinery_error("alphabet does not collide: no rewrite of a live key, or the data-file doubling threshold is not straddled");
    }
    if tot[4] > 0 {
        rep.extra("note_failed_writes", serde_json::json!("some writes returned Err; the property is conditional on success, they were not judged"));
    }
    rep.finish()
}

fn parse_config(cfg: &str) -> Option<(Kind, bool, u64, Option<u32>)> {
    let mut parts = cfg.split('|');
    let label = parts.next()?;
    let prefill = parts.next()?.strip_prefix("prefill=")? == "true";
    let seed: u64 = parts.next()?.strip_prefix("seed=")?.parse().ok()?;
    let kind = if label == "DynamicContainer(lru=true)" {
        Kind::Dyn { lru: true }
    } else if label == "DynamicContainer(lru=false)" {
        Kind::Dyn { lru: false }
    } else if label == "Installation" {
        Kind::Inst
    } else if let Some(m) = label.strip_prefix("ArchiveManager(mode=") {
        Kind::Arch(m.bytes().next()?)
    } else {
        return None;
    };
    let near_full = match parts.next() {
        Some(p) => Some(p.strip_prefix("gap=")?.parse().ok()?),
        None => None,
    };
    Some((kind, prefill, seed, near_full))
}

/// Replay a witness written by `run` (`core_ops` hold the Debug form of the operations).
pub fn replay(w: &serde_json::Value) -> i32 {
    let cfg = w["witness"]["config"].as_str().unwrap_or("");
    let Some((kind, prefill, seed, near_full)) = parse_config(cfg) else {
        println!("MACHINERY-ERROR: cannot parse config {cfg:?}");
        return 2;
    };
    let mut ops = Vec::new();
    for s in w["witness"]["core_ops"].as_array().cloned().unwrap_or_default() {
        match parse_op(s.as_str().unwrap_or("")) {
            Some(o) => ops.push(o),
            None => {
                println!("MACHINERY-ERROR: cannot parse operation {s}");
                return 2;
            }
        }
    }
    let mut subj = Subject::new(kind, seed, prefill, Vec::new());
    subj.near_full = near_full;
    // a panicking subject is reported as the observation, not as a backtrace flood
    crate::util::install_quiet_panic_hook();
    println!("replaying on {}: {}", subj.config_name(), subj.canon(&ops));
    let r = subj.run(&ops);
    match r.violation {
        Some((i, k, d)) => {
            println!("violates at op {i}: {k}: {d}");
            1
        }
        None => {
            println!("no violation");
            0
        }
    }
}
