//! C10 — a cache is a bounded map: latest value or nothing, never over its limits.
//!
//! SEQ engine: every history ≤ depth d over {put, put_with_ttl(0), put_with_ttl(1 h), get,
//! contains, remove, clear (+ "new instance on the same directory" for the disk cache)} ×
//! 3–4 colliding keys × value-size classes {0, 1, 100, limit, limit+1}, per configuration
//! (eviction policy × max_entries × max_memory_bytes; disk: flat / sub-directories), on the
//! real `MemoryCache` / `DiskCache` through the `AsyncCache` trait, in lock-step with a
//! bounded-map reference model. No state merging (the counters are hidden state), so a state
//! is the history that reaches it.
//!
//! Boundary members of the quantifier's classes are part of the grid: `max_entries` "from 1
//! up" includes `usize::MAX` (the spelling of "limit by bytes only"); "TTLs far above the
//! elapsed time" includes `Duration::MAX`, whose expiry instant no clock can represent
//! (`put_with_ttl(.., Duration::MAX)` in the TTL-extreme configurations, a class of its own in
//! signatures); "elapsed time" includes the cleanup interval of the disk cache built with its
//! background tasks (`new_with_background_tasks`, the constructor the multi-layer cache uses):
//! there the alphabet has `tick` = the interval elapses and the cleanup task runs (tokio's
//! paused clock is advanced; the task cannot run at any other moment). For the model a tick
//! collects expired entries (which was possible at any moment anyway) and may evict any
//! entries when more than `max_files` are resident — `put` itself enforces no limit on disk.
//! Configuration dimensions the quantifier does not name (directory nesting depth, what a
//! `default_ttl` of `None` stands for) are not varied.
//!
//! The oracle is exactly the statement of the property and nothing more:
//!
//! 1. *Map clause.* `get(k)` = `Some(v)` only if `v` is the value of the latest successful
//!    put for exactly `k`, that put was not with ttl 0, and no remove/clear came after it.
//!    `get(k)` = nothing for a key that was put and neither removed, cleared nor expired is
//!    accepted only if some put since then ran **while the model was at a limit**. Eviction
//!    may pick any victim and any number of victims, so the model is a *set of possible
//!    resident sets* (at most 2^4 bit masks): a put that finds a possible resident set at a
//!    limit replaces it by all of its subsets. "At a limit" is the implementation's own
//!    trigger (entries ≥ max_entries or bytes ≥ max_memory_bytes) **or** the put itself
//!    would take that resident set above a limit — a correct bounded map has to make room in
//!    that case, so a drop there is never "silent". An at-limit put may also decline to keep
//!    its own key (admission rejection, e.g. a value larger than the whole budget): the
//!    statement allows "nothing". `get` = `Err` is a violation only for a key that every
//!    possible resident set holds. Return values of `contains`, `remove`, `put` are not
//!    judged (the statement does not speak about them); a failed put makes its key
//!    unjudged until the next successful put/remove/clear of that key.
//! 2. *Bound clause* (MemoryCache, policies Lru/Lfu/Fifo/Random; not Ttl): after every
//!    operation the retrievable entries are ≤ max_entries and the sum of their value lengths
//!    is ≤ max_memory_bytes. "Bytes" are counted the way the cache itself defines usage
//!    (`size_bytes = value.len()`: no key bytes, no entry overhead) — the reading that does
//!    not alarm.
//! 3. *Books clause.* After a settling pass (a `get` on every key of the universe — that is
//!    when the implementation collects expired entries) `size()`, `stats().entry_count` and
//!    `stats().memory_usage_bytes` equal the number / total length of the values the pass
//!    returned. Before settling the figures may additionally count entries that were put
//!    with ttl 0 and not yet touched (DESIGN §6.3), and they may not be *below* what the pass
//!    returns (a get adds nothing, so whatever it returns was retrievable when the figures
//!    were read). One family of under-counts is expected on this tree and kept from pruning
//!    the exploration: a DiskCache created on a filled directory keeps an empty index until
//!    keys are read (`*-undercount-after-reopen`). Those are *soft*: recorded, the history
//!    is extended as usual, and after the exploration each kind is reported once — the
//!    smallest history (length, then canonical form) over all plain disk configurations,
//!    confirmed and minimised with the clause made strict. Every other under-count is an
//!    ordinary violation.
//! 4. *Persistence clause* (DiskCache): `Reopen` replaces the instance by a new one on the
//!    same directory and does not change the model, so clause 1 demands that a ttl = 1 h /
//!    default-ttl value is returned by the new instance and a ttl = 0 value is not.
//!
//! Every history is observed once, at its end (the settling pass is also the observer);
//! every prefix of a history is itself an explored history, so "after every operation" is
//! covered without the observer disturbing longer histories. `size()` and `stats()` are
//! read-only in both caches (atomic loads, a directory scan), so histories that interleave
//! them are equivalent to histories that do not; they are called as observers at the end of
//! every history instead of being alphabet members.
//!
//! Nondeterminism the subject owns: `Random` draws from an unseedable thread RNG, `Lfu`/`Lru`
//! /`Fifo` break ties by DashMap iteration order (randomly keyed hasher per instance). The
//! model is victim-independent by construction. On a *defective* tree a violation may still
//! depend on the victim, therefore a violation is only reported if the same history
//! violates the same clause at the same step in REPEATS_* fresh executions in a row
//! (victim-dependent ones are counted in `victim_dependent_violations_not_judged`), and every
//! later query for that history (minimiser, replay-before-report) executes it again.

use crate::report::{Level, Report, Tier};
use crate::seq::{SeqBounds, SeqRun, SeqSubject, explore};
use crate::util::{Scratch, block_on, catch, fnv64_str, take_last_panic_loc};
use bytes::Bytes;
use cascette_cache::config::{DiskCacheConfig, MemoryCacheConfig};
use cascette_cache::key::CacheKey;
use cascette_cache::traits::{AsyncCache, EvictionPolicy};
use cascette_cache::{DiskCache, MemoryCache};
use serde_json::json;
use std::path::Path;
use std::collections::HashMap;
use std::sync::Mutex;
use std::sync::atomic::{AtomicU64, Ordering};
use std::time::Duration;

/// Fresh executions that must all violate identically before a violation is reported:
/// histories in which some put ran at a limit (an eviction victim may have been chosen) /
/// histories without one and all disk histories (nothing the subject could have drawn).
const REPEATS_EVICTING: usize = 32;
const REPEATS_PLAIN: usize = 3;
/// Confirmed (history → step, clause) verdicts; a later call for the same history (the
/// engine's minimiser and its replay-before-report) executes it once more and compares.
const MEMO_CAP: usize = 300_000;
/// Candidate histories kept per soft finding kind.
const SOFT_KEEP: usize = 6;

static VICTIM_DEPENDENT: AtomicU64 = AtomicU64::new(0);
/// Vacuity counters: how often the interesting paths were really taken (sharded per thread
/// so that 16 workers do not fight over one cache line).
const SEEN_HIT: usize = 0; // get answered with the latest value
const SEEN_EVICTED: usize = 1; // live key answered "nothing", excused by a limit
const SEEN_EXPIRED_MISS: usize = 2; // ttl-0 key answered "nothing"
const SEEN_HIT_AFTER_REOPEN: usize = 3; // latest value returned by a new disk instance
const SEEN_TICK_REMOVED: usize = 4; // a cleanup tick deleted at least one cache file
const SEEN_MAX_TTL_PUT: usize = 5; // put_with_ttl(Duration::MAX) was executed
const SEEN_MAX_TTL_HIT: usize = 6; // a value stored with ttl = Duration::MAX was returned
const SEEN_N: usize = 7;

#[repr(align(64))]
struct Shard([AtomicU64; SEEN_N]);
static SHARDS: [Shard; 64] = [const { Shard([const { AtomicU64::new(0) }; SEEN_N]) }; 64];
static NEXT_SHARD: AtomicU64 = AtomicU64::new(0);
thread_local! {
    static SHARD_ID: usize = (NEXT_SHARD.fetch_add(1, Ordering::Relaxed) % 64) as usize;
}
fn tally(what: usize) {
    SHARD_ID.with(|s| SHARDS[*s].0[what].fetch_add(1, Ordering::Relaxed));
}
fn tally_total(what: usize) -> u64 {
    SHARDS.iter().map(|s| s.0[what].load(Ordering::Relaxed)).sum()
}

/// Key universe. `"x.y"` / `"x.tmp"`: one key's temporary file is the other key's data file.
pub const KEYS: [&str; 4] = ["a", "b", "x.y", "x.tmp"];

#[derive(Clone, Debug, PartialEq, Eq, Hash)]
pub struct TKey(pub &'static str);

impl CacheKey for TKey {
    fn as_cache_key(&self) -> &str {
        self.0
    }
}

#[derive(Clone, Copy, PartialEq, Eq)]
pub enum Ttl {
    /// `put` (the cache's default ttl: 1 h memory / 24 h disk — never expires during a run)
    Default,
    /// `put_with_ttl(.., 0)` — already expired
    Zero,
    /// `put_with_ttl(.., 1 h)` — never expires during a run
    Hour,
    /// `put_with_ttl(.., Duration::MAX)` — the far end of "far above the elapsed time": the
    /// expiry instant lies beyond what the clocks can represent; never expires
    Max,
}

#[derive(Clone, PartialEq, Eq)]
pub enum Op {
    Put { k: u8, size: u32, ttl: Ttl },
    Get(u8),
    Contains(u8),
    Remove(u8),
    Clear,
    /// disk only: drop the instance, create a new one on the same directory
    Reopen,
    /// disk cache with background tasks only: the cleanup interval elapses (tokio's paused
    /// clock is advanced past it and the cleanup task runs to its next wait)
    Tick,
}

impl std::fmt::Debug for Op {
    fn fmt(&self, f: &mut std::fmt::Formatter<'_>) -> std::fmt::Result {
        match self {
            Op::Put { k, size, ttl } => {
                let name = match ttl {
                    Ttl::Default => "put",
                    Ttl::Zero => "put_ttl0",
                    Ttl::Hour => "put_ttl1h",
                    Ttl::Max => "put_ttlmax",
                };
                write!(f, "{name}({},{size})", KEYS[*k as usize])
            }
            Op::Get(k) => write!(f, "get({})", KEYS[*k as usize]),
            Op::Contains(k) => write!(f, "contains({})", KEYS[*k as usize]),
            Op::Remove(k) => write!(f, "remove({})", KEYS[*k as usize]),
            Op::Clear => write!(f, "clear"),
            Op::Reopen => write!(f, "reopen"),
            Op::Tick => write!(f, "tick"),
        }
    }
}

fn parse_op(s: &str) -> Option<Op> {
    let s = s.trim();
    if s == "clear" {
        return Some(Op::Clear);
    }
    if s == "reopen" {
        return Some(Op::Reopen);
    }
    if s == "tick" {
        return Some(Op::Tick);
    }
    let open = s.find('(')?;
    let name = &s[..open];
    let args: Vec<&str> = s[open + 1..].trim_end_matches(')').split(',').collect();
    let kname = args.first()?.trim();
    let k = KEYS.iter().position(|x| *x == kname)? as u8;
    Some(match name {
        "get" => Op::Get(k),
        "contains" => Op::Contains(k),
        "remove" => Op::Remove(k),
        "put" | "put_ttl0" | "put_ttl1h" | "put_ttlmax" => {
            let size: u32 = args.get(1)?.trim().parse().ok()?;
            let ttl = match name {
                "put" => Ttl::Default,
                "put_ttl0" => Ttl::Zero,
                "put_ttlmax" => Ttl::Max,
                _ => Ttl::Hour,
            };
            Op::Put { k, size, ttl }
        }
        _ => return None,
    })
}

#[derive(Clone, Debug, PartialEq)]
pub enum Kind {
    /// `cleanup`: built with `new_with_cleanup` (what `MultiLayerCacheImpl` uses for its memory
    /// layer) on a runtime with a paused clock, like the disk cache with background tasks
    Mem { policy: EvictionPolicy, max_entries: usize, max_bytes: Option<usize>, cleanup: bool, metrics_off: bool },
    /// `background`: built with `new_with_background_tasks` (what `MultiLayerCacheImpl` uses
    /// for its disk layers) on a runtime with a paused clock; `max_files` is only enforced by
    /// the background cleanup
    Disk { subdirs: bool, background: bool, max_files: usize },
}

/// `max_files` of the disk configurations that never reach it.
const DISK_MAX_FILES: usize = 100_000;

pub struct Subject {
    pub kind: Kind,
    /// indices into KEYS
    pub keys: Vec<u8>,
    /// value sizes for `put`
    pub sizes: Vec<u32>,
    /// value sizes for `put_with_ttl(0)`
    pub sizes_ttl0: Vec<u32>,
    /// value sizes for `put_with_ttl(1 h)`
    pub sizes_hour: Vec<u32>,
    /// value sizes for `put_with_ttl(Duration::MAX)`
    pub sizes_max: Vec<u32>,
    /// false: an under-count by an instance that was created on a filled directory is recorded
    /// in `soft` and the history is explored further; true (minimiser, replay): it is a violation
    pub undercount_hard: bool,
    /// kind → (occurrences, the smallest histories by (length, canonical form))
    pub soft: Mutex<std::collections::BTreeMap<String, (u64, Vec<(usize, String, Vec<Op>)>)>>,
    pub seed: u64,
    /// exact history → (step, clause) of violations confirmed by repeated execution
    pub memo: Mutex<HashMap<String, (usize, String)>>,
}

fn policy_name(p: &EvictionPolicy) -> &'static str {
    match p {
        EvictionPolicy::Lru => "Lru",
        EvictionPolicy::Lfu => "Lfu",
        EvictionPolicy::Fifo => "Fifo",
        EvictionPolicy::Random => "Random",
        EvictionPolicy::Ttl => "Ttl",
    }
}

fn parse_policy(s: &str) -> Option<EvictionPolicy> {
    Some(match s {
        "Lru" => EvictionPolicy::Lru,
        "Lfu" => EvictionPolicy::Lfu,
        "Fifo" => EvictionPolicy::Fifo,
        "Random" => EvictionPolicy::Random,
        "Ttl" => EvictionPolicy::Ttl,
        _ => return None,
    })
}

/// `max_entries` values from this on are "no entry limit" for a universe of ≤ 4 keys.
const UNLIMITED_ENTRIES: usize = 1000;

// ---------------------------------------------------------------------------------------------
// reference model
// ---------------------------------------------------------------------------------------------

#[derive(Clone)]
struct Info {
    val: Bytes,
    size: u64,
    expired: bool,
    /// stored with ttl = Duration::MAX (vacuity counter only)
    max_ttl: bool,
}

/// Why the model holds no value for a key (only used to name the violated clause).
#[derive(Clone, Copy, PartialEq)]
enum Gone {
    NeverPut,
    Removed,
    Cleared,
}

struct Model {
    max_entries: usize,
    max_bytes: Option<u64>,
    /// latest successful put per key since the last remove/clear of that key
    info: [Option<Info>; 4],
    gone: [Gone; 4],
    /// a put of this key failed: unjudged until the next successful put/remove/clear
    tainted: [bool; 4],
    /// bit m set ⇔ "exactly the keys of mask m are resident" is possible
    poss: u16,
    /// every value ever put, for naming what a wrong value is
    puts: Vec<(u8, Bytes)>,
    /// some put found a possible resident set at a limit (so eviction may have happened)
    limit_seen: bool,
    /// the instance was replaced by a new one on the same directory (disk)
    reopened: bool,
}

impl Model {
    fn new(max_entries: usize, max_bytes: Option<u64>) -> Model {
        Model {
            max_entries,
            max_bytes,
            info: [None, None, None, None],
            gone: [Gone::NeverPut; 4],
            tainted: [false; 4],
            poss: 1, // only the empty resident set
            puts: Vec::new(),
            limit_seen: false,
            reopened: false,
        }
    }

    fn bytes_of(&self, mask: u8) -> u64 {
        (0..4).filter(|j| mask & (1 << j) != 0).map(|j| self.info[j].as_ref().map_or(0, |i| i.size)).sum()
    }

    /// Entries put with ttl 0 may be collected by the implementation at any moment.
    fn close_under_expiry(&mut self) {
        for j in 0..4 {
            if self.info[j].as_ref().is_some_and(|i| i.expired) {
                let bit = 1u8 << j;
                for m in 0..16u8 {
                    if self.poss & (1 << m) != 0 && m & bit != 0 {
                        self.poss |= 1 << (m & !bit);
                    }
                }
            }
        }
    }

    fn put_ok(&mut self, k: u8, val: Bytes, expired: bool) {
        let size = val.len() as u64;
        let bit = 1u8 << k;
        let mut np: u16 = 0;
        for m in 0..16u8 {
            if self.poss & (1 << m) == 0 {
                continue;
            }
            let cnt = m.count_ones() as usize;
            let bytes = self.bytes_of(m);
            let m2 = m | bit;
            let cnt2 = m2.count_ones() as usize;
            let bytes2 = self.bytes_of(m & !bit) + size;
            let at_limit = cnt >= self.max_entries
                || self.max_bytes.is_some_and(|b| bytes >= b)
                || cnt2 > self.max_entries
                || self.max_bytes.is_some_and(|b| bytes2 > b);
            if at_limit {
                self.limit_seen = true;
                // any victims, possibly the new entry itself
                let mut s = m2;
                loop {
                    np |= 1 << s;
                    if s == 0 {
                        break;
                    }
                    s = (s - 1) & m2;
                }
            } else {
                np |= 1 << m2;
            }
        }
        self.poss = np;
        self.info[k as usize] = Some(Info { val: val.clone(), size, expired, max_ttl: false });
        self.tainted[k as usize] = false;
        self.puts.push((k, val));
        self.close_under_expiry();
    }

    fn put_failed(&mut self, k: u8) {
        // old value, new value or nothing: the key is not judged; residency unknown
        self.tainted[k as usize] = true;
        let bit = 1u8 << k;
        for m in 0..16u8 {
            if self.poss & (1 << m) != 0 {
                self.poss |= 1 << (m & !bit);
                if self.info[k as usize].is_some() {
                    self.poss |= 1 << (m | bit);
                }
            }
        }
    }

    fn forget(&mut self, k: u8, why: Gone) {
        let bit = 1u8 << k;
        let mut np = 0u16;
        for m in 0..16u8 {
            if self.poss & (1 << m) != 0 {
                np |= 1 << (m & !bit);
            }
        }
        self.poss = np;
        self.info[k as usize] = None;
        self.gone[k as usize] = why;
        self.tainted[k as usize] = false;
    }

    fn clear(&mut self) {
        self.poss = 1;
        for j in 0..4 {
            if self.info[j].is_some() || self.gone[j] != Gone::NeverPut {
                self.gone[j] = Gone::Cleared;
            }
            self.info[j] = None;
            self.tainted[j] = false;
        }
    }

    /// The background cleanup ran: it collects expired entries (already possible at any
    /// moment, see `close_under_expiry`) and, when more than `max_files` entries are resident,
    /// evicts down to a lower mark — which entries is its business: any subset may remain.
    fn tick(&mut self, max_files: usize) {
        let mut np: u16 = 0;
        for m in 0..16u8 {
            if self.poss & (1 << m) == 0 {
                continue;
            }
            if (m.count_ones() as usize) > max_files {
                self.limit_seen = true;
                let mut s = m;
                loop {
                    np |= 1 << s;
                    if s == 0 {
                        break;
                    }
                    s = (s - 1) & m;
                }
            } else {
                np |= 1 << m;
            }
        }
        self.poss = np;
        self.close_under_expiry();
    }

    fn held_in_all(&self, k: u8) -> bool {
        let bit = 1u8 << k;
        (0..16u8).all(|m| self.poss & (1 << m) == 0 || m & bit != 0)
    }

    /// Judge a `get` result; returns `Some((kind, detail))` on violation.
    fn judge_get(&mut self, k: u8, res: &Result<Option<Bytes>, String>) -> Option<(&'static str, String)> {
        let ku = k as usize;
        let bit = 1u8 << k;
        let name = KEYS[ku];
        match res {
            Ok(Some(v)) => {
                if self.tainted[ku] {
                    return None;
                }
                match &self.info[ku] {
                    Some(i) if !i.expired && i.val == *v => {
                        tally(SEEN_HIT);
                        if i.max_ttl {
                            tally(SEEN_MAX_TTL_HIT);
                        }
                        if self.reopened {
                            tally(SEEN_HIT_AFTER_REOPEN);
                        }
                        // resident for sure now
                        let mut np = 0u16;
                        for m in 0..16u8 {
                            if self.poss & (1 << m) != 0 && m & bit != 0 {
                                np |= 1 << m;
                            }
                        }
                        if np == 0 {
                            // had been observed absent and is back with the latest value: the
                            // statement allows it ("latest value or nothing")
                            for m in 0..16u8 {
                                if self.poss & (1 << m) != 0 {
                                    np |= 1 << (m | bit);
                                }
                            }
                        }
                        self.poss = np;
                        None
                    }
                    Some(i) if i.expired && i.val == *v => Some((
                        "get-served-expired",
                        format!("get({name}) returned the {}-byte value that was put with ttl 0", v.len()),
                    )),
                    Some(_) => Some(self.name_wrong_value(k, v, "the key holds a newer value")),
                    None => {
                        let why = match self.gone[ku] {
                            Gone::NeverPut => "the key was never put",
                            Gone::Removed => "the key was removed",
                            Gone::Cleared => "the cache was cleared",
                        };
                        Some(self.name_wrong_value(k, v, why))
                    }
                }
            }
            Ok(None) => {
                let live = self.info[ku].as_ref().is_some_and(|i| !i.expired);
                if live && !self.tainted[ku] && self.held_in_all(k) {
                    return Some((
                        "get-lost",
                        format!(
                            "get({name}) returned nothing although the key was put, not removed/cleared/expired, and no put since ran at a limit"
                        ),
                    ));
                }
                let expired = self.info[ku].as_ref().is_some_and(|i| i.expired);
                if live {
                    tally(SEEN_EVICTED);
                } else if expired {
                    tally(SEEN_EXPIRED_MISS);
                }
                let mut np = 0u16;
                for m in 0..16u8 {
                    if self.poss & (1 << m) != 0 {
                        if m & bit == 0 {
                            np |= 1 << m;
                        } else if expired || self.tainted[ku] {
                            np |= 1 << (m & !bit);
                        }
                    }
                }
                self.poss = np;
                None
            }
            Err(e) => {
                let live = self.info[ku].as_ref().is_some_and(|i| !i.expired);
                if live && !self.tainted[ku] && self.held_in_all(k) {
                    return Some(("get-error", format!("get({name}) returned Err({e}) for a key the model holds")));
                }
                // not judged; residency of k unknown afterwards
                for m in 0..16u8 {
                    if self.poss & (1 << m) != 0 {
                        self.poss |= 1 << (m & !bit);
                    }
                }
                None
            }
        }
    }

    fn name_wrong_value(&self, k: u8, v: &Bytes, why: &str) -> (&'static str, String) {
        let name = KEYS[k as usize];
        let gone = self.info[k as usize].is_none();
        let own_old = self.puts.iter().any(|(pk, pv)| *pk == k && pv == v);
        let foreign = self.puts.iter().find(|(pk, pv)| *pk != k && pv == v).map(|(pk, _)| *pk);
        // size-0 values are all equal: an empty answer for a removed key is "removed", not "foreign"
        if gone && (own_old || v.is_empty()) {
            let kind = match self.gone[k as usize] {
                Gone::Removed => "get-served-removed",
                Gone::Cleared => "get-served-cleared",
                Gone::NeverPut => "get-served-never-put",
            };
            (kind, format!("get({name}) returned a {}-byte value although {why}", v.len()))
        } else if own_old {
            ("get-served-replaced", format!("get({name}) returned an earlier {}-byte value of this key although {why}", v.len()))
        } else if let Some(f) = foreign {
            ("get-served-other-key", format!("get({name}) returned the value that was put for key {} ({why})", KEYS[f as usize]))
        } else {
            ("get-served-unknown", format!("get({name}) returned {} bytes that were never put ({why})", v.len()))
        }
    }

    /// Keys put with ttl 0 that may still be resident (counted before settling at most).
    fn expired_slack(&self) -> (usize, u64) {
        let mut n = 0;
        let mut b = 0;
        for j in 0..4 {
            if let Some(i) = &self.info[j] {
                let bit = 1u8 << j;
                let maybe = (0..16u8).any(|m| self.poss & (1 << m) != 0 && m & bit != 0);
                if i.expired && maybe {
                    n += 1;
                    b += i.size;
                }
            }
        }
        (n, b)
    }
}

// ---------------------------------------------------------------------------------------------
// subject
// ---------------------------------------------------------------------------------------------

/// Size class whose value is the same bytes for every put (all other values are distinct per
/// step): lets a history re-put byte-identical content under another TTL class.
pub const SAME_VALUE_SIZE: u32 = 7;

fn value_for(seed: u64, step: usize, size: u32) -> Bytes {
    if size == SAME_VALUE_SIZE {
        return Bytes::from_static(b"SAMEVAL");
    }
    // first byte identifies the put (distinct per step), the rest is seed-dependent filler
    let mut v = Vec::with_capacity(size as usize);
    for j in 0..size as usize {
        if j == 0 {
            v.push((step + 1) as u8);
        } else {
            v.push((seed as u8).wrapping_add((j as u8).wrapping_mul(7)).wrapping_add(step as u8));
        }
    }
    Bytes::from(v)
}

fn open_cache(kind: &Kind, dir: &Path) -> Result<Box<dyn AsyncCache<TKey>>, String> {
    match kind {
        Kind::Mem { policy, max_entries, max_bytes, cleanup, metrics_off } => {
            let mut cfg = MemoryCacheConfig::new().with_max_entries(*max_entries).with_eviction_policy(policy.clone());
            cfg.max_memory_bytes = *max_bytes;
            // statistics collection is optional; the books (size, usage, limits) are not
            cfg.enable_metrics = !*metrics_off;
            cfg.default_ttl = None; // put() then uses the built-in 1 h
            if *cleanup {
                // the cleanup task ticks every CLEANUP_INTERVAL of the paused clock (`Op::Tick`)
                cfg.cleanup_interval = CLEANUP_INTERVAL;
                MemoryCache::<TKey>::new_with_cleanup(cfg).map(|c| Box::new(c) as Box<dyn AsyncCache<TKey>>).map_err(|e| e.to_string())
            } else {
                MemoryCache::<TKey>::new(cfg).map(|c| Box::new(c) as Box<dyn AsyncCache<TKey>>).map_err(|e| e.to_string())
            }
        }
        Kind::Disk { subdirs, background, max_files } => {
            let mut cfg = DiskCacheConfig::new(dir).with_max_files(*max_files).with_subdirectories(*subdirs, if *subdirs { 2 } else { 0 });
            cfg.max_disk_bytes = None;
            if *background {
                // the cleanup task ticks every CLEANUP_INTERVAL of the paused clock (`Op::Tick`
                // advances it); the sync task fires once with the first tick and then never again
                cfg.cleanup_interval = CLEANUP_INTERVAL;
                cfg.sync_interval = Duration::from_secs(10 * 365 * 24 * 3600);
                DiskCache::<TKey>::new_with_background_tasks(cfg).map(|c| Box::new(c) as Box<dyn AsyncCache<TKey>>).map_err(|e| e.to_string())
            } else {
                DiskCache::<TKey>::new(cfg).map(|c| Box::new(c) as Box<dyn AsyncCache<TKey>>).map_err(|e| e.to_string())
            }
        }
    }
}

const CLEANUP_INTERVAL: Duration = Duration::from_secs(300);

thread_local! {
    // Runtime of the disk configurations with background tasks: tokio's clock is paused, so the
    // cleanup task runs exactly when `Op::Tick` advances the clock past its interval and never
    // in between. TTLs use std's clocks and stay real.
    static PAUSED_RT: tokio::runtime::Runtime = tokio::runtime::Builder::new_current_thread()
        .enable_all()
        .start_paused(true)
        .build()
        .expect("tokio runtime (paused clock)");
}

/// The background sync task of `DiskCache` runs `sync(1)` on its first tick. Flushing the whole
/// machine once per history is no part of the cache's state: with an empty PATH the spawn fails
/// and the task carries on (same arrangement as the C12 workers). Called before any thread of
/// the check exists.
fn disable_sync_command() {
    // SAFETY: called at the start of `run` / `replay`, on the only thread of the process.
    unsafe { std::env::set_var("PATH", "/nonexistent-c10") };
}

fn count_files(dir: &Path) -> usize {
    let Ok(rd) = std::fs::read_dir(dir) else { return 0 };
    rd.flatten().map(|e| if e.path().is_dir() { count_files(&e.path()) } else { 1 }).sum()
}

impl Subject {
    fn is_disk(&self) -> bool {
        matches!(self.kind, Kind::Disk { .. })
    }

    fn limits(&self) -> (usize, Option<u64>) {
        match &self.kind {
            Kind::Mem { max_entries, max_bytes, .. } => (*max_entries, max_bytes.map(|b| b as u64)),
            // put() enforces no limit (only the background cleanup does, see `Op::Tick`): a plain map
            Kind::Disk { .. } => (DISK_MAX_FILES, None),
        }
    }

    fn background(&self) -> bool {
        matches!(self.kind, Kind::Disk { background: true, .. } | Kind::Mem { cleanup: true, .. })
    }

    fn bound_clause_applies(&self) -> bool {
        matches!(&self.kind, Kind::Mem { policy, .. } if *policy != EvictionPolicy::Ttl)
    }

    /// Value-size class for signatures: relative to the byte budget where one is configured
    /// (`L` = exactly the budget, `L+` = larger than the whole budget), empty / non-empty for
    /// the disk cache (no limit is enforced there), the literal size otherwise.
    fn size_class(&self, size: u32) -> String {
        match &self.kind {
            Kind::Mem { max_bytes: Some(l), .. } => {
                if size as usize == *l {
                    "L".into()
                } else if size as usize > *l {
                    "L+".into()
                } else {
                    size.to_string()
                }
            }
            Kind::Mem { max_bytes: None, .. } => size.to_string(),
            Kind::Disk { .. } => if size == 0 { "0".into() } else { "n".into() },
        }
    }

    /// Remember a soft finding: per kind the count and the `SOFT_KEEP` smallest histories.
    fn record_soft(&self, kind: &str, hist: &[Op]) {
        let mut g = self.soft.lock().unwrap();
        let e = g.entry(kind.to_string()).or_insert_with(|| (0, Vec::new()));
        e.0 += 1;
        if e.1.len() == SOFT_KEEP && e.1.last().is_some_and(|w| w.0 < hist.len()) {
            return;
        }
        let c = self.canon(hist);
        if e.1.iter().any(|w| w.1 == c) {
            return;
        }
        e.1.push((hist.len(), c, hist.to_vec()));
        e.1.sort_by(|a, b| (a.0, &a.1).cmp(&(b.0, &b.1)));
        e.1.truncate(SOFT_KEEP);
    }

    /// One fresh execution of `hist` on a fresh real cache and a fresh model.
    fn run_once(&self, hist: &[Op]) -> (SeqRun, bool) {
        let scratch = if self.is_disk() { Some(Scratch::new("c10")) } else { None };
        let dir = scratch.as_ref().map(|s| s.path.join("cache")).unwrap_or_else(|| "/nonexistent-c10".into());
        let res = if self.background() {
            catch(|| PAUSED_RT.with(|rt| rt.block_on(self.run_async(hist, &dir))))
        } else {
            catch(|| block_on(self.run_async(hist, &dir)))
        };
        match res {
            Ok(r) => r,
            Err(msg) => {
                let loc = take_last_panic_loc().map(|l| crate::util::norm_loc(&l)).unwrap_or_default();
                let r = SeqRun {
                    violation: Some((hist.len().saturating_sub(1), "panic".into(), format!("panic at {loc}: {msg}"))),
                    state_key: None,
                    outcome: 0,
                    calls: hist.len() as u64,
                };
                (r, true)
            }
        }
    }

    async fn run_async(&self, hist: &[Op], dir: &Path) -> (SeqRun, bool) {
        let (max_entries, max_bytes) = self.limits();
        let mut model = Model::new(max_entries, max_bytes);
        let r = self.run_model(hist, dir, &mut model).await;
        (r, model.limit_seen)
    }

    async fn run_model(&self, hist: &[Op], dir: &Path, model: &mut Model) -> SeqRun {
        let (max_entries, max_bytes) = self.limits();
        let mut calls = 0u64;
        let mut obs = String::new();
        let fail = |i: usize, kind: &str, detail: String, calls: u64| SeqRun {
            violation: Some((i, kind.to_string(), detail)),
            state_key: None,
            outcome: 0,
            calls,
        };
        let mut cache = match open_cache(&self.kind, dir) {
            Ok(c) => c,
            Err(e) => return fail(0, "open-error", format!("cannot create the cache: {e}"), calls),
        };

        for (i, op) in hist.iter().enumerate() {
            calls += 1;
            match op {
                Op::Put { k, size, ttl } => {
                    let v = value_for(self.seed, i, *size);
                    let key = TKey(KEYS[*k as usize]);
                    let r = match ttl {
                        Ttl::Default => cache.put(key, v.clone()).await,
                        Ttl::Zero => cache.put_with_ttl(key, v.clone(), Duration::ZERO).await,
                        Ttl::Hour => cache.put_with_ttl(key, v.clone(), Duration::from_secs(3600)).await,
                        Ttl::Max => {
                            tally(SEEN_MAX_TTL_PUT);
                            // two members of "beyond the clock": the largest Duration, and (size class
                            // 100) the largest whole number of milliseconds a u64 holds — added to the
                            // current time it no longer fits the expiry field of a cache file
                            let far = if *size == 100 { Duration::from_millis(u64::MAX) } else { Duration::MAX };
                            cache.put_with_ttl(key, v.clone(), far).await
                        }
                    };
                    match r {
                        Ok(()) => {
                            model.put_ok(*k, v, *ttl == Ttl::Zero);
                            if *ttl == Ttl::Max {
                                if let Some(i) = model.info[*k as usize].as_mut() {
                                    i.max_ttl = true;
                                }
                            }
                            obs.push('p');
                        }
                        Err(_) => {
                            model.put_failed(*k);
                            obs.push('P');
                        }
                    }
                }
                Op::Get(k) => {
                    let r = cache.get(&TKey(KEYS[*k as usize])).await.map_err(|e| e.to_string());
                    obs.push_str(match &r {
                        Ok(Some(_)) => "g1",
                        Ok(None) => "g0",
                        Err(_) => "gE",
                    });
                    if let Some((kind, d)) = model.judge_get(*k, &r) {
                        return fail(i, kind, d, calls);
                    }
                }
                Op::Contains(k) => {
                    // return value not judged (the statement speaks about get)
                    let r = cache.contains(&TKey(KEYS[*k as usize])).await;
                    obs.push_str(match r {
                        Ok(true) => "c1",
                        Ok(false) => "c0",
                        Err(_) => "cE",
                    });
                }
                Op::Remove(k) => {
                    let r = cache.remove(&TKey(KEYS[*k as usize])).await;
                    obs.push_str(match r {
                        Ok(true) => "r1",
                        Ok(false) => "r0",
                        Err(_) => "rE",
                    });
                    // whatever it returned, a removed value may not be served afterwards
                    model.forget(*k, Gone::Removed);
                }
                Op::Clear => {
                    let r = cache.clear().await;
                    obs.push_str(if r.is_ok() { "x" } else { "X" });
                    model.clear();
                }
                Op::Reopen => {
                    drop(cache);
                    cache = match open_cache(&self.kind, dir) {
                        Ok(c) => c,
                        Err(e) => return fail(i, "open-error", format!("cannot create a new instance on the same directory: {e}"), calls),
                    };
                    model.reopened = true;
                    obs.push('o');
                }
                Op::Tick => {
                    let max_files = match &self.kind {
                        Kind::Disk { max_files, .. } => *max_files,
                        Kind::Mem { .. } => usize::MAX,
                    };
                    let before = count_files(dir);
                    tokio::time::advance(CLEANUP_INTERVAL + Duration::from_secs(1)).await;
                    for _ in 0..3 {
                        tokio::task::yield_now().await;
                    }
                    let after = count_files(dir);
                    if after < before {
                        tally(SEEN_TICK_REMOVED);
                    }
                    model.tick(max_files);
                    obs.push_str(&format!("t{}", before.saturating_sub(after)));
                }
            }
        }

        // ---- observer at the end of the history (every prefix is a history of its own) ----
        let last = hist.len().saturating_sub(1);
        let size_pre = cache.size().await;
        let stats_pre = cache.stats().await;
        calls += 2;
        let (slack_n, slack_b) = model.expired_slack();

        // settling pass = the map clause on every key of the universe
        let mut n = 0usize;
        let mut b = 0u64;
        for k in &self.keys {
            let r = cache.get(&TKey(KEYS[*k as usize])).await.map_err(|e| e.to_string());
            calls += 1;
            match &r {
                Ok(Some(v)) => {
                    n += 1;
                    b += v.len() as u64;
                    obs.push_str(&format!("s{}", v.len()));
                }
                Ok(None) => obs.push_str("s-"),
                Err(_) => obs.push_str("sE"),
            }
            if let Some((kind, d)) = model.judge_get(*k, &r) {
                let after = hist.last().map_or("the empty history".to_string(), |o| format!("{o:?}"));
                return fail(last, kind, format!("{d} [observer pass after {after}]"), calls);
            }
        }

        if self.bound_clause_applies() {
            if n > max_entries {
                return fail(last, "over-max-entries", format!("{n} entries retrievable, max_entries = {max_entries}"), calls);
            }
            if let Some(mb) = max_bytes {
                if b > mb {
                    return fail(last, "over-max-bytes", format!("{b} bytes retrievable in {n} entries, max_memory_bytes = {mb}"), calls);
                }
            }
        }

        let size_post = cache.size().await;
        let stats_post = cache.stats().await;
        calls += 2;
        match (&size_post, &stats_post) {
            (Ok(sz), Ok(st)) => {
                if *sz != n {
                    return fail(last, "size-mismatch", format!("after settling size() = {sz}, but {n} keys return a value"), calls);
                }
                if st.entry_count != n {
                    return fail(last, "stats-entries-mismatch", format!("after settling stats().entry_count = {}, but {n} keys return a value", st.entry_count), calls);
                }
                if st.memory_usage_bytes as u64 != b {
                    return fail(last, "stats-bytes-mismatch", format!("after settling stats().memory_usage_bytes = {}, but the retrievable values total {b} bytes", st.memory_usage_bytes), calls);
                }
            }
            _ => return fail(last, "size-error", "size()/stats() returned Err".into(), calls),
        }
        match (&size_pre, &stats_pre) {
            (Ok(sz), Ok(st)) => {
                if *sz > n + slack_n {
                    return fail(last, "size-overcount", format!("before settling size() = {sz}; {n} keys return a value and at most {slack_n} untouched expired entries exist"), calls);
                }
                if st.entry_count > n + slack_n {
                    return fail(last, "stats-entries-overcount", format!("before settling stats().entry_count = {}; {n} keys return a value and at most {slack_n} untouched expired entries exist", st.entry_count), calls);
                }
                if st.memory_usage_bytes as u64 > b + slack_b {
                    return fail(last, "stats-bytes-overcount", format!("before settling stats().memory_usage_bytes = {}; retrievable {b} bytes + at most {slack_b} bytes of untouched expired entries", st.memory_usage_bytes), calls);
                }
                // under-count: every value the settling pass returned was retrievable when the
                // figures were read (gets add nothing), so the figures may not be below them
                let under = if *sz == 0 && n > 0 {
                    Some(("size-zero-undercount", format!("before settling size() = 0, but {n} keys return a value")))
                } else if *sz < n {
                    Some(("size-undercount", format!("before settling size() = {sz}, but {n} keys return a value")))
                } else if st.entry_count < n {
                    Some(("stats-entries-undercount", format!("before settling stats().entry_count = {}, but {n} keys return a value", st.entry_count)))
                } else if (st.memory_usage_bytes as u64) < b {
                    Some(("stats-bytes-undercount", format!("before settling stats().memory_usage_bytes = {}, but the retrievable values total {b} bytes", st.memory_usage_bytes)))
                } else {
                    None
                };
                if let Some((kind, detail)) = under {
                    if !model.reopened {
                        return fail(last, kind, detail, calls);
                    }
                    // An instance created on a filled directory does not index it (the index
                    // cannot be rebuilt from file names): reported once per kind with the
                    // smallest history, and the history is still extended. The configurations
                    // with background tasks leave this to the plain ones (same code).
                    let kind = format!("{kind}-after-reopen");
                    let detail = format!("{detail} (new instance on a directory filled by a previous one)");
                    if !self.background() {
                        if self.undercount_hard {
                            return fail(last, &kind, detail, calls);
                        }
                        self.record_soft(&kind, hist);
                    }
                }
                obs.push_str(&format!("|{sz},{},{}", st.entry_count, st.memory_usage_bytes));
            }
            _ => return fail(last, "size-error", "size()/stats() returned Err".into(), calls),
        }
        SeqRun { violation: None, state_key: None, outcome: fnv64_str(&obs), calls }
    }
}

impl SeqSubject for Subject {
    type Op = Op;

    fn config_name(&self) -> String {
        match &self.kind {
            Kind::Mem { policy, max_entries, max_bytes, cleanup, metrics_off } => format!(
                "mem(policy={},max_entries={},max_bytes={}{}{})",
                policy_name(policy),
                max_entries,
                max_bytes.map_or("none".to_string(), |b| b.to_string()),
                if *cleanup { ",cleanup=true" } else { "" },
                if *metrics_off { ",metrics=false" } else { "" }
            ),
            Kind::Disk { subdirs, background: false, .. } => format!("disk(subdirs={subdirs})"),
            Kind::Disk { subdirs, background: true, max_files } => format!("disk(subdirs={subdirs},background=true,max_files={max_files})"),
        }
    }

    fn sig_config(&self) -> String {
        match &self.kind {
            Kind::Mem { policy, max_entries, max_bytes, .. } => {
                let pc = match policy {
                    EvictionPolicy::Lru | EvictionPolicy::Lfu | EvictionPolicy::Fifo => "ordered",
                    EvictionPolicy::Random => "random",
                    EvictionPolicy::Ttl => "ttl",
                };
                let lim = match (*max_entries < UNLIMITED_ENTRIES, max_bytes.is_some()) {
                    (true, true) => "entries+bytes",
                    (true, false) => "entries",
                    (false, true) => "bytes",
                    (false, false) => "unlimited",
                };
                format!("mem/{pc}/{lim}")
            }
            Kind::Disk { .. } => "disk".into(),
        }
    }

    fn alphabet(&self) -> Vec<Op> {
        let mut a = Vec::new();
        for k in &self.keys {
            a.push(Op::Get(*k));
        }
        for s in &self.sizes {
            for k in &self.keys {
                a.push(Op::Put { k: *k, size: *s, ttl: Ttl::Default });
            }
        }
        for s in &self.sizes_ttl0 {
            for k in &self.keys {
                a.push(Op::Put { k: *k, size: *s, ttl: Ttl::Zero });
            }
        }
        for s in &self.sizes_hour {
            for k in &self.keys {
                a.push(Op::Put { k: *k, size: *s, ttl: Ttl::Hour });
            }
        }
        for k in &self.keys {
            a.push(Op::Remove(*k));
        }
        for k in &self.keys {
            a.push(Op::Contains(*k));
        }
        a.push(Op::Clear);
        if self.is_disk() {
            a.push(Op::Reopen);
        }
        // appended last: the indices of everything above stay what they were
        for s in &self.sizes_max {
            for k in &self.keys {
                a.push(Op::Put { k: *k, size: *s, ttl: Ttl::Max });
            }
        }
        if self.background() {
            a.push(Op::Tick);
        }
        a
    }

    fn canon(&self, hist: &[Op]) -> String {
        // Keys are renamed by first occurrence. For the memory cache that holds for all four
        // (file names mean nothing there). For the disk cache "x.tmp" keeps its identity (its
        // name alone is special: ".tmp" files are skipped by the directory scan), and so does
        // "x.y" whenever "x.tmp" occurs in the same history (the colliding pair).
        let disk = self.is_disk();
        let key_of = |o: &Op| match o {
            Op::Put { k, .. } | Op::Get(k) | Op::Contains(k) | Op::Remove(k) => Some(*k),
            _ => None,
        };
        let has_tmp = hist.iter().any(|o| key_of(o) == Some(3));
        let mut names: Vec<u8> = Vec::new();
        let mut nm = |k: u8| -> String {
            if disk && (k == 3 || (k == 2 && has_tmp)) {
                return KEYS[k as usize].to_string();
            }
            let p = match names.iter().position(|x| *x == k) {
                Some(p) => p,
                None => {
                    names.push(k);
                    names.len() - 1
                }
            };
            ["p", "q", "r", "s"][p].to_string()
        };
        let parts: Vec<String> = hist
            .iter()
            .map(|o| match o {
                Op::Put { k, size, ttl } => {
                    // ttl classes of the property: 0 = expired, default / 1 h = never expires
                    // (ttl = Duration::MAX is a class of its own: "beyond the clock")
                    let name = match ttl {
                        Ttl::Default | Ttl::Hour => "put",
                        Ttl::Zero => "put_ttl0",
                        Ttl::Max => "put_ttlmax",
                    };
                    format!("{name}({},{})", nm(*k), self.size_class(*size))
                }
                Op::Get(k) => format!("get({})", nm(*k)),
                Op::Contains(k) => format!("contains({})", nm(*k)),
                Op::Remove(k) => format!("remove({})", nm(*k)),
                Op::Clear => "clear".into(),
                Op::Reopen => "reopen".into(),
                Op::Tick => "tick".into(),
            })
            .collect();
        parts.join(";")
    }

    fn run(&self, hist: &[Op]) -> SeqRun {
        let (first, limit_seen) = self.run_once(hist);
        let Some((idx, kind, _)) = &first.violation else {
            return first;
        };
        let key = format!("{hist:?}");
        let known = self.memo.lock().unwrap().get(&key).cloned();
        if let Some((i2, k2)) = known {
            if i2 == *idx && k2 == *kind {
                return first;
            }
            self.memo.lock().unwrap().remove(&key);
            VICTIM_DEPENDENT.fetch_add(1, Ordering::Relaxed);
            return SeqRun { violation: None, state_key: None, outcome: first.outcome ^ 0x5ee, calls: first.calls };
        }
        let repeats = if limit_seen && !self.is_disk() { REPEATS_EVICTING } else { REPEATS_PLAIN };
        let mut calls = first.calls;
        for _ in 1..repeats {
            let (again, _) = self.run_once(hist);
            calls += again.calls;
            let same = matches!(&again.violation, Some((i2, k2, _)) if i2 == idx && k2 == kind);
            if !same {
                // depends on which victim the eviction picked: not judged
                VICTIM_DEPENDENT.fetch_add(1, Ordering::Relaxed);
                return SeqRun { violation: None, state_key: None, outcome: first.outcome ^ 0x5ee, calls };
            }
        }
        {
            let mut m = self.memo.lock().unwrap();
            if m.len() < MEMO_CAP {
                m.insert(key, (*idx, kind.clone()));
            }
        }
        SeqRun { calls, ..first }
    }
}

// ---------------------------------------------------------------------------------------------
// configurations and driver
// ---------------------------------------------------------------------------------------------

fn sizes_for(max_bytes: Option<usize>) -> Vec<u32> {
    let mut v: Vec<u32> = vec![0, 1, 100];
    if let Some(l) = max_bytes {
        v.push(l as u32);
        v.push(l as u32 + 1);
    }
    v.sort_unstable();
    v.dedup();
    v
}

fn mem_subject(policy: EvictionPolicy, max_entries: usize, max_bytes: Option<usize>, nkeys: u8, seed: u64, rich: bool) -> Subject {
    let sizes = sizes_for(max_bytes);
    // ttl-0 puts: one small and one mid size (enough to move both counters); 1 h puts: one size
    let sizes_ttl0 = if rich { vec![1, 100] } else { vec![100] };
    let sizes_hour = if rich { vec![1] } else { vec![] };
    Subject {
        kind: Kind::Mem { policy, max_entries, max_bytes, cleanup: false, metrics_off: false },
        keys: (0..nkeys).collect(),
        sizes,
        sizes_ttl0,
        sizes_hour,
        sizes_max: vec![],
        undercount_hard: false,
        soft: Mutex::new(Default::default()),
        seed,
        memo: Mutex::new(HashMap::new()),
    }
}

/// TTL extremes on the memory cache: ttl 0 and ttl = Duration::MAX next to the default.
fn mem_ttl_subject(seed: u64) -> Subject {
    let mut s = mem_subject(EvictionPolicy::Lru, 1, None, 2, seed, false);
    s.sizes = vec![1];
    s.sizes_ttl0 = vec![1];
    s.sizes_max = vec![1, 100];
    s
}

/// Memory cache with its cleanup task: the cleanup interval may elapse between operations.
fn mem_cleanup_subject(policy: EvictionPolicy, max_entries: usize, max_bytes: Option<usize>, nkeys: u8, seed: u64) -> Subject {
    let mut s = mem_subject(policy, max_entries, max_bytes, nkeys, seed, false);
    if let Kind::Mem { cleanup, .. } = &mut s.kind {
        *cleanup = true;
    }
    s.sizes_ttl0 = vec![1, 100];
    s
}

/// Memory cache with statistics collection switched off (`enable_metrics = false`).
fn mem_metrics_off_subject(policy: EvictionPolicy, max_entries: usize, max_bytes: Option<usize>, nkeys: u8, seed: u64) -> Subject {
    let mut s = mem_subject(policy, max_entries, max_bytes, nkeys, seed, false);
    if let Kind::Mem { metrics_off, .. } = &mut s.kind {
        *metrics_off = true;
    }
    s
}

/// TTL extremes on the disk cache (the colliding key pair only).
fn disk_ttl_subject(subdirs: bool, seed: u64) -> Subject {
    let mut s = disk_subject(subdirs, seed, false);
    s.keys = vec![2, 3];
    s.sizes = vec![100];
    s.sizes_ttl0 = vec![1];
    s.sizes_hour = vec![];
    s.sizes_max = vec![1, 100];
    s
}

/// Disk cache with its background tasks: the cleanup interval may elapse between operations.
fn disk_background_subject(subdirs: bool, max_files: usize, nkeys: u8, seed: u64) -> Subject {
    let mut s = disk_subject(subdirs, seed, false);
    s.kind = Kind::Disk { subdirs, background: true, max_files };
    s.keys = (0..nkeys).collect();
    s.sizes = vec![100];
    s.sizes_ttl0 = vec![1];
    s.sizes_hour = vec![];
    s
}

fn disk_subject(subdirs: bool, seed: u64, rich: bool) -> Subject {
    Subject {
        kind: Kind::Disk { subdirs, background: false, max_files: DISK_MAX_FILES },
        // "a" plus the colliding pair; "b" joins in the thorough tier
        keys: if rich { vec![0, 1, 2, 3] } else { vec![0, 2, 3] },
        sizes: if rich { vec![0, 1, 100] } else { vec![0, 100] },
        // 7 = SAME_VALUE_SIZE: byte-identical content re-put under the other TTL class
        sizes_ttl0: vec![1, SAME_VALUE_SIZE],
        sizes_hour: vec![100, SAME_VALUE_SIZE],
        sizes_max: vec![],
        undercount_hard: false,
        soft: Mutex::new(Default::default()),
        seed,
        memo: Mutex::new(HashMap::new()),
    }
}

pub fn run(tier: Tier, seed: u64) -> i32 {
    disable_sync_command();
    let rep = Report::new("C10", tier, seed, Level::ModelChecking);
    rep.set_rule(
        "every history up to the depth bound over {get, put, put_with_ttl(0), put_with_ttl(1h), put_with_ttl(Duration::MAX) (TTL-extreme configurations), remove, contains, clear (+reopen for disk, +'the cleanup interval elapses' for the disk cache with background tasks and the memory cache with its cleanup task)} × keys × value-size classes per configuration (max_entries up to usize::MAX), each executed on a fresh real MemoryCache/DiskCache in lock-step with a bounded-map model (set of possible resident sets); no state merging (counters are hidden state), so states = histories; size()/stats() and a get on every key are evaluated at the end of every history (every prefix is a history); every history with ≥1 operation is a distinct non-trivial case",
    );
    rep.assume("reference model: per key the latest successful put since the last remove/clear (value, ttl class) + the set of possible resident sets; a put at a limit (entries ≥ max, bytes ≥ max, or the put would exceed either) may evict any subset");
    rep.assume("ttl classes: ttl 0 is expired at the next call (Instant/SystemTime are monotone non-decreasing), ttl 1 h / default never expires during a run");
    rep.assume("size() and stats() are read-only (atomic loads, directory scan) — read from the code; they are observers after every history rather than alphabet members");
    rep.assume("MemoryCache byte usage is the sum of value lengths (size_bytes = value.len()), the cache's own definition");
    rep.assume("DiskCache::new starts no background task; disk files live on tmpfs; crash behaviour is not this check's subject");
    rep.assume("memory cache with its cleanup task (new_with_cleanup) and disk cache with background tasks (new_with_background_tasks): run on a current-thread runtime whose tokio clock is paused, so the cleanup task runs exactly when the history's `tick` advances the clock past cleanup_interval (it may run twice per tick; it is idempotent) and never inside another operation; the sync task's sync(1) spawn fails (PATH is emptied for this process) and has no influence on the cache; a tick may evict any entries when more than max_files are resident");
    rep.assume("an under-count (size()/stats() below what the settling gets return) by an instance created on a filled directory is reported once per kind, with the smallest history over all plain disk configurations, and such histories are still extended; every other under-count is an ordinary violation");
    rep.assume(&format!("a violation is reported only if {REPEATS_EVICTING} (memory cache, some put ran at a limit) / {REPEATS_PLAIN} (otherwise) fresh executions of the same history violate the same clause at the same step (eviction victims are not under the harness's control); every later query for that history executes it once more"));

    use EvictionPolicy::{Fifo, Lfu, Lru, Random, Ttl as TtlPol};
    let mut subjects: Vec<(Subject, usize)> = Vec::new();
    match tier {
        Tier::Quick => {
            // (policy, max_entries, max_bytes, keys, depth)
            subjects.push((mem_subject(Lru, 2, None, 3, seed, false), 5));
            subjects.push((mem_subject(Fifo, UNLIMITED_ENTRIES, Some(150), 3, seed, false), 4));
            subjects.push((mem_subject(Lfu, 2, Some(150), 3, seed, false), 4));
            subjects.push((mem_subject(Random, 2, Some(1000), 3, seed, false), 4));
            subjects.push((mem_subject(Lru, 1, Some(1), 3, seed, false), 4));
            subjects.push((mem_subject(Lfu, 3, None, 4, seed, false), 4));
            subjects.push((mem_subject(Random, 1, None, 3, seed, false), 4));
            subjects.push((mem_subject(TtlPol, 2, None, 3, seed, false), 4));
            subjects.push((mem_subject(Lru, UNLIMITED_ENTRIES, None, 3, seed, true), 4));
            subjects.push((disk_subject(false, seed, false), 4));
            // (hashed subdirectories differ from the flat layout in the path only: one level less)
            subjects.push((disk_subject(true, seed, false), 3));
            // boundary configurations: no entry limit spelled usize::MAX, TTL extremes, the
            // disk cache with its background cleanup
            subjects.push((mem_subject(Lru, usize::MAX, Some(150), 3, seed, false), 4));
            subjects.push((mem_ttl_subject(seed), 4));
            subjects.push((disk_ttl_subject(false, seed), 4));
            subjects.push((disk_background_subject(false, DISK_MAX_FILES, 2, seed), 4));
            subjects.push((disk_background_subject(true, 1, 2, seed), 4));
            // the memory cache with its cleanup task, and with statistics collection off
            subjects.push((mem_cleanup_subject(Lru, 2, None, 3, seed), 4));
            subjects.push((mem_metrics_off_subject(Lru, 2, Some(150), 3, seed), 4));
        }
        Tier::Thorough => {
            subjects.push((mem_cleanup_subject(Lru, 2, None, 3, seed), 5));
            subjects.push((mem_cleanup_subject(Fifo, UNLIMITED_ENTRIES, Some(150), 3, seed), 4));
            for policy in [Lru, Lfu, Fifo, Random] {
                subjects.push((mem_metrics_off_subject(policy, 2, Some(150), 3, seed), 4));
            }
            // the whole grid at depth 4
            for policy in [Lru, Lfu, Fifo, Random] {
                for me in [1usize, 2, 3, UNLIMITED_ENTRIES, usize::MAX] {
                    for mb in [None, Some(1usize), Some(150), Some(1000)] {
                        let nkeys = if me == 3 { 4 } else { 3 };
                        subjects.push((mem_subject(policy.clone(), me, mb, nkeys, seed, false), 4));
                    }
                }
            }
            // depth 5 where the limits interact
            for policy in [Lru, Lfu, Fifo, Random] {
                subjects.push((mem_subject(policy.clone(), 2, None, 3, seed, false), 5));
                subjects.push((mem_subject(policy.clone(), 2, Some(150), 3, seed, false), 5));
            }
            subjects.push((mem_subject(Fifo, UNLIMITED_ENTRIES, Some(150), 3, seed, false), 5));
            subjects.push((mem_subject(Random, UNLIMITED_ENTRIES, Some(1000), 3, seed, false), 5));
            subjects.push((mem_subject(Lru, 1, Some(1), 3, seed, false), 5));
            subjects.push((mem_subject(Lfu, 3, None, 4, seed, false), 5));
            subjects.push((mem_subject(TtlPol, 2, None, 3, seed, false), 5));
            subjects.push((mem_subject(TtlPol, 2, Some(150), 3, seed, false), 4));
            subjects.push((mem_subject(Lru, UNLIMITED_ENTRIES, None, 3, seed, true), 5));
            subjects.push((mem_subject(Lru, 2, Some(150), 3, seed, true), 4));
            // depth 6 with two value sizes
            let mut s6 = mem_subject(Lru, 2, None, 3, seed, false);
            s6.sizes = vec![1, 100];
            subjects.push((s6, 6));
            let mut s6 = mem_subject(Fifo, UNLIMITED_ENTRIES, Some(150), 3, seed, false);
            s6.sizes = vec![100, 150];
            subjects.push((s6, 6));
            subjects.push((disk_subject(false, seed, false), 5));
            subjects.push((disk_subject(true, seed, false), 5));
            subjects.push((disk_subject(false, seed, true), 4));
            subjects.push((disk_subject(true, seed, true), 4));
            subjects.push((mem_ttl_subject(seed), 6));
            let mut s = mem_subject(Lfu, 2, Some(150), 3, seed, true);
            s.sizes_max = vec![1, 100];
            subjects.push((s, 4));
            subjects.push((disk_ttl_subject(false, seed), 5));
            subjects.push((disk_ttl_subject(true, seed), 5));
            // (a history with background tasks costs about four times a plain disk history)
            subjects.push((disk_background_subject(false, DISK_MAX_FILES, 2, seed), 5));
            subjects.push((disk_background_subject(true, 1, 2, seed), 5));
            subjects.push((disk_background_subject(false, 2, 3, seed), 4));
            subjects.push((disk_background_subject(true, DISK_MAX_FILES, 3, seed), 4));
        }
    }

    // vacuity: the alphabets must collide with the limits they are meant to exercise
    for (s, _) in &subjects {
        if let Kind::Mem { max_entries, max_bytes, .. } = &s.kind {
            if *max_entries < UNLIMITED_ENTRIES && s.keys.len() <= *max_entries {
                rep.machinery_error(&format!("{}: key population does not exceed max_entries", s.config_name()));
            }
            if let Some(l) = max_bytes {
                let max = s.sizes.iter().copied().max().unwrap_or(0) as usize;
                let min = s.sizes.iter().copied().min().unwrap_or(u32::MAX) as usize;
                if max * s.keys.len() <= *l || min > *l {
                    rep.machinery_error(&format!("{}: value sizes do not straddle max_memory_bytes", s.config_name()));
                }
            }
        } else if !s.background() && !(s.keys.contains(&2) && s.keys.contains(&3)) {
            rep.machinery_error("disk alphabet lacks the colliding pair x.y / x.tmp");
        }
    }

    let mut per_config = Vec::new();
    for (s, depth) in &subjects {
        let t0 = std::time::Instant::now();
        let st = explore(s, &SeqBounds::depth(*depth).with_budget(tier.pick(60, 900)), &rep);
        per_config.push(json!({
            "config": s.config_name(),
            "keys": s.keys.iter().map(|k| KEYS[*k as usize]).collect::<Vec<_>>(),
            "alphabet": s.alphabet().len(),
            "depth": depth,
            "depth_completed": st.completed_depth,
            "histories": st.histories,
            "violating_histories": st.violations,
            "wall_s": (t0.elapsed().as_secs_f64() * 100.0).round() / 100.0,
        }));
    }
    report_soft_findings(&subjects, &rep);
    rep.extra("bounds", json!({"per_config": per_config, "value_sizes": "0,1,100,limit,limit+1", "ttl_classes": ["0", "1h", "default", "Duration::MAX"]}));
    rep.extra("victim_dependent_violations_not_judged", json!(VICTIM_DEPENDENT.load(Ordering::Relaxed)));
    let seen = [
        ("gets_answered_with_latest_value", tally_total(SEEN_HIT)),
        ("gets_answered_nothing_excused_by_a_limit", tally_total(SEEN_EVICTED)),
        ("gets_answered_nothing_for_ttl0_entry", tally_total(SEEN_EXPIRED_MISS)),
        ("gets_answered_with_latest_value_by_new_disk_instance", tally_total(SEEN_HIT_AFTER_REOPEN)),
        ("cleanup_ticks_that_deleted_a_file", tally_total(SEEN_TICK_REMOVED)),
        ("puts_with_ttl_duration_max_executed", tally_total(SEEN_MAX_TTL_PUT)),
    ];
    // (not guarded: zero while such a put cannot succeed)
    rep.extra("gets_answered_with_a_value_stored_with_ttl_duration_max", json!(tally_total(SEEN_MAX_TTL_HIT)));
    for (name, n) in seen {
        rep.extra(name, json!(n));
        if n == 0 {
            rep.machinery_error(&format!("vacuous exploration: {name} = 0"));
        }
    }
    if rep.outcomes() < 50 {
        rep.machinery_error("vacuous exploration: fewer than 50 distinct observation logs");
    }
    // a TTL that ends in the middle of a history (real time, judged one-sidedly)
    crate::props::c10_expiry::run_scripts(tier, &rep);
    rep.finish()
}

/// Report the soft findings (see `record_soft`): per kind the smallest history over all
/// subjects that share a signature configuration, confirmed and minimised with the clause
/// made strict, replayed once more before it is reported.
fn report_soft_findings(subjects: &[(Subject, usize)], rep: &Report) {
    // (sig_config, kind) → (occurrences, candidates (len, canon, subject index, history))
    let mut all: std::collections::BTreeMap<(String, String), (u64, Vec<(usize, String, usize, Vec<Op>)>)> = Default::default();
    for (si, (s, _)) in subjects.iter().enumerate() {
        for (kind, (count, cands)) in s.soft.lock().unwrap().iter() {
            let e = all.entry((s.sig_config(), kind.clone())).or_insert_with(|| (0, Vec::new()));
            e.0 += count;
            for (len, canon, hist) in cands {
                e.1.push((*len, canon.clone(), si, hist.clone()));
            }
        }
    }
    let mut counts = serde_json::Map::new();
    for ((sig_config, kind), (count, mut cands)) in all {
        counts.insert(format!("{sig_config}|{kind}"), json!(count));
        cands.sort_by(|a, b| (a.0, &a.1, a.2).cmp(&(b.0, &b.1, b.2)));
        let mut reported = false;
        for (_, _, si, hist) in &cands {
            let src = &subjects[*si].0;
            let strict = Subject {
                kind: src.kind.clone(),
                keys: src.keys.clone(),
                sizes: src.sizes.clone(),
                sizes_ttl0: src.sizes_ttl0.clone(),
                sizes_hour: src.sizes_hour.clone(),
                sizes_max: src.sizes_max.clone(),
                undercount_hard: true,
                soft: Mutex::new(Default::default()),
                seed: src.seed,
                memo: Mutex::new(HashMap::new()),
            };
            let first = catch(|| strict.run(hist)).ok().and_then(|r| r.violation);
            let Some((_, k, detail)) = first else { continue };
            if k != kind {
                continue;
            }
            let core = crate::seq::minimise(&strict, hist, &kind);
            let again = catch(|| strict.run(&core)).ok().and_then(|r| r.violation);
            if !matches!(&again, Some((_, k2, _)) if *k2 == kind) {
                rep.machinery_error(&format!("soft finding {kind} did not reproduce on replay of {core:?}"));
                continue;
            }
            let sig = format!("{sig_config}|{kind}|{}", strict.canon(&core));
            rep.violation(
                &kind,
                &sig,
                json!({"config": strict.config_name(), "history": format!("{hist:?}"), "core": format!("{core:?}"),
                       "core_ops": core.iter().map(|o| format!("{o:?}")).collect::<Vec<_>>(),
                       "histories_with_this_finding": count}),
                &detail,
            );
            reported = true;
            break;
        }
        if !reported {
            rep.machinery_error(&format!("soft finding {sig_config}|{kind} ({count} histories) could not be confirmed with the clause made strict"));
        }
    }
    rep.extra("undercounts_after_reopen_histories", serde_json::Value::Object(counts));
}

fn parse_config(cfg: &str) -> Option<Kind> {
    let inner = cfg.split_once('(')?.1.trim_end_matches(')');
    let mut kv = std::collections::BTreeMap::new();
    for p in inner.split(',') {
        let (k, v) = p.split_once('=')?;
        kv.insert(k.trim().to_string(), v.trim().to_string());
    }
    if cfg.starts_with("mem(") {
        Some(Kind::Mem {
            policy: parse_policy(kv.get("policy")?)?,
            max_entries: kv.get("max_entries")?.parse().ok()?,
            max_bytes: match kv.get("max_bytes")?.as_str() {
                "none" => None,
                s => Some(s.parse().ok()?),
            },
            cleanup: kv.get("cleanup").is_some_and(|v| v == "true"),
            metrics_off: kv.get("metrics").is_some_and(|v| v == "false"),
        })
    } else if cfg.starts_with("disk(") {
        Some(Kind::Disk {
            subdirs: kv.get("subdirs")? == "true",
            background: kv.get("background").is_some_and(|v| v == "true"),
            max_files: match kv.get("max_files") {
                Some(v) => v.parse().ok()?,
                None => DISK_MAX_FILES,
            },
        })
    } else {
        None
    }
}

/// Replay a witness: `witness.config` + `witness.core_ops` (Debug form of the ops).
pub fn replay(w: &serde_json::Value) -> i32 {
    disable_sync_command();
    if let Some(rc) = crate::props::c10_expiry::replay(w) {
        return rc;
    }
    let cfg = w["witness"]["config"].as_str().unwrap_or("");
    let Some(kind) = parse_config(cfg) else {
        println!("MACHINERY-ERROR: cannot parse configuration {cfg:?}");
        return 2;
    };
    let mut ops = Vec::new();
    for s in w["witness"]["core_ops"].as_array().cloned().unwrap_or_default() {
        match parse_op(s.as_str().unwrap_or("")) {
            Some(o) => ops.push(o),
            None => {
                println!("MACHINERY-ERROR: cannot parse operation {s}");
                return 2;
            }
        }
    }
    let seed: u64 = std::env::var("VERIF_SEED").ok().and_then(|s| s.parse().ok()).unwrap_or(0);
    let subj = Subject {
        kind,
        keys: vec![0, 1, 2, 3],
        sizes: vec![],
        sizes_ttl0: vec![],
        sizes_hour: vec![],
        sizes_max: vec![],
        undercount_hard: true,
        soft: Mutex::new(Default::default()),
        seed,
        memo: Mutex::new(HashMap::new()),
    };
    println!("replaying on {}: {ops:?}", subj.config_name());
    let r = subj.run(&ops);
    match r.violation {
        Some((i, k, d)) => {
            println!("violates at op {i}: {k}: {d}");
            1
        }
        None => {
            println!("no violation");
            0
        }
    }
}
