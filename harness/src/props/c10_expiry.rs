//! C10, expiry scripts — a TTL that ends *during* a history.
//!
//! The lock-step exploration of `c10.rs` knows two kinds of TTL: already over (0) and never over
//! within a run (1 h, default, `Duration::MAX`). The caches measure TTLs with std's clocks, which
//! cannot be paused, so a TTL that runs out in the middle of a history needs real time. This part
//! enumerates every script up to the depth bound over {put_short(k), put_hour(k), get(k),
//! contains(k), reopen (disk), wait} that starts with `put_short` and contains exactly one `wait`
//! (= sleep until the short TTL of every earlier put has certainly ended), on the memory cache,
//! the disk cache (flat / hashed subdirectories) and the disk cache with background tasks. All
//! scripts run concurrently, one thread each — they mostly sleep.
//!
//! Oracle, one-sided in time so that machine load cannot raise an alarm: the cache reads its
//! clock somewhere between the call and the return of a put, so the entry of a short put expires
//! at an instant in [call + TTL, return + TTL].
//! * An observation that *returned before* `call + TTL − slack` saw a certainly live entry: it
//!   must report the latest value (map clause: "nothing" is only excused by a limit, and no
//!   script reaches one).
//! * An observation *called after* `return + TTL + slack` saw a certainly expired entry: `get`
//!   must be `None`, `contains` must be `false`.
//! * In between nothing but "never another value than the latest put's" is judged (counted).
//! * A value stored with the 1 h TTL is live throughout.

use crate::props::c10::TKey;
use crate::report::{Report, Tier};
use crate::util::{Scratch, block_on, catch, fnv64_str};
use bytes::Bytes;
use cascette_cache::config::{DiskCacheConfig, MemoryCacheConfig};
use cascette_cache::traits::{AsyncCache, EvictionPolicy};
use cascette_cache::{DiskCache, MemoryCache};
use serde_json::json;
use std::path::Path;
use std::time::{Duration, Instant};

const SHORT_TTL: Duration = Duration::from_millis(900);
const SLACK: Duration = Duration::from_millis(40);
const KEY: &str = "p";

#[derive(Clone, Copy, PartialEq, Eq, Debug)]
pub enum SOp {
    PutShort,
    PutHour,
    Get,
    Contains,
    Reopen,
    Wait,
}

impl SOp {
    fn name(self) -> &'static str {
        match self {
            SOp::PutShort => "put_short(p)",
            SOp::PutHour => "put_hour(p)",
            SOp::Get => "get(p)",
            SOp::Contains => "contains(p)",
            SOp::Reopen => "reopen",
            SOp::Wait => "wait",
        }
    }
    fn parse(s: &str) -> Option<SOp> {
        [SOp::PutShort, SOp::PutHour, SOp::Get, SOp::Contains, SOp::Reopen, SOp::Wait].into_iter().find(|o| o.name() == s)
    }
}

#[derive(Clone, Copy, PartialEq, Eq, Debug)]
pub enum Cfg {
    Mem,
    Disk { subdirs: bool, background: bool },
}

impl Cfg {
    fn name(self) -> String {
        match self {
            Cfg::Mem => "mem".into(),
            Cfg::Disk { subdirs, background } => format!("disk(subdirs={subdirs},background={background})"),
        }
    }
    fn parse(s: &str) -> Option<Cfg> {
        let all = [
            Cfg::Mem,
            Cfg::Disk { subdirs: false, background: false },
            Cfg::Disk { subdirs: true, background: false },
            Cfg::Disk { subdirs: false, background: true },
            Cfg::Disk { subdirs: true, background: true },
        ];
        all.into_iter().find(|c| c.name() == s)
    }
    fn is_disk(self) -> bool {
        matches!(self, Cfg::Disk { .. })
    }
    fn sig(self) -> &'static str {
        if self.is_disk() { "disk" } else { "mem" }
    }
}

fn open(cfg: Cfg, dir: &Path) -> Result<Box<dyn AsyncCache<TKey>>, String> {
    match cfg {
        Cfg::Mem => {
            let c = MemoryCacheConfig::new().with_max_entries(1000).with_eviction_policy(EvictionPolicy::Lru);
            MemoryCache::<TKey>::new(c).map(|c| Box::new(c) as Box<dyn AsyncCache<TKey>>).map_err(|e| e.to_string())
        }
        Cfg::Disk { subdirs, background } => {
            let mut c = DiskCacheConfig::new(dir).with_max_files(100_000).with_subdirectories(subdirs, if subdirs { 2 } else { 0 });
            c.max_disk_bytes = None;
            if background {
                // needs a runtime context; the periodic tasks (5 min / 30 s) never fire a second
                // time within a script
                block_on(async { DiskCache::<TKey>::new_with_background_tasks(c) }).map(|c| Box::new(c) as Box<dyn AsyncCache<TKey>>).map_err(|e| e.to_string())
            } else {
                DiskCache::<TKey>::new(c).map(|c| Box::new(c) as Box<dyn AsyncCache<TKey>>).map_err(|e| e.to_string())
            }
        }
    }
}

struct LastPut {
    short: bool,
    call: Instant,
    ret: Instant,
    value: Bytes,
    step: usize,
}

pub struct ScriptRun {
    /// (op index, kind, detail)
    pub violation: Option<(usize, String, String)>,
    pub certain_live: u32,
    pub certain_expired: u32,
    pub unjudged: u32,
    pub outcome: String,
}

pub fn run_script(cfg: Cfg, ops: &[SOp]) -> ScriptRun {
    let scratch = Scratch::new("c10x");
    let dir = scratch.path.join("cache");
    let mut out = ScriptRun { violation: None, certain_live: 0, certain_expired: 0, unjudged: 0, outcome: String::new() };
    let mut cache = match open(cfg, &dir) {
        Ok(c) => c,
        Err(e) => {
            out.violation = Some((0, "open-error".into(), e));
            return out;
        }
    };
    let key = TKey(KEY);
    let mut last: Option<LastPut> = None;
    for (i, op) in ops.iter().enumerate() {
        match op {
            SOp::PutShort | SOp::PutHour => {
                let short = *op == SOp::PutShort;
                let value = Bytes::from(format!("value-of-step-{i}-{}", if short { "short" } else { "hour" }));
                let ttl = if short { SHORT_TTL } else { Duration::from_secs(3600) };
                let call = Instant::now();
                let r = block_on(cache.put_with_ttl(key.clone(), value.clone(), ttl));
                let ret = Instant::now();
                if let Err(e) = r {
                    out.violation = Some((i, "put-error".into(), format!("{}: {e}", op.name())));
                    return out;
                }
                last = Some(LastPut { short, call, ret, value, step: i });
                out.outcome.push('p');
            }
            SOp::Wait => {
                if let Some(l) = &last {
                    if l.short {
                        let until = l.ret + SHORT_TTL + SLACK + Duration::from_millis(150);
                        let now = Instant::now();
                        if until > now {
                            std::thread::sleep(until - now);
                        }
                    }
                }
                out.outcome.push('w');
            }
            SOp::Reopen => {
                drop(cache);
                cache = match open(cfg, &dir) {
                    Ok(c) => c,
                    Err(e) => {
                        out.violation = Some((i, "open-error".into(), format!("new instance on the same directory: {e}")));
                        return out;
                    }
                };
                out.outcome.push('o');
            }
            SOp::Get | SOp::Contains => {
                let call = Instant::now();
                // Some(Some(v)) / Some(None) for get; contains is mapped to presence
                let (present, value, err): (bool, Option<Bytes>, Option<String>) = if *op == SOp::Get {
                    match block_on(cache.get(&key)) {
                        Ok(Some(v)) => (true, Some(v), None),
                        Ok(None) => (false, None, None),
                        Err(e) => (false, None, Some(e.to_string())),
                    }
                } else {
                    match block_on(cache.contains(&key)) {
                        Ok(b) => (b, None, None),
                        Err(e) => (false, None, Some(e.to_string())),
                    }
                };
                let ret = Instant::now();
                if let Some(e) = err {
                    out.violation = Some((i, "observer-error".into(), format!("{}: {e}", op.name())));
                    return out;
                }
                let Some(l) = &last else { continue };
                if let Some(v) = &value {
                    if *v != l.value {
                        out.violation = Some((
                            i,
                            "other-value-served".into(),
                            format!("{} returned {:?}, the latest put (step {}) stored {:?}", op.name(), String::from_utf8_lossy(v), l.step, String::from_utf8_lossy(&l.value)),
                        ));
                        return out;
                    }
                }
                let live = !l.short || ret + SLACK < l.call + SHORT_TTL;
                let expired = l.short && call > l.ret + SHORT_TTL + SLACK;
                if live {
                    out.certain_live += 1;
                    if !present {
                        out.violation = Some((
                            i,
                            "live-entry-not-served".into(),
                            format!("{} answered nothing {:?} after the put of step {} ({}), whose TTL had certainly not ended and no limit is near", op.name(), ret - l.call, l.step, if l.short { "TTL 900 ms" } else { "TTL 1 h" }),
                        ));
                        return out;
                    }
                    out.outcome.push('+');
                } else if expired {
                    out.certain_expired += 1;
                    if present {
                        out.violation = Some((
                            i,
                            "served-after-ttl-ended".into(),
                            format!("{} still answers {:?} after the put of step {} returned — its TTL was 900 ms", op.name(), call - l.ret, l.step),
                        ));
                        return out;
                    }
                    out.outcome.push('-');
                } else {
                    out.unjudged += 1;
                    out.outcome.push('?');
                }
            }
        }
    }
    out
}

fn scripts(cfg: Cfg, depth: usize) -> Vec<Vec<SOp>> {
    let mut alpha = vec![SOp::Get, SOp::Contains, SOp::Wait, SOp::PutHour, SOp::PutShort];
    if cfg.is_disk() {
        alpha.insert(2, SOp::Reopen);
    }
    let mut out = Vec::new();
    let mut cur = vec![vec![SOp::PutShort]];
    for _ in 1..depth {
        let mut next = Vec::new();
        for h in &cur {
            for a in &alpha {
                let waits = h.iter().filter(|o| **o == SOp::Wait).count();
                if *a == SOp::Wait && waits >= 1 {
                    continue;
                }
                // two reopens in a row reach nothing new
                if *a == SOp::Reopen && h.last() == Some(&SOp::Reopen) {
                    continue;
                }
                let mut n = h.clone();
                n.push(*a);
                next.push(n);
            }
        }
        // complete scripts: one wait, and something observed after it
        for h in &next {
            if let Some(w) = h.iter().position(|o| *o == SOp::Wait) {
                if h[w + 1..].iter().any(|o| matches!(o, SOp::Get | SOp::Contains)) {
                    out.push(h.clone());
                }
            }
        }
        cur = next;
    }
    out
}

fn sig_of(cfg: Cfg, kind: &str, ops: &[SOp]) -> String {
    format!("{}|expiry-script|{kind}|{}", cfg.sig(), ops.iter().map(|o| o.name()).collect::<Vec<_>>().join(";"))
}

/// Shortest failing sub-script (greedy removal, each candidate executed again).
fn minimise(cfg: Cfg, ops: &[SOp], kind: &str) -> Vec<SOp> {
    let mut best = ops.to_vec();
    let mut i = 1;
    while i < best.len() {
        let mut cand = best.clone();
        cand.remove(i);
        let ok_shape = cand.iter().filter(|o| **o == SOp::Wait).count() <= 1;
        if ok_shape && run_script(cfg, &cand).violation.as_ref().is_some_and(|v| v.1 == kind) {
            best = cand;
        } else {
            i += 1;
        }
    }
    best
}

pub fn run_scripts(tier: Tier, rep: &Report) {
    let depth = tier.pick(5, 6);
    let cfgs: Vec<Cfg> = match tier {
        Tier::Quick => vec![Cfg::Mem, Cfg::Disk { subdirs: false, background: false }, Cfg::Disk { subdirs: true, background: true }],
        Tier::Thorough => vec![
            Cfg::Mem,
            Cfg::Disk { subdirs: false, background: false },
            Cfg::Disk { subdirs: true, background: false },
            Cfg::Disk { subdirs: false, background: true },
            Cfg::Disk { subdirs: true, background: true },
        ],
    };
    let mut all: Vec<(Cfg, Vec<SOp>)> = Vec::new();
    for c in &cfgs {
        for s in scripts(*c, depth) {
            all.push((*c, s));
        }
    }
    let n = all.len();
    // they sleep most of the time: many more threads than cores
    let results = crate::util::par_map_threads(n, tier.pick(96, 128), |i| {
        let (c, s) = &all[i];
        match catch(|| run_script(*c, s)) {
            Ok(r) => r,
            Err(p) => ScriptRun { violation: Some((s.len().saturating_sub(1), "panic".into(), p)), certain_live: 0, certain_expired: 0, unjudged: 0, outcome: "panic".into() },
        }
    });
    let (mut live, mut expired, mut unjudged, mut viol) = (0u64, 0u64, 0u64, 0u64);
    let mut reported: std::collections::BTreeSet<String> = Default::default();
    // shortest scripts first
    let mut order: Vec<usize> = (0..n).collect();
    order.sort_by_key(|i| all[*i].1.len());
    for i in order {
        let (c, s) = &all[i];
        let r = &results[i];
        live += u64::from(r.certain_live);
        expired += u64::from(r.certain_expired);
        unjudged += u64::from(r.unjudged);
        rep.add_outcome(fnv64_str(&format!("x{}{}", c.sig(), r.outcome)));
        if let Some((_, kind, detail)) = &r.violation {
            viol += 1;
            if !reported.insert(format!("{}|{kind}", c.sig())) {
                continue;
            }
            // confirm once more and minimise before reporting (timing-independent by construction,
            // but a violation that does not reproduce is not reported)
            let again = run_script(*c, s);
            if again.violation.as_ref().map(|v| &v.1) != Some(kind) {
                rep.bump("expiry_script_violations_not_reproduced", 1);
                reported.remove(&format!("{}|{kind}", c.sig()));
                continue;
            }
            let core = minimise(*c, s, kind);
            let sig = sig_of(*c, kind, &core);
            rep.violation(
                kind,
                &sig,
                json!({"expiry_script": true, "config": c.name(), "ops": core.iter().map(|o| o.name()).collect::<Vec<_>>(), "found_in": s.iter().map(|o| o.name()).collect::<Vec<_>>()}),
                &format!("{} on {}: {detail}", core.iter().map(|o| o.name()).collect::<Vec<_>>().join("; "), c.name()),
            );
        }
    }
    rep.add_states(n as u64);
    rep.add_evaluations(n as u64);
    rep.add_nontrivial_count(n as u64);
    rep.add_transitions(all.iter().map(|(_, s)| s.len() as u64).sum());
    rep.extra(
        "expiry_scripts",
        json!({
            "what": "every script up to the depth bound over {put_short(p) [TTL 900 ms, real time], put_hour(p), get(p), contains(p), reopen (disk), wait} that starts with put_short, has exactly one wait and observes after it",
            "depth": depth,
            "configs": cfgs.iter().map(|c| c.name()).collect::<Vec<_>>(),
            "scripts": n,
            "violating_scripts": viol,
            "observations_of_a_certainly_live_entry": live,
            "observations_of_a_certainly_expired_entry": expired,
            "observations_unjudged_because_timing_was_uncertain": unjudged,
        }),
    );
    if expired == 0 || live == 0 {
        rep.machinery_error("vacuous expiry scripts: no observation was certainly before or certainly after the end of the TTL");
    }
}

pub fn replay(w: &serde_json::Value) -> Option<i32> {
    let wit = &w["witness"];
    if wit["expiry_script"].as_bool() != Some(true) {
        return None;
    }
    let Some(cfg) = wit["config"].as_str().and_then(Cfg::parse) else {
        println!("MACHINERY-ERROR: cannot parse configuration {:?}", wit["config"]);
        return Some(2);
    };
    let mut ops = Vec::new();
    for o in wit["ops"].as_array().cloned().unwrap_or_default() {
        match o.as_str().and_then(SOp::parse) {
            Some(o) => ops.push(o),
            None => {
                println!("MACHINERY-ERROR: cannot parse operation {o}");
                return Some(2);
            }
        }
    }
    println!("replaying expiry script on {}: {:?}", cfg.name(), ops.iter().map(|o| o.name()).collect::<Vec<_>>());
    let r = run_script(cfg, &ops);
    Some(match r.violation {
        Some((i, k, d)) => {
            println!("violates at op {i}: {k}: {d}");
            1
        }
        None => {
            println!("no violation (observations: {})", r.outcome);
            0
        }
    })
}
