//! C11 — concurrent cache and storage use is linearizable and keeps its books.
//!
//! SCHED engine: every interleaving (at hook granularity) of 2–3 tasks × 1–2 operations on
//! the real MemoryCache / DiskCache with at most B preemptions. Oracles per execution:
//! (1) no operation fails unless a concurrent operation of another task touches the same
//! key (an operation that loses no race does not fail); (2) the call/return history is
//! linearizable w.r.t. the sequential map specification (brute force); (3) after all tasks
//! finished the reported entry count and usage equal the real contents: exactly after a
//! settling pass (one get per key — that is when expired entries are collected), and before
//! that pass they may exceed the retrievable contents by at most the entries that were put
//! already expired (an entry nobody can retrieve and that is not an uncollected expired one
//! must not be on the books once every task has returned).
//!
//! Pre-states: besides "fresh cache + sequential set-up", the DiskCache bodies also start from
//! "a new instance on the directory a previous instance filled" (the set-up runs on a first
//! instance that is dropped; the tasks run on a second one whose index is still empty, so
//! every first access takes the on-disk fallback paths).
//!
//! `stats` (the call that reports the books) may be one of the concurrent operations; as an
//! operation it has to return without failing (its hit/miss figures are not judged).

use crate::report::{Level, Report, Tier};
use crate::sched::{Execution, FinishFn, OpRecord, SchedBody, SeqSpec, TaskCtx, TaskFn, Trace, explore, linearizable};
use crate::util::{Scratch, block_on};
use bytes::Bytes;
use cascette_cache::config::{DiskCacheConfig, MemoryCacheConfig};
use cascette_cache::key::CacheKey;
use cascette_cache::traits::{AsyncCache, EvictionPolicy};
use cascette_cache::{DiskCache, MemoryCache};
use std::collections::BTreeMap;
use std::sync::Arc;
use std::time::Duration;

#[derive(Debug, Clone, PartialEq, Eq, Hash)]
pub struct SKey(pub String);
impl CacheKey for SKey {
    fn as_cache_key(&self) -> &str {
        &self.0
    }
}

#[derive(Clone, Debug, PartialEq)]
pub enum COp {
    Get(&'static str),
    Contains(&'static str),
    Put(&'static str, &'static str),
    /// put_with_ttl(…, 0): the entry is expired as soon as it is stored
    PutX(&'static str, &'static str),
    Remove(&'static str),
    Clear,
    /// `stats()`: reads the books while other tasks work
    Stats,
    /// one pass of the DiskCache background cleanup task (`new_with_background_tasks`): the
    /// calling task advances the paused clock of the runtime the cache was built on and polls the
    /// spawned task, so the pass runs on the caller's thread, under the caller's hooks
    Cleanup,
}

impl COp {
    fn name(&self) -> String {
        match self {
            COp::Get(k) => format!("get {k}"),
            COp::Contains(k) => format!("contains {k}"),
            COp::Put(k, v) => format!("put {k} {v}"),
            COp::PutX(k, v) => format!("putx {k} {v}"),
            COp::Remove(k) => format!("remove {k}"),
            COp::Clear => "clear".to_string(),
            COp::Stats => "stats".to_string(),
            COp::Cleanup => "cleanup".to_string(),
        }
    }
    fn key(&self) -> Option<&'static str> {
        match self {
            COp::Get(k) | COp::Contains(k) | COp::Put(k, _) | COp::PutX(k, _) | COp::Remove(k) => Some(k),
            COp::Clear | COp::Stats | COp::Cleanup => None,
        }
    }
    /// May the two operations race for the same entry? `clear` touches every key, `stats` none.
    fn conflicts(&self, other: &COp) -> bool {
        if matches!(self, COp::Stats) || matches!(other, COp::Stats) {
            return false;
        }
        match (self.key(), other.key()) {
            (Some(a), Some(b)) => a == b,
            _ => true,
        }
    }
}

/// What a `stats()` call did, as an operation result. The figures themselves are judged after
/// all tasks finished (entry count, usage); hit/miss counters are not the property's subject.
fn stats_result(r: Result<cascette_cache::stats::CacheStats, String>) -> String {
    match r {
        Ok(_) => "ok".into(),
        Err(e) => format!("Err({e})"),
    }
}

/// Values: name → bytes; lengths differ so that torn/mixed content is recognisable.
fn value_bytes(v: &str) -> Bytes {
    let n = match v {
        "a" => 3,
        "b" => 8,
        "c" => 5,
        "d" => 13,
        _ => 1,
    };
    Bytes::from(v.as_bytes()[0..1].repeat(n))
}

fn value_name(b: &[u8]) -> String {
    for v in ["a", "b", "c", "d"] {
        if value_bytes(v).as_ref() == b {
            return v.to_string();
        }
    }
    format!("TORN({})", String::from_utf8_lossy(b))
}

#[derive(Clone)]
pub enum Kind {
    /// policy: 0 = LRU, 1 = LFU, 2 = FIFO; max_bytes = 0: no byte limit
    Memory { max_entries: usize, policy: u8, max_bytes: usize },
    Disk { subdirs: bool },
    /// MultiLayerCacheImpl over [Memory(1000), Disk]
    Layered,
    /// cascette-protocol's ProtocolCache over a DiskCache (string keys, sync API bridging to async)
    Protocol,
    /// DiskCache built with `new_with_background_tasks` on a private runtime with a paused clock:
    /// the cleanup task only runs when a `Cleanup` op advances that clock
    DiskBg { max_files: usize },
}

enum AnyCache {
    Mem(MemoryCache<SKey>),
    Disk(DiskCache<SKey>, #[allow(dead_code)] Scratch),
    Layered(cascette_cache::MultiLayerCacheImpl<SKey>, #[allow(dead_code)] Scratch),
    Protocol(cascette_protocol::cache::ProtocolCache, #[allow(dead_code)] Scratch),
    /// field order = drop order: the cache (aborts its tasks) before the runtime that polls them
    DiskBg(DiskCache<SKey>, tokio::runtime::Runtime, #[allow(dead_code)] Scratch),
}

const BG_INTERVAL: Duration = Duration::from_secs(300);

/// One tick of the background tasks' interval on the cache's private runtime.
fn bg_tick(rt: &tokio::runtime::Runtime) {
    rt.block_on(async {
        tokio::time::advance(BG_INTERVAL + Duration::from_secs(1)).await;
        for _ in 0..3 {
            tokio::task::yield_now().await;
        }
    });
}

fn build_disk_bg(dir: &std::path::Path, max_files: usize) -> (DiskCache<SKey>, tokio::runtime::Runtime) {
    let rt = tokio::runtime::Builder::new_current_thread().enable_all().start_paused(true).build().expect("tokio runtime (paused clock)");
    let mut cfg = DiskCacheConfig::new(dir).with_max_files(max_files).with_default_ttl(Duration::from_secs(3600)).with_subdirectories(false, 1);
    cfg.cleanup_interval = BG_INTERVAL;
    // the sync task's first tick (it spawns the `sync` command) fires with the construction below;
    // the next one is ten years of the paused clock away
    cfg.sync_interval = Duration::from_secs(10 * 365 * 24 * 3600);
    let c = rt.block_on(async {
        let c = DiskCache::new_with_background_tasks(cfg).expect("disk cache with background tasks");
        // the interval's first tick is immediate: let that pass run now, on the empty cache
        tokio::task::yield_now().await;
        tokio::time::advance(Duration::from_millis(2)).await;
        for _ in 0..3 {
            tokio::task::yield_now().await;
        }
        c
    });
    (c, rt)
}

impl AnyCache {
    fn exec(&self, op: &COp) -> String {
        macro_rules! run {
            ($c:expr) => {{
                let c = $c;
                match op {
                    COp::Get(k) => match block_on(c.get(&SKey(k.to_string()))) {
                        Ok(Some(b)) => format!("Some({})", value_name(&b)),
                        Ok(None) => "None".into(),
                        Err(e) => format!("Err({e})"),
                    },
                    COp::Contains(k) => match block_on(c.contains(&SKey(k.to_string()))) {
                        Ok(b) => format!("{b}"),
                        Err(e) => format!("Err({e})"),
                    },
                    COp::Put(k, v) => match block_on(c.put(SKey(k.to_string()), value_bytes(v))) {
                        Ok(()) => "ok".into(),
                        Err(e) => format!("Err({e})"),
                    },
                    COp::PutX(k, v) => match block_on(c.put_with_ttl(SKey(k.to_string()), value_bytes(v), Duration::ZERO)) {
                        Ok(()) => "ok".into(),
                        Err(e) => format!("Err({e})"),
                    },
                    COp::Remove(k) => match block_on(c.remove(&SKey(k.to_string()))) {
                        Ok(b) => format!("{b}"),
                        Err(e) => format!("Err({e})"),
                    },
                    COp::Clear => match block_on(c.clear()) {
                        Ok(()) => "ok".into(),
                        Err(e) => format!("Err({e})"),
                    },
                    COp::Stats => stats_result(block_on(c.stats()).map_err(|e| e.to_string())),
                    COp::Cleanup => {
                        if let AnyCache::DiskBg(_, rt, _) = self {
                            bg_tick(rt);
                        }
                        "ok".into()
                    }
                }
            }};
        }
        match self {
            AnyCache::DiskBg(c, _, _) => run!(c),
            AnyCache::Mem(c) => run!(c),
            AnyCache::Disk(c, _) => run!(c),
            AnyCache::Layered(c, _) => run!(c),
            AnyCache::Protocol(c, _) => match op {
                // called from a thread without a runtime: execute_async blocks on the shared
                // runtime on the calling thread, so this thread's hooks fire
                COp::Get(k) | COp::Contains(k) => match c.get(k) {
                    Ok(Some(b)) => {
                        if matches!(op, COp::Get(_)) { format!("Some({})", value_name(&b)) } else { "true".into() }
                    }
                    Ok(None) => {
                        if matches!(op, COp::Get(_)) { "None".into() } else { "false".into() }
                    }
                    Err(e) => format!("Err({e})"),
                },
                COp::Put(k, v) => match c.store_with_ttl(k, &value_bytes(v), Duration::from_secs(3600)) {
                    Ok(()) => "ok".into(),
                    Err(e) => format!("Err({e})"),
                },
                COp::PutX(k, v) => match c.store_with_ttl(k, &value_bytes(v), Duration::ZERO) {
                    Ok(()) => "ok".into(),
                    Err(e) => format!("Err({e})"),
                },
                COp::Remove(_) => "false".into(),
                COp::Stats | COp::Cleanup => "ok".into(),
                COp::Clear => match c.clear() {
                    Ok(()) => "ok".into(),
                    Err(e) => format!("Err({e})"),
                },
            },
        }
    }
    /// None: this cache kind keeps no books the property talks about (layered: per-layer books
    /// are the layers' own, judged through the Memory/Disk bodies).
    fn size(&self) -> Result<Option<usize>, String> {
        match self {
            AnyCache::Mem(c) => block_on(c.size()).map(Some).map_err(|e| e.to_string()),
            AnyCache::Disk(c, _) | AnyCache::DiskBg(c, _, _) => block_on(c.size()).map(Some).map_err(|e| e.to_string()),
            AnyCache::Layered(..) | AnyCache::Protocol(..) => Ok(None),
        }
    }
    fn usage(&self) -> Result<Option<usize>, String> {
        match self {
            AnyCache::Mem(c) => block_on(c.stats()).map(|s| Some(s.memory_usage_bytes)).map_err(|e| e.to_string()),
            AnyCache::Disk(c, _) | AnyCache::DiskBg(c, _, _) => block_on(c.stats()).map(|s| Some(s.memory_usage_bytes)).map_err(|e| e.to_string()),
            AnyCache::Layered(..) | AnyCache::Protocol(..) => Ok(None),
        }
    }
}

pub struct CacheBody {
    pub kind: Kind,
    pub setup: Vec<COp>,
    pub tasks: Vec<Vec<COp>>,
    /// capacity may be reached: a get may legitimately find nothing
    pub evicting: bool,
    /// DiskCache only: the set-up runs on a first instance, the tasks on a new instance on the
    /// same directory (empty index, files present)
    pub reopen: bool,
}

impl CacheBody {
    fn class(&self) -> &'static str {
        match self.kind {
            Kind::Memory { .. } => "mem",
            Kind::Disk { .. } if self.reopen => "disk-reopened",
            Kind::Disk { .. } => "disk",
            Kind::Layered => "layered",
            Kind::Protocol => "protocol",
            Kind::DiskBg { .. } => "disk-bg",
        }
    }
    fn keys(&self) -> Vec<&'static str> {
        let mut ks: Vec<&'static str> =
            self.setup.iter().chain(self.tasks.iter().flatten()).filter_map(COp::key).collect();
        ks.sort_unstable();
        ks.dedup();
        ks
    }
}

/// Sequential specification: a map with entries that are live or already expired.
struct MapSpec {
    lenient_none: bool,
}

type MapState = BTreeMap<String, (String, bool)>; // key → (value name, expired)

impl SeqSpec for MapSpec {
    type State = MapState;
    fn init(&self) -> MapState {
        BTreeMap::new()
    }
    fn step(&self, st: &MapState, op: &str, result: &str) -> Vec<MapState> {
        let parts: Vec<&str> = op.split(' ').collect();
        if result.starts_with("Err(") {
            // a failed operation takes no effect (whether it was allowed to fail is judged separately)
            return vec![st.clone()];
        }
        let without = |k: &str| {
            let mut s = st.clone();
            s.remove(k);
            s
        };
        match parts[0] {
            "put" | "putx" => {
                if result != "ok" {
                    return vec![];
                }
                let mut s = st.clone();
                s.insert(parts[1].to_string(), (parts[2].to_string(), parts[0] == "putx"));
                vec![s]
            }
            "get" => {
                let k = parts[1];
                match st.get(k) {
                    Some((v, false)) => {
                        if result == format!("Some({v})") {
                            vec![st.clone()]
                        } else if result == "None" && self.lenient_none {
                            vec![without(k)]
                        } else {
                            vec![]
                        }
                    }
                    Some((_, true)) => {
                        if result == "None" {
                            vec![without(k), st.clone()]
                        } else {
                            vec![]
                        }
                    }
                    None => {
                        if result == "None" {
                            vec![st.clone()]
                        } else {
                            vec![]
                        }
                    }
                }
            }
            "contains" => {
                let k = parts[1];
                match st.get(k) {
                    Some((_, false)) => {
                        if result == "true" {
                            vec![st.clone()]
                        } else if result == "false" && self.lenient_none {
                            vec![without(k)]
                        } else {
                            vec![]
                        }
                    }
                    Some((_, true)) => {
                        if result == "false" {
                            vec![without(k), st.clone()]
                        } else {
                            vec![]
                        }
                    }
                    None => {
                        if result == "false" {
                            vec![st.clone()]
                        } else {
                            vec![]
                        }
                    }
                }
            }
            "remove" => {
                let k = parts[1];
                match st.get(k) {
                    Some((_, false)) => {
                        if result == "true" {
                            vec![without(k)]
                        } else if result == "false" && self.lenient_none {
                            vec![without(k)]
                        } else {
                            vec![]
                        }
                    }
                    // removing an expired entry: either answer is acceptable
                    Some((_, true)) => {
                        if result == "true" || result == "false" {
                            vec![without(k)]
                        } else {
                            vec![]
                        }
                    }
                    None => {
                        if result == "false" {
                            vec![st.clone()]
                        } else {
                            vec![]
                        }
                    }
                }
            }
            "clear" => {
                if result == "ok" {
                    vec![BTreeMap::new()]
                } else {
                    vec![]
                }
            }
            // a cleanup pass collects expired entries (invisible either way); above `max_files` it
            // also evicts live ones, which the lenient bodies accept at the read that misses them
            "cleanup" => {
                if result == "ok" {
                    let mut s = st.clone();
                    s.retain(|_, v| !v.1);
                    vec![s, st.clone()]
                } else {
                    vec![]
                }
            }
            // reads the books, changes nothing
            "stats" => {
                if result == "ok" {
                    vec![st.clone()]
                } else {
                    vec![]
                }
            }
            _ => vec![],
        }
    }
}

impl SchedBody for CacheBody {
    fn name(&self) -> String {
        let t: Vec<String> = self
            .tasks
            .iter()
            .map(|ops| ops.iter().map(COp::name).collect::<Vec<_>>().join("; "))
            .collect();
        let s: Vec<String> = self.setup.iter().map(COp::name).collect();
        let k = match &self.kind {
            Kind::Memory { max_entries, policy: 0, max_bytes: 0 } => format!("MemoryCache(max_entries={max_entries})"),
            Kind::Memory { max_entries, policy, max_bytes } => {
                format!("MemoryCache(max_entries={max_entries},policy={},max_bytes={max_bytes})", ["lru", "lfu", "fifo"][usize::from(*policy) % 3])
            }
            Kind::Disk { subdirs } if self.reopen => format!("DiskCache(subdirs={subdirs},new instance after set-up)"),
            Kind::Disk { subdirs } => format!("DiskCache(subdirs={subdirs})"),
            Kind::Layered => "MultiLayerCacheImpl[Memory(1000),Disk]".to_string(),
            Kind::Protocol => "ProtocolCache(DiskCache)".to_string(),
            Kind::DiskBg { max_files } => format!("DiskCache(background cleanup task, max_files={max_files})"),
        };
        format!("{k} setup[{}] tasks[{}]", s.join("; "), t.join(" || "))
    }
    fn n_tasks(&self) -> usize {
        self.tasks.len()
    }
    fn setup(&self) -> Execution {
        let cache = match &self.kind {
            Kind::Memory { max_entries, policy, max_bytes } => {
                let pol = match policy {
                    1 => EvictionPolicy::Lfu,
                    2 => EvictionPolicy::Fifo,
                    _ => EvictionPolicy::Lru,
                };
                let mut cfg = MemoryCacheConfig::new()
                    .with_max_entries(*max_entries)
                    .with_eviction_policy(pol)
                    .with_default_ttl(Duration::from_secs(3600));
                if *max_bytes > 0 {
                    cfg = cfg.with_max_memory(*max_bytes);
                }
                AnyCache::Mem(MemoryCache::new(cfg).expect("memory cache"))
            }
            Kind::Disk { subdirs } => {
                let sc = Scratch::new("c11");
                let cfg = DiskCacheConfig::new(sc.path.join("cache"))
                    .with_max_files(1000)
                    .with_default_ttl(Duration::from_secs(3600))
                    .with_subdirectories(*subdirs, 1);
                AnyCache::Disk(DiskCache::new(cfg).expect("disk cache"), sc)
            }
            Kind::Layered => {
                let sc = Scratch::new("c11");
                let mem = MemoryCacheConfig::new().with_max_entries(1000).with_eviction_policy(EvictionPolicy::Lru).with_default_ttl(Duration::from_secs(3600));
                let disk = DiskCacheConfig::new(sc.path.join("cache")).with_max_files(1000).with_default_ttl(Duration::from_secs(3600)).with_subdirectories(false, 1);
                let cfg = cascette_cache::config::MultiLayerCacheConfig::new().add_memory_layer(mem).add_disk_layer(disk);
                // the constructor spawns its (idle) background tasks: it needs a runtime context
                let c = block_on(async { cascette_cache::MultiLayerCacheImpl::new(cfg) }).expect("multi-layer cache");
                AnyCache::Layered(c, sc)
            }
            Kind::Protocol => {
                let sc = Scratch::new("c11");
                let cfg = cascette_protocol::config::CacheConfig { cache_dir: Some(sc.path.join("cache")), ..Default::default() };
                AnyCache::Protocol(cascette_protocol::cache::ProtocolCache::new(&cfg).expect("protocol cache"), sc)
            }
            Kind::DiskBg { max_files } => {
                let sc = Scratch::new("c11");
                let (c, rt) = build_disk_bg(&sc.path.join("cache"), *max_files);
                AnyCache::DiskBg(c, rt, sc)
            }
        };
        // sequential set-up on the explorer thread (no hook installed here)
        let mut pre: Vec<OpRecord> = Vec::new();
        for (i, op) in self.setup.iter().enumerate() {
            let r = cache.exec(op);
            pre.push(OpRecord { task: 99, seq: i, op: op.name(), call: 0, ret: 0, result: r });
        }
        // pre-state "new instance on a filled directory": same configuration, same directory
        let cache = match (cache, &self.kind) {
            (AnyCache::Disk(first, sc), Kind::Disk { subdirs }) if self.reopen => {
                drop(first);
                let cfg = DiskCacheConfig::new(sc.path.join("cache"))
                    .with_max_files(1000)
                    .with_default_ttl(Duration::from_secs(3600))
                    .with_subdirectories(*subdirs, 1);
                AnyCache::Disk(DiskCache::new(cfg).expect("disk cache (second instance)"), sc)
            }
            (c, _) => c,
        };
        let cache = Arc::new(cache);
        let mut tasks: Vec<TaskFn> = Vec::new();
        for ops in &self.tasks {
            let ops = ops.clone();
            let c = cache.clone();
            tasks.push(Box::new(move |tc: &TaskCtx| {
                for op in &ops {
                    tc.op(&op.name(), || c.exec(op));
                }
            }));
        }
        let keys = self.keys();
        let evicting = self.evicting;
        let task_ops: Vec<Vec<COp>> = self.tasks.clone();
        // per key the largest value that was ever stored already expired
        let mut expired_puts: BTreeMap<&'static str, usize> = BTreeMap::new();
        for op in self.setup.iter().chain(self.tasks.iter().flatten()) {
            if let COp::PutX(k, v) = op {
                let e = expired_puts.entry(k).or_insert(0);
                *e = (*e).max(value_bytes(v).len());
            }
        }
        let slack_entries = expired_puts.len();
        let slack_bytes: usize = expired_puts.values().sum();
        let c = cache.clone();
        let finish: FinishFn = Box::new(move |ops: &[OpRecord]| {
            // (1) failures: allowed only when another task's overlapping op touches the same key
            for o in ops {
                if o.result.starts_with("Err(") {
                    let mine = &task_ops[o.task][o.seq];
                    let raced = ops.iter().any(|p| {
                        p.task != o.task && !(p.ret < o.call || o.ret < p.call) && mine.conflicts(&task_ops[p.task][p.seq])
                    });
                    if !raced {
                        return Err((
                            "spurious-error".to_string(),
                            format!("`{}` of task {} failed with {} although no concurrent operation touched its key", o.op, o.task, o.result),
                        ));
                    }
                }
                if o.result.contains("TORN") {
                    return Err(("torn-value".to_string(), format!("`{}` returned {}: not a value any put wrote", o.op, o.result)));
                }
            }
            // final observation (sequential, after join): a get per key, then the books
            let mut all: Vec<OpRecord> = Vec::new();
            for p in &pre {
                all.push(p.clone());
            }
            // shift task ops after the set-up in real time
            for o in ops {
                let mut o2 = o.clone();
                o2.call += 10;
                o2.ret += 10;
                all.push(o2);
            }
            // the books as reported right after the last task returned (before anything settles);
            // a reporting call that panics reports nothing
            let books = |what: &str| -> Result<(Option<usize>, Option<usize>), (String, String)> {
                match crate::util::catch(|| (c.size(), c.usage())) {
                    Ok((size, usage)) => Ok((size.map_err(|e| ("size-error".to_string(), e))?, usage.map_err(|e| ("stats-error".to_string(), e))?)),
                    Err(msg) => {
                        let loc = crate::util::take_last_panic_loc().map(|l| crate::util::norm_loc(&l)).unwrap_or_default();
                        Err(("books-panic".to_string(), format!("size()/stats() {what} panicked at {loc}: {msg}")))
                    }
                }
            };
            let (size_before, usage_before) = books("after all tasks finished")?;
            let mut step = ops.iter().map(|o| o.ret).max().unwrap_or(0) + 100;
            let mut live = 0usize;
            let mut bytes = 0usize;
            let mut finals = Vec::new();
            for k in &keys {
                let r = c.exec(&COp::Get(k));
                if r.starts_with("Err(") {
                    return Err(("final-get-error".to_string(), format!("after all tasks finished get {k} fails: {r}")));
                }
                if r.contains("TORN") {
                    return Err(("torn-value".to_string(), format!("after all tasks finished get {k} returned {r}")));
                }
                if let Some(v) = r.strip_prefix("Some(").and_then(|s| s.strip_suffix(')')) {
                    live += 1;
                    bytes += value_bytes(v).len();
                }
                finals.push(format!("{k}={r}"));
                all.push(OpRecord { task: 98, seq: finals.len(), op: format!("get {k}"), call: step, ret: step, result: r });
                step += 2;
            }
            // set-up ops strictly precede everything: give them distinct early steps
            for (i, p) in all.iter_mut().filter(|p| p.task == 99).enumerate() {
                p.call = i as u64 * 2;
                p.ret = i as u64 * 2;
            }
            // (2) linearizability
            let spec = MapSpec { lenient_none: evicting };
            if all.len() <= 12 && !linearizable(&spec, &all) {
                let h: Vec<String> = all.iter().map(|o| format!("t{} {} [{}..{}] -> {}", o.task, o.op, o.call, o.ret, o.result)).collect();
                return Err(("not-linearizable".to_string(), format!("no sequential order of the map specification explains: {h:?}")));
            }
            // (3a) books before settling: what is reported beyond the retrievable contents can
            // only be entries that were stored already expired and not collected yet
            if let Some(size) = size_before {
                if size > live + slack_entries {
                    return Err((
                        "books-entry-overcount".to_string(),
                        format!("after all tasks finished size() = {size}, but {live} keys are retrievable ({finals:?}) and at most {slack_entries} uncollected expired entries can exist"),
                    ));
                }
            }
            if let Some(usage) = usage_before {
                if usage > bytes + slack_bytes {
                    return Err((
                        "books-usage-overcount".to_string(),
                        format!("after all tasks finished the reported usage = {usage} bytes, but the retrievable content is {bytes} bytes ({finals:?}) and uncollected expired entries can hold at most {slack_bytes} bytes"),
                    ));
                }
            }
            // (3b) books after settling (the final gets touched every key)
            let (size, usage) = books("after the settling gets")?;
            if let Some(size) = size {
                if size != live {
                    return Err(("books-entry-count".to_string(), format!("size() = {size} but {live} keys are retrievable ({finals:?})")));
                }
            }
            if let Some(usage) = usage {
                if usage != bytes {
                    return Err(("books-usage".to_string(), format!("reported usage = {usage} bytes but retrievable content is {bytes} bytes ({finals:?})")));
                }
            }
            let results: Vec<String> = ops.iter().map(|o| format!("{}={}", o.op, o.result)).collect();
            Ok(format!("{results:?} final {finals:?}"))
        });
        Execution { tasks, finish }
    }
}


// ---------------------------------------------------------------------------------------
// DynamicContainer body: concurrent write / read / remove / query on one local container
// ---------------------------------------------------------------------------------------

#[derive(Clone, Debug, PartialEq)]
pub enum DOp {
    Write(&'static str),
    Read(&'static str),
    Remove(&'static str),
    Query(&'static str),
}

impl DOp {
    fn name(&self) -> String {
        match self {
            DOp::Write(v) => format!("dwrite {v}"),
            DOp::Read(v) => format!("dread {v}"),
            DOp::Remove(v) => format!("dremove {v}"),
            DOp::Query(v) => format!("dquery {v}"),
        }
    }
    fn obj(&self) -> &'static str {
        match self {
            DOp::Write(v) | DOp::Read(v) | DOp::Remove(v) | DOp::Query(v) => v,
        }
    }
}

fn dyn_payload(v: &str) -> Vec<u8> {
    // sizes chosen so that a later, smaller object follows a larger one (mapping refresh)
    let n = match v {
        "A" => 1000,
        "B" => 100,
        _ => 3000,
    };
    (0..n).map(|i| (i as u8).wrapping_mul(7).wrapping_add(v.as_bytes()[0])).collect()
}

pub struct DynBody {
    pub setup: Vec<DOp>,
    pub tasks: Vec<Vec<DOp>>,
}

struct DynStore {
    c: cascette_client_storage::container::DynamicContainer,
    #[allow(dead_code)]
    sc: Scratch,
}

impl DynStore {
    fn exec(&self, op: &DOp) -> String {
        use cascette_client_storage::container::Container;
        let data = dyn_payload(op.obj());
        let key = crate::props::c04::ekey_n(&data);
        match op {
            DOp::Write(_) => match block_on(self.c.write(&key, &data)) {
                Ok(()) => "ok".into(),
                Err(e) => format!("Err({e})"),
            },
            DOp::Read(v) => {
                let mut buf = vec![0u8; data.len() + 64];
                match block_on(self.c.read(&key, 0, data.len() as u32, &mut buf)) {
                    Ok(n) => {
                        if buf[..n] == data[..] {
                            format!("bytes({v})")
                        } else {
                            format!("WRONG-BYTES({n} bytes)")
                        }
                    }
                    Err(cascette_client_storage::StorageError::NotFound(_)) => "NotFound".into(),
                    Err(e) => format!("Err({e})"),
                }
            }
            DOp::Remove(_) => match block_on(self.c.remove(&key)) {
                Ok(()) => "ok".into(),
                Err(e) => format!("Err({e})"),
            },
            DOp::Query(_) => match block_on(self.c.query(&key)) {
                Ok(b) => format!("{b}"),
                Err(e) => format!("Err({e})"),
            },
        }
    }
}

/// Sequential specification: a set of present objects.
struct SetSpec;

impl SeqSpec for SetSpec {
    type State = std::collections::BTreeSet<String>;
    fn init(&self) -> Self::State {
        Default::default()
    }
    fn step(&self, st: &Self::State, op: &str, result: &str) -> Vec<Self::State> {
        let parts: Vec<&str> = op.split(' ').collect();
        let v = parts[1].to_string();
        match parts[0] {
            "dwrite" => {
                if result == "ok" {
                    let mut s = st.clone();
                    s.insert(v);
                    vec![s]
                } else {
                    vec![]
                }
            }
            "dread" => {
                if (st.contains(&v) && result == format!("bytes({v})")) || (!st.contains(&v) && result == "NotFound") {
                    vec![st.clone()]
                } else {
                    vec![]
                }
            }
            "dremove" => {
                if result == "ok" {
                    let mut s = st.clone();
                    s.remove(&v);
                    vec![s]
                } else {
                    vec![]
                }
            }
            "dquery" => {
                if result == format!("{}", st.contains(&v)) {
                    vec![st.clone()]
                } else {
                    vec![]
                }
            }
            _ => vec![],
        }
    }
}

impl SchedBody for DynBody {
    fn name(&self) -> String {
        let t: Vec<String> = self.tasks.iter().map(|ops| ops.iter().map(DOp::name).collect::<Vec<_>>().join("; ")).collect();
        let s: Vec<String> = self.setup.iter().map(DOp::name).collect();
        format!("DynamicContainer setup[{}] tasks[{}]", s.join("; "), t.join(" || "))
    }
    fn n_tasks(&self) -> usize {
        self.tasks.len()
    }
    fn setup(&self) -> Execution {
        let sc = Scratch::new("c11d");
        let c = cascette_client_storage::container::DynamicContainer::builder(sc.path.join("store")).build().expect("container");
        block_on(c.open()).expect("open");
        let store = Arc::new(DynStore { c, sc });
        let mut all_pre: Vec<OpRecord> = Vec::new();
        for (i, op) in self.setup.iter().enumerate() {
            let r = store.exec(op);
            all_pre.push(OpRecord { task: 99, seq: i, op: op.name(), call: i as u64 * 2, ret: i as u64 * 2, result: r });
        }
        let mut tasks: Vec<TaskFn> = Vec::new();
        for ops in &self.tasks {
            let ops = ops.clone();
            let st = store.clone();
            tasks.push(Box::new(move |tc: &TaskCtx| {
                for op in &ops {
                    tc.op(&op.name(), || st.exec(op));
                }
            }));
        }
        let mut objs: Vec<&'static str> = self.setup.iter().chain(self.tasks.iter().flatten()).map(DOp::obj).collect();
        objs.sort_unstable();
        objs.dedup();
        let st = store.clone();
        let finish: FinishFn = Box::new(move |ops: &[OpRecord]| {
            for o in ops {
                if o.result.starts_with("Err(") {
                    return Err(("spurious-error".to_string(), format!("`{}` of task {} failed with {}", o.op, o.task, o.result)));
                }
                if o.result.starts_with("WRONG-BYTES") {
                    return Err(("wrong-bytes".to_string(), format!("`{}` returned {}: not the bytes that were written", o.op, o.result)));
                }
            }
            let mut all = all_pre.clone();
            for o in ops {
                let mut o2 = o.clone();
                o2.call += 100;
                o2.ret += 100;
                all.push(o2);
            }
            let mut step = ops.iter().map(|o| o.ret).max().unwrap_or(0) + 1000;
            let mut finals = Vec::new();
            for v in &objs {
                for op in [DOp::Query(v), DOp::Read(v)] {
                    let r = st.exec(&op);
                    if r.starts_with("Err(") || r.starts_with("WRONG") {
                        return Err(("final-read-error".to_string(), format!("after all tasks finished `{}` gives {r}", op.name())));
                    }
                    finals.push(format!("{}={r}", op.name()));
                    all.push(OpRecord { task: 98, seq: finals.len(), op: op.name(), call: step, ret: step, result: r });
                    step += 2;
                }
            }
            if all.len() <= 14 && !linearizable(&SetSpec, &all) {
                let h: Vec<String> = all.iter().map(|o| format!("t{} {} [{}..{}] -> {}", o.task, o.op, o.call, o.ret, o.result)).collect();
                return Err(("not-linearizable".to_string(), format!("no sequential order of the set specification explains: {h:?}")));
            }
            let results: Vec<String> = ops.iter().map(|o| format!("{}={}", o.op, o.result)).collect();
            Ok(format!("{results:?} final {finals:?}"))
        });
        Execution { tasks, finish }
    }
}

fn dyn_bodies(tier: Tier) -> Vec<DynBody> {
    let mut out = Vec::new();
    let single: Vec<DOp> = vec![DOp::Write("B"), DOp::Read("A"), DOp::Remove("A"), DOp::Query("A"), DOp::Write("A"), DOp::Read("B")];
    for pre in [vec![], vec![DOp::Write("A")]] {
        for i in 0..single.len() {
            for j in i..single.len() {
                let ro = |o: &DOp| matches!(o, DOp::Read(_) | DOp::Query(_));
                if ro(&single[i]) && ro(&single[j]) {
                    continue;
                }
                out.push(DynBody { setup: pre.clone(), tasks: vec![vec![single[i].clone()], vec![single[j].clone()]] });
            }
        }
    }
    let two: Vec<Vec<DOp>> = vec![
        vec![DOp::Write("B"), DOp::Read("B")],
        vec![DOp::Write("C"), DOp::Read("A")],
        vec![DOp::Remove("A"), DOp::Write("A")],
        vec![DOp::Read("A"), DOp::Query("B")],
    ];
    for i in 0..two.len() {
        for j in i..two.len() {
            if tier == Tier::Quick && (i + j) % 2 == 1 {
                continue;
            }
            out.push(DynBody { setup: vec![DOp::Write("A")], tasks: vec![two[i].clone(), two[j].clone()] });
        }
    }
    if tier == Tier::Thorough {
        for i in 0..single.len() {
            for j in i..single.len() {
                for l in j..single.len() {
                    out.push(DynBody { setup: vec![DOp::Write("A")], tasks: vec![vec![single[i].clone()], vec![single[j].clone()], vec![single[l].clone()]] });
                }
            }
        }
    }
    out
}

fn sig_for(class: &str) -> impl Fn(&str, &Trace) -> String + Sync + '_ {
    move |kind: &str, x: &Trace| {
        let mut sites: Vec<&'static str> = x
            .points
            .iter()
            .filter(|p| p.prev_enabled && p.chosen != 0)
            .map(|p| p.enabled[0].1)
            .collect();
        sites.sort_unstable();
        sites.dedup();
        format!("{class}|{kind}|preempted-at:{}", sites.join(","))
    }
}

/// Signature for the classes whose windows are made of lock operations (every schedule that
/// slips an operation into the same window preempts at a different mix of `rwlock.*` points):
/// the operations of different tasks that overlapped in time, without their values.
fn sig_by_overlap(class: &str) -> impl Fn(&str, &Trace) -> String + Sync + '_ {
    move |kind: &str, x: &Trace| {
        let short = |op: &str| op.split(' ').take(2).collect::<Vec<_>>().join(" ");
        let mut racing: Vec<String> = Vec::new();
        for a in &x.ops {
            if x.ops.iter().any(|b| b.task != a.task && !(b.ret < a.call || a.ret < b.call)) {
                racing.push(short(&a.op));
            }
        }
        racing.sort_unstable();
        racing.dedup();
        // keys renamed by first appearance: `clear+get j` and `clear+get k` are the same race
        let mut names: Vec<String> = Vec::new();
        let renamed: Vec<String> = racing
            .iter()
            .map(|r| match r.split_once(' ') {
                Some((op, key)) => {
                    let i = names.iter().position(|n| n == key).unwrap_or_else(|| {
                        names.push(key.to_string());
                        names.len() - 1
                    });
                    format!("{op} {}", ["p", "q", "r", "s"][i.min(3)])
                }
                None => r.clone(),
            })
            .collect();
        format!("{class}|{kind}|overlapping:{}", renamed.join("+"))
    }
}

/// Signature for the bodies with a concurrent `stats()`: a panic is named by the source file it
/// comes from (the reporting code of that cache), anything else by the overlapping operations.
fn sig_stats(class: &str) -> impl Fn(&str, &Trace) -> String + Sync + '_ {
    move |kind: &str, x: &Trace| {
        if kind == "panic" {
            if let Err((_, detail)) = &x.verdict {
                if let Some((_, loc)) = detail.rsplit_once(" at ") {
                    return format!("{class}|stats-concurrent|panic|{}", crate::util::norm_loc(loc.trim()));
                }
            }
        }
        sig_by_overlap(class)(kind, x)
    }
}

fn bodies(tier: Tier) -> Vec<CacheBody> {
    let mut out = Vec::new();
    // ---- MemoryCache, non-evicting ----
    let mem = Kind::Memory { max_entries: 1000, policy: 0, max_bytes: 0 };
    let single: Vec<COp> = vec![
        COp::Get("k"),
        COp::Contains("k"),
        COp::Put("k", "b"),
        COp::PutX("k", "c"),
        COp::Remove("k"),
        COp::Clear,
        COp::Put("j", "d"),
    ];
    let presets: Vec<Vec<COp>> = vec![vec![], vec![COp::Put("k", "a")], vec![COp::PutX("k", "a")]];
    for pre in &presets {
        for i in 0..single.len() {
            for j in i..single.len() {
                // two pure readers never conflict: skip get/contains pairs
                let ro = |o: &COp| matches!(o, COp::Get(_) | COp::Contains(_));
                if ro(&single[i]) && ro(&single[j]) && pre.iter().all(|p| !matches!(p, COp::PutX(..))) {
                    continue;
                }
                out.push(CacheBody { kind: mem.clone(), setup: pre.clone(), tasks: vec![vec![single[i].clone()], vec![single[j].clone()]], evicting: false, reopen: false });
            }
        }
    }
    // two ops per task on selected collisions
    let two: Vec<Vec<COp>> = vec![
        vec![COp::Put("k", "b"), COp::Get("k")],
        vec![COp::PutX("k", "c"), COp::Get("k")],
        vec![COp::Get("k"), COp::Put("k", "d")],
        vec![COp::Remove("k"), COp::Put("k", "d")],
        vec![COp::Put("j", "d"), COp::Clear],
    ];
    for pre in &presets[1..] {
        for i in 0..two.len() {
            for j in i..two.len() {
                if tier == Tier::Quick && (i + j) % 2 == 1 {
                    continue;
                }
                out.push(CacheBody { kind: mem.clone(), setup: pre.clone(), tasks: vec![two[i].clone(), two[j].clone()], evicting: false, reopen: false });
            }
        }
    }
    if tier == Tier::Thorough {
        // three tasks × one op
        for pre in &presets[1..] {
            for i in 0..single.len() {
                for j in i..single.len() {
                    for l in j..single.len() {
                        out.push(CacheBody { kind: mem.clone(), setup: pre.clone(), tasks: vec![vec![single[i].clone()], vec![single[j].clone()], vec![single[l].clone()]], evicting: false, reopen: false });
                    }
                }
            }
        }
    }
    // ---- MemoryCache, evicting (capacity 2) ----
    // a put of a new key picks a victim; the other task reads, replaces (with a value of another
    // size), removes or clears meanwhile. Values: a=3, b=8, c=5, d=13 bytes.
    let others: Vec<COp> = vec![
        COp::Put("n", "c"),
        COp::Get("k"),
        COp::Remove("k"),
        COp::Clear,
        COp::Put("k", "b"),
        COp::Put("j", "b"),
        COp::PutX("k", "c"),
        COp::Contains("j"),
    ];
    let evict_setup = vec![COp::Put("k", "a"), COp::Put("j", "d")];
    // LFU is left out: with equal access counts its victim follows the iteration order of the
    // randomly seeded DashMap, a choice the scheduler does not own (replays would diverge).
    for policy in [0u8, 2] {
        // entry limit 2
        let small = Kind::Memory { max_entries: 2, policy, max_bytes: 0 };
        for (n, o) in others.iter().enumerate() {
            if tier == Tier::Quick && policy != 0 && n < 4 && n != 0 {
                continue;
            }
            out.push(CacheBody { kind: small.clone(), setup: evict_setup.clone(), tasks: vec![vec![COp::Put("m", "b")], vec![o.clone()]], evicting: true, reopen: false });
        }
        // byte limit 20: k(3) + j(13) + m(8) = 24 needs an eviction round in evict_for_bytes
        let tight = Kind::Memory { max_entries: 1000, policy, max_bytes: 20 };
        for (n, o) in others.iter().enumerate() {
            if tier == Tier::Quick && (n == 1 || n == 7) {
                continue;
            }
            out.push(CacheBody { kind: tight.clone(), setup: evict_setup.clone(), tasks: vec![vec![COp::Put("m", "b")], vec![o.clone()]], evicting: true, reopen: false });
        }
    }

    // ---- DiskCache ----
    for subdirs in [false, true] {
        let disk = Kind::Disk { subdirs };
        let dsingle: Vec<COp> = vec![COp::Get("k"), COp::Put("k", "b"), COp::Remove("k"), COp::PutX("k", "c"), COp::Contains("k"), COp::Clear];
        for pre in [vec![], vec![COp::Put("k", "a")]] {
            for i in 0..dsingle.len() {
                for j in i..dsingle.len() {
                    let ro = |o: &COp| matches!(o, COp::Get(_) | COp::Contains(_));
                    if ro(&dsingle[i]) && ro(&dsingle[j]) {
                        continue;
                    }
                    if tier == Tier::Quick && subdirs && (i + j) % 2 == 1 {
                        continue;
                    }
                    out.push(CacheBody { kind: disk.clone(), setup: pre.clone(), tasks: vec![vec![dsingle[i].clone()], vec![dsingle[j].clone()]], evicting: false, reopen: false });
                }
            }
        }
        // different keys sharing a temp-file name (x.y / x.z both write x.tmp)
        out.push(CacheBody { kind: disk.clone(), setup: vec![], tasks: vec![vec![COp::Put("x.y", "a")], vec![COp::Put("x.z", "d")]], evicting: false, reopen: false });
        out.push(CacheBody { kind: disk.clone(), setup: vec![], tasks: vec![vec![COp::Put("x.y", "a"), COp::Get("x.y")], vec![COp::Put("x.z", "d"), COp::Get("x.z")]], evicting: false, reopen: false });
        // different plain keys: must be completely independent
        out.push(CacheBody { kind: disk.clone(), setup: vec![], tasks: vec![vec![COp::Put("k", "a"), COp::Get("k")], vec![COp::Put("j", "d"), COp::Remove("j")]], evicting: false, reopen: false });
        // two operations per task on the colliding key
        let dtwo: Vec<Vec<COp>> = vec![
            vec![COp::Put("k", "b"), COp::Get("k")],
            vec![COp::PutX("k", "c"), COp::Get("k")],
            vec![COp::Get("k"), COp::Put("k", "d")],
            vec![COp::Remove("k"), COp::Put("k", "d")],
            vec![COp::Put("j", "d"), COp::Clear],
        ];
        if !subdirs || tier == Tier::Thorough {
            for i in 0..dtwo.len() {
                for j in i..dtwo.len() {
                    out.push(CacheBody { kind: disk.clone(), setup: vec![COp::Put("k", "a")], tasks: vec![dtwo[i].clone(), dtwo[j].clone()], evicting: false, reopen: false });
                }
            }
        }
        if tier == Tier::Thorough {
            // three tasks × one op
            for i in 0..dsingle.len() {
                for j in i..dsingle.len() {
                    for l in j..dsingle.len() {
                        out.push(CacheBody { kind: disk.clone(), setup: vec![COp::Put("k", "a")], tasks: vec![vec![dsingle[i].clone()], vec![dsingle[j].clone()], vec![dsingle[l].clone()]], evicting: false, reopen: false });
                    }
                }
            }
        }
    }
    // ---- DiskCache, second instance on the directory the set-up filled: the index is empty, so
    // the first access of a key goes through the on-disk fallback (get reads the file and
    // indexes it afterwards; remove and clear delete files that are not indexed). Two gets are
    // not "two readers" here: both try to index the key.
    for subdirs in [false, true] {
        if subdirs && tier == Tier::Quick {
            continue;
        }
        let disk = Kind::Disk { subdirs };
        let rsingle: Vec<COp> = vec![COp::Get("k"), COp::Remove("k"), COp::Clear, COp::Put("k", "b"), COp::PutX("k", "c"), COp::Get("j"), COp::Contains("k")];
        for pre in [vec![COp::Put("k", "a")], vec![COp::Put("k", "a"), COp::Put("j", "d")], vec![COp::PutX("k", "a")]] {
            for i in 0..rsingle.len() {
                for j in i..rsingle.len() {
                    out.push(CacheBody { kind: disk.clone(), setup: pre.clone(), tasks: vec![vec![rsingle[i].clone()], vec![rsingle[j].clone()]], evicting: false, reopen: true });
                }
            }
        }
        // the indexing get followed by a second operation of the same task
        let rtwo: Vec<Vec<COp>> = vec![
            vec![COp::Get("k"), COp::Get("k")],
            vec![COp::Get("k"), COp::Put("k", "d")],
            vec![COp::Remove("k"), COp::Get("k")],
            vec![COp::Get("j"), COp::Clear],
        ];
        for i in 0..rtwo.len() {
            for j in i..rtwo.len() {
                if tier == Tier::Quick && (i + j) % 2 == 1 {
                    continue;
                }
                out.push(CacheBody { kind: disk.clone(), setup: vec![COp::Put("k", "a"), COp::Put("j", "d")], tasks: vec![rtwo[i].clone(), rtwo[j].clone()], evicting: false, reopen: true });
            }
        }
        if tier == Tier::Thorough {
            for i in 0..rsingle.len() {
                for j in i..rsingle.len() {
                    for l in j..rsingle.len() {
                        out.push(CacheBody { kind: disk.clone(), setup: vec![COp::Put("k", "a"), COp::Put("j", "d")], tasks: vec![vec![rsingle[i].clone()], vec![rsingle[j].clone()], vec![rsingle[l].clone()]], evicting: false, reopen: true });
                    }
                }
            }
        }
    }
    // ---- stats() while another task works: the reporting call must return whatever the other
    // task is doing (it reads several counters one after the other)
    for kind in [Kind::Memory { max_entries: 1000, policy: 0, max_bytes: 0 }, Kind::Disk { subdirs: false }] {
        let against: Vec<Vec<COp>> = vec![
            vec![COp::Get("k")],
            vec![COp::Get("k"), COp::Get("k")],
            vec![COp::Put("k", "b")],
            vec![COp::Remove("k")],
            vec![COp::Clear],
            vec![COp::Get("j")],
        ];
        for pre in [vec![COp::Put("k", "a")], vec![COp::Put("k", "a"), COp::Get("k"), COp::Get("j")]] {
            for t in &against {
                out.push(CacheBody { kind: kind.clone(), setup: pre.clone(), tasks: vec![vec![COp::Stats], t.clone()], evicting: false, reopen: false });
            }
        }
        if tier == Tier::Thorough {
            out.push(CacheBody { kind: kind.clone(), setup: vec![COp::Put("k", "a")], tasks: vec![vec![COp::Stats], vec![COp::Get("k")], vec![COp::Get("k")]], evicting: false, reopen: false });
            out.push(CacheBody { kind: kind.clone(), setup: vec![COp::Put("k", "a")], tasks: vec![vec![COp::Stats, COp::Stats], vec![COp::Get("k"), COp::Clear]], evicting: false, reopen: false });
        }
    }
    // ---- DiskCache with its background cleanup task: one pass of the task (expired entries out,
    // index entry and file) against every foreground operation on the same key, from pre-states
    // with an expired entry, a live one, both; and with the file limit exceeded (the pass evicts)
    let bsingle: Vec<Vec<COp>> = vec![
        vec![COp::Put("k", "b")],
        vec![COp::Get("k")],
        vec![COp::Contains("k")],
        vec![COp::Remove("k")],
        vec![COp::PutX("k", "c")],
        vec![COp::Clear],
        vec![COp::Put("k", "b"), COp::Get("k")],
        vec![COp::Get("k"), COp::Put("k", "d")],
        vec![COp::Stats],
    ];
    for pre in [vec![COp::PutX("k", "a")], vec![COp::PutX("k", "a"), COp::Put("j", "d")], vec![COp::Put("k", "a")]] {
        for t in &bsingle {
            out.push(CacheBody { kind: Kind::DiskBg { max_files: 1000 }, setup: pre.clone(), tasks: vec![vec![COp::Cleanup], t.clone()], evicting: false, reopen: false });
        }
    }
    for t in &bsingle[..6] {
        // three live entries over max_files = 2: the pass evicts down to 90 % (one entry)
        out.push(CacheBody { kind: Kind::DiskBg { max_files: 2 }, setup: vec![COp::Put("k", "a"), COp::Put("j", "d"), COp::Put("i", "c")], tasks: vec![vec![COp::Cleanup], t.clone()], evicting: true, reopen: false });
    }
    if tier == Tier::Thorough {
        for i in 0..6 {
            for j in i..6 {
                out.push(CacheBody { kind: Kind::DiskBg { max_files: 1000 }, setup: vec![COp::PutX("k", "a")], tasks: vec![vec![COp::Cleanup], bsingle[i].clone(), bsingle[j].clone()], evicting: false, reopen: false });
            }
        }
    }
    // ---- ProtocolCache over DiskCache: store/get/clear through the sync bridge
    let psingle: Vec<COp> = vec![COp::Get("k"), COp::Put("k", "b"), COp::PutX("k", "c"), COp::Clear, COp::Put("j", "d")];
    for pre in [vec![], vec![COp::Put("k", "a")]] {
        for i in 0..psingle.len() {
            for j in i..psingle.len() {
                if matches!(psingle[i], COp::Get(_)) && matches!(psingle[j], COp::Get(_)) {
                    continue;
                }
                if tier == Tier::Quick && (i + j) % 2 == 1 {
                    continue;
                }
                out.push(CacheBody { kind: Kind::Protocol, setup: pre.clone(), tasks: vec![vec![psingle[i].clone()], vec![psingle[j].clone()]], evicting: false, reopen: false });
            }
        }
    }
    // ---- MultiLayerCacheImpl over [Memory, Disk]: a layered get is a scan over the layers and may
    // miss a key that a concurrent put moves between them; "nothing" is therefore not judged
    // (lenient), everything else is: no value other than one some put wrote for that key and that
    // has not been replaced before the get started, no failure, no torn value.
    let lsingle: Vec<COp> = vec![COp::Get("k"), COp::Put("k", "b"), COp::Remove("k"), COp::Contains("k"), COp::PutX("k", "c")];
    for pre in [vec![], vec![COp::Put("k", "a")]] {
        for i in 0..lsingle.len() {
            for j in i..lsingle.len() {
                let ro = |o: &COp| matches!(o, COp::Get(_) | COp::Contains(_));
                if ro(&lsingle[i]) && ro(&lsingle[j]) {
                    continue;
                }
                if tier == Tier::Quick && (i + j) % 2 == 1 {
                    continue;
                }
                out.push(CacheBody { kind: Kind::Layered, setup: pre.clone(), tasks: vec![vec![lsingle[i].clone()], vec![lsingle[j].clone()]], evicting: true, reopen: false });
            }
        }
    }
    out
}

pub fn run(tier: Tier, seed: u64) -> i32 {
    let rep = Report::new("C11", tier, seed, Level::ModelChecking);
    rep.set_rule("every schedule (sequence of task choices at the repository's vp_sched! points) of each harness body with at most B preemptions, run on the real MemoryCache/DiskCache; states = distinct site traces, transitions = scheduling decisions, traces = executions; an execution is non-trivial when it contains ≥1 preemption");
    rep.assume("sequential consistency at hook granularity (Relaxed counters are not explored under weak memory)");
    rep.assume("the std RwLocks of cascette-cache (DiskCache index, multi-layer promotion tracker) and the parking_lot RwLocks of DynamicContainer (index, archive, allocator, LRU) and of ArchiveManager (write positions) are scheduler-aware: acquire and release are scheduling points, a blocked acquire disables the task until a release, all-blocked is reported as deadlock; hooks never sit inside the guard scopes of locks that are not wrapped (DashMap shards — MemoryCache's map is wrapped so that its point operations are scheduling points taken before the shard lock —, the other parking_lot locks of cascette-client-storage), where a lock-holding segment is atomic as in reality");
    rep.assume("map specification: expired entries answer None/false; removing an expired entry may return either boolean; a failed op takes no effect and may fail only when a concurrent op of another task touches the same key");
    rep.assume("books: size() and stats() are read right after the last task returned and again after one get per key; before the gets they may exceed the retrievable contents only by entries that were put with ttl 0 (uncollected expired entries), after them they must be equal; under-reporting before the gets is not judged here");
    rep.assume("pre-state 'new instance on a filled directory' (DiskCache bodies marked so): the set-up runs sequentially on a first instance with the same configuration, which is dropped before the tasks start on a second one; its signatures name the overlapping operations (keys renamed) instead of the preempted sites, because every schedule into the same lock window preempts at a different mix of rwlock points");
    rep.assume("a concurrent stats() must return without failing; its hit/miss figures are not judged; it can only be preempted inside AtomicCacheMetrics::fast_snapshot if the repository carries the scheduling point metrics.snapshot.hit (without it the stats bodies explore the coarser interleavings only)");
    let bound = tier.pick(2, 3);
    let budget = Duration::from_secs(std::env::var("VERIF_C11_BUDGET_S").ok().and_then(|s| s.parse().ok()).unwrap_or(tier.pick(150, 1500)));
    let start = std::time::Instant::now();
    let mut bs = bodies(tier);
    // debugging aid: only the bodies whose name contains the given text (the evidence says so)
    let only = std::env::var("VERIF_C11_ONLY").ok();
    if let Some(f) = &only {
        bs.retain(|b| b.name().contains(f.as_str()));
        rep.cap_hit(&format!("VERIF_C11_ONLY override in effect: {f}"));
    }
    let mut total_exec = 0u64;
    let mut total_points = 0u64;
    let mut nontrivial = 0u64;
    let mut per_body = Vec::new();
    for (bi, b) in bs.iter().enumerate() {
        let left = budget.checked_sub(start.elapsed());
        let Some(left) = left else {
            rep.cap_hit(&format!("wall-clock budget hit before body {bi} of {}; earlier bodies fully explored", bs.len()));
            break;
        };
        let class = b.class();
        let st = if b.reopen {
            explore(b, bound, Some(left), &rep, &sig_by_overlap(class))
        } else if b.tasks.iter().flatten().any(|o| matches!(o, COp::Stats)) {
            explore(b, bound, Some(left), &rep, &sig_stats(class))
        } else {
            explore(b, bound, Some(left), &rep, &sig_for(class))
        };
        total_exec += st.executions;
        total_points += st.executions * st.max_points as u64;
        nontrivial += st.by_preemptions.iter().skip(1).sum::<u64>();
        if per_body.len() < 400 {
            per_body.push(serde_json::json!({"body": b.name(), "executions": st.executions, "by_preemptions": st.by_preemptions, "max_points": st.max_points, "violating": st.violations}));
        }
        if bi % 40 == 0 {
            rep.sample(serde_json::json!({"body": b.name(), "executions": st.executions, "by_preemptions": st.by_preemptions}));
        }
    }
    let mut dbs = dyn_bodies(tier);
    if only.is_some() {
        dbs.clear();
    }
    for (bi, b) in dbs.iter().enumerate() {
        let Some(left) = budget.checked_sub(start.elapsed()) else {
            rep.cap_hit(&format!("wall-clock budget hit before DynamicContainer body {bi} of {}", dbs.len()));
            break;
        };
        // three DynamicContainer tasks pass ≈ 40 scheduling points (every lock of the container and
        // of the archive manager is one): they are explored with at most 2 preemptions
        let b_bound = if b.n_tasks() >= 3 { bound.min(2) } else { bound };
        let st = explore(b, b_bound, Some(left), &rep, &sig_for("dyn"));
        total_exec += st.executions;
        total_points += st.executions * st.max_points as u64;
        nontrivial += st.by_preemptions.iter().skip(1).sum::<u64>();
        if per_body.len() < 500 {
            per_body.push(serde_json::json!({"body": b.name(), "executions": st.executions, "by_preemptions": st.by_preemptions, "max_points": st.max_points, "violating": st.violations}));
        }
        if bi % 20 == 0 {
            rep.sample(serde_json::json!({"body": b.name(), "executions": st.executions, "by_preemptions": st.by_preemptions}));
        }
    }
    rep.add_transitions(total_points);
    rep.add_nontrivial_count(nontrivial);
    rep.extra("bounds", serde_json::json!({"preemption_bound": bound, "preemption_bound_for_three_task_DynamicContainer_bodies": bound.min(2), "bodies": bs.len() + dbs.len(), "tasks_per_body": "2-3", "ops_per_task": "1-2"}));
    rep.extra("per_body", serde_json::Value::Array(per_body));
    if total_exec > 0 && rep.outcomes() < 5 {
        rep.machinery_error("vacuous exploration: fewer than 5 distinct outcomes");
    }
    rep.finish()
}

pub fn replay(w: &serde_json::Value) -> i32 {
    // the witness names the body and the schedule; bodies are regenerated and matched by name
    let name = w["witness"]["body"].as_str().unwrap_or("");
    let sched: Vec<usize> = w["witness"]["schedule"].as_array().map(|a| a.iter().filter_map(|x| x.as_u64().map(|v| v as usize)).collect()).unwrap_or_default();
    for tier in [Tier::Quick, Tier::Thorough] {
        for b in bodies(tier) {
            if b.name() == name {
                let mut r = crate::sched::Runner::new(b.n_tasks());
                let x = r.run(&b, &sched, &[]);
                println!("body: {name}\nschedule: {sched:?}\nsite trace: {}", x.site_trace());
                for o in &x.ops {
                    println!("  t{} {} [{}..{}] -> {}", o.task, o.op, o.call, o.ret, o.result);
                }
                return match x.verdict {
                    Ok(o) => {
                        println!("no violation: {o}");
                        0
                    }
                    Err((k, d)) => {
                        println!("violates: {k}: {d}");
                        1
                    }
                };
            }
        }
    }
    for tier in [Tier::Quick, Tier::Thorough] {
        for b in dyn_bodies(tier) {
            if b.name() == name {
                let mut r = crate::sched::Runner::new(b.n_tasks());
                let x = r.run(&b, &sched, &[]);
                println!("body: {name}\nschedule: {sched:?}\nsite trace: {}", x.site_trace());
                for o in &x.ops {
                    println!("  t{} {} [{}..{}] -> {}", o.task, o.op, o.call, o.ret, o.result);
                }
                return match x.verdict {
                    Ok(o) => {
                        println!("no violation: {o}");
                        0
                    }
                    Err((k, d)) => {
                        println!("violates: {k}: {d}");
                        1
                    }
                };
            }
        }
    }
    println!("MACHINERY-ERROR: body not found: {name}");
    2
}
