//! C02 — parsers fail closed on arbitrary bytes; C08 — parse∘build reaches a fixed point.
//!
//! ENUM engine with isolated workers: for every target (parser/decoder) and every seed
//! (repository fixture or builder-made artifact) the complete set of mutants at one
//! deviation (byte substitutions, truncations/extensions, 2/3/4/5/8-byte field windows set to
//! boundary values in both endiannesses) — and at two deviations inside headers/footers in
//! the thorough tier, plus the seed moved by a few bytes inside its own length (class `shift`) —
//! is generated and parsed inside a worker process with a counting allocator. Parsers whose
//! result is only a description for a consumer are run as parse + use (an ESpec is handed to
//! the block-range functions of the patch archive module). Oracle C02: returns within the
//! time limit, no panic, no abort, no single allocation request beyond the documented cap /
//! out of proportion to the input.
//!
//! C08 (mode "c08") has three parts, all evaluated in the same isolated workers:
//!  (i)   accepted mutants: `y = build(parse(x))` succeeds, `parse(y)` succeeds,
//!        `build(parse(y)) = y` byte for byte and `logical(parse(x)) = logical(parse(y))`;
//!  (ii)  builder values: for every value `v` a format's builder produces over a small alphabet
//!        of its own calls, `logical(parse(build(v))) = logical(v)` (and, where the builder only
//!        returns bytes, = the model of what was put in);
//!  (iii) every repository fixture, unmodified: `build(parse(x)) = x` byte for byte.
//!
//! `logical` is a per-format projection (module `proj`) onto what the property statement names:
//! entries, keys, sizes, flags, tags, paths, spec strings, config key → values. It leaves out
//! what a builder recomputes (counts, table sizes and offsets, page/block checksums), reserved
//! and padding bytes, and never depends on `HashMap` iteration order. Where a format is a map
//! the projection is order-insensitive, where order is content (ESpec table indices, tag and
//! entry indices of the bit masks, patch lists) it is order-sensitive. When in doubt whether a
//! field is content the question asked is "would a reader of the manifest resolve different
//! data?" — if not, the field is left out (decision in the direction of not alarming).

use crate::enumx::{PoolConfig, WorkerCtx, run_pool};
use crate::report::{Level, Report, Tier};
use crate::util::{Scratch, block_on, norm_loc, norm_msg, take_last_panic_loc};
use cascette_formats::CascFormat;
use serde_json::{Value, json};
use std::io::Cursor;
use std::time::{Duration, Instant};

/// A C08 finding on one input: `kind` (clause of the statement), `disc` (what tells two root
/// causes of the same kind apart; part of the signature, therefore free of input bytes),
/// `detail` (for the reader).
#[derive(Debug, Clone)]
pub struct FixErr {
    pub kind: String,
    pub disc: String,
    pub detail: String,
}
pub type FixResult = Result<(), FixErr>;

fn fix_err(kind: &str, disc: impl Into<String>, detail: impl Into<String>) -> FixErr {
    FixErr { kind: kind.to_string(), disc: disc.into(), detail: detail.into() }
}

/// Logical projection: named sections in a fixed order (the first differing section is the
/// discriminating detail of a `logical-content-changed` signature).
pub type Proj = Vec<(&'static str, String)>;

pub struct Target {
    pub name: &'static str,
    /// parse/decode; true = accepted
    pub run: fn(&[u8]) -> bool,
    pub decompresses: bool,
    /// C08 fixed-point check on an accepted input
    pub fix: Option<fn(&[u8]) -> FixResult>,
    pub seeds: fn() -> Vec<(String, Vec<u8>)>,
    /// (alphabet tokens, max tokens quick, max tokens thorough, frames) for short-text enumeration
    pub text: Option<TextSpec>,
}

/// Short-text enumeration of a text target: the grammar tokens, the longest token string of the
/// quick and of the thorough tier, and the *frames* — (prefix, suffix) pairs cut out of real
/// inputs of the format at a parameter position. Every token string is evaluated on its own
/// and inside every frame, so that the enumeration also starts from the inside of a real
/// structure (a size field, a parameter list) instead of only from the empty string.
pub type TextSpec = (&'static [&'static str], usize, usize, &'static [(&'static str, &'static str)]);
const NO_FRAMES: &[(&str, &str)] = &[];

// ---------------------------------------------------------------- generic adapters

/// Error text with everything input-specific removed (digit runs, hex runs, quoted text), so
/// that it can be part of a signature.
fn norm_err(msg: &str) -> String {
    let mut out = String::new();
    let chars: Vec<char> = msg.chars().take(200).collect();
    let mut i = 0;
    while i < chars.len() {
        let c = chars[i];
        if c == '"' || c == '\'' || c == '`' {
            // quoted run
            if let Some(j) = chars[i + 1..].iter().position(|x| *x == c) {
                out.push_str("<q>");
                i += j + 2;
                continue;
            }
        }
        if c.is_ascii_hexdigit() {
            let mut j = i;
            while j < chars.len() && chars[j].is_ascii_hexdigit() {
                j += 1;
            }
            let run = j - i;
            let all_alpha = chars[i..j].iter().all(|x| x.is_ascii_alphabetic());
            let word_boundary = (i == 0 || !chars[i - 1].is_ascii_alphanumeric()) && (j == chars.len() || !chars[j].is_ascii_alphanumeric());
            if chars[i..j].iter().any(char::is_ascii_digit) || (run >= 6 && !all_alpha && word_boundary) {
                out.push('#');
                i = j;
                continue;
            }
        }
        out.push(c);
        i += 1;
    }
    let mut s: String = out.chars().take(90).collect();
    while s.contains("##") {
        s = s.replace("##", "#");
    }
    s
}

fn first_diff(l1: &Proj, l2: &Proj) -> Option<(String, String)> {
    if l1.len() != l2.len() {
        return Some(("sections".to_string(), format!("{} vs {} sections", l1.len(), l2.len())));
    }
    for ((n1, s1), (n2, s2)) in l1.iter().zip(l2.iter()) {
        if n1 != n2 {
            return Some(("sections".to_string(), format!("section {n1} vs {n2}")));
        }
        if s1 != s2 {
            let at = s1.bytes().zip(s2.bytes()).position(|(a, b)| a != b).unwrap_or(s1.len().min(s2.len()));
            let cut = |s: &str| -> String {
                let mut lo = at.saturating_sub(70);
                while !s.is_char_boundary(lo) {
                    lo -= 1;
                }
                let mut hi = (at + 70).min(s.len());
                while !s.is_char_boundary(hi) {
                    hi += 1;
                }
                s[lo..hi].to_string()
            };
            // the root format version is a four-valued enumeration: which version became which
            // tells root causes apart (V2 read back as V3 is the classic-header ambiguity)
            let disc = if *n1 == "version" { format!("version:{s1}->{s2}") } else { (*n1).to_string() };
            return Some((disc, format!("section `{n1}` differs near: `{}` vs `{}`", cut(s1), cut(s2))));
        }
    }
    None
}

/// Part (i) of C08 on one accepted input. `hints` handed to the projection are the two
/// serialisations (`x`, `y`): the text configs expose no key iterator, so the projection looks
/// the keys up that occur in either text.
fn casc_fix<T: CascFormat>(d: &[u8], logical: fn(&T, &[&[u8]]) -> Proj) -> FixResult {
    let Ok(v) = T::parse(d) else { return Ok(()) };
    let y = v.build().map_err(|e| fix_err("rebuild-fails", norm_err(&e.to_string()), format!("parse accepted the input but build() fails: {e}")))?;
    let v2 = T::parse(&y).map_err(|e| fix_err("reparse-fails", norm_err(&e.to_string()), format!("build(parse(x)) is rejected by parse: {e}")))?;
    let z = v2.build().map_err(|e| fix_err("second-build-fails", norm_err(&e.to_string()), format!("build(parse(build(parse(x)))) fails: {e}")))?;
    let hints: [&[u8]; 2] = [d, &y];
    let (l1, l2) = (logical(&v, &hints), logical(&v2, &hints));
    if let Some((section, detail)) = first_diff(&l1, &l2) {
        return Err(fix_err("logical-content-changed", section, format!("logical content of parse(x) and parse(build(parse(x))) differ: {detail}")));
    }
    if z != y {
        let at = z.iter().zip(y.iter()).position(|(a, b)| a != b).unwrap_or(z.len().min(y.len()));
        return Err(fix_err("not-a-fixed-point", if y.len() == z.len() { "same-length" } else { "length-changes" }, format!("second rebuild differs from the first at byte {at} (lengths {} vs {}) although the logical content is the same", y.len(), z.len())));
    }
    Ok(())
}

const FIXTURE_ROOT: &str = "/repo/crates/cascette-formats/test_fixtures";

fn fixtures(sub: &str, exts: &[&str]) -> Vec<(String, Vec<u8>)> {
    let dir = std::path::Path::new(FIXTURE_ROOT).join(sub);
    let mut out = Vec::new();
    if let Ok(rd) = std::fs::read_dir(&dir) {
        let mut paths: Vec<_> = rd.flatten().map(|e| e.path()).collect();
        paths.sort();
        for p in paths {
            let name = p.file_name().unwrap().to_string_lossy().to_string();
            if exts.iter().any(|e| name.ends_with(e)) {
                if let Ok(d) = std::fs::read(&p) {
                    out.push((format!("fixture:{sub}/{name}"), d));
                }
            }
        }
    }
    out
}

/// Builder-made small artifacts first (simplest first), then the fixtures.
fn with_small(mut v: Vec<(String, Vec<u8>)>, small: Vec<(String, Vec<u8>)>) -> Vec<(String, Vec<u8>)> {
    let mut out = small;
    out.append(&mut v);
    out
}

// ---------------------------------------------------------------- logical projections

pub mod proj {
    use super::Proj;
    use cascette_formats::archive::ArchiveIndex;
    use cascette_formats::blte::BlteFile;
    use cascette_formats::bpsv::BpsvDocument;
    use cascette_formats::config::{BuildConfig, CdnConfig, KeyringConfig, PatchConfig, ProductConfig};
    use cascette_formats::download::DownloadManifest;
    use cascette_formats::encoding::EncodingFile;
    use cascette_formats::espec::ESpec;
    use cascette_formats::install::{InstallManifest, InstallTag};
    use cascette_formats::patch_archive::PatchArchive;
    use cascette_formats::patch_index::PatchIndex;
    use cascette_formats::root::RootFile;
    use cascette_formats::size::SizeManifest;
    use cascette_formats::tvfs::{ContainerFileTable, TvfsFile, VfsTable};
    use cascette_formats::zbsdiff::ZbsDiff;
    use std::collections::BTreeSet;
    use std::fmt::Write as _;

    fn hx(b: &[u8]) -> String {
        hex::encode(b)
    }

    /// BLTE: the chunk table as written (format byte, per-chunk sizes and checksums — they are
    /// input to a reader's verification and are not recomputed by `build`), every chunk's mode
    /// and stored bytes, and what the file decodes to. Left out: `header_size` (derived).
    pub fn blte(v: &BlteFile, _h: &[&[u8]]) -> Proj {
        let mut table = String::new();
        match &v.header.extended {
            None => table.push_str("single-chunk"),
            Some(e) => {
                let _ = write!(table, "format={:#04x};", e.flags as u8);
                for ci in &e.chunk_infos {
                    let _ = write!(table, "[c={} d={} md5={} dmd5={}]", ci.compressed_size, ci.decompressed_size, hx(&ci.checksum), ci.decompressed_checksum.map(|c| hx(&c)).unwrap_or_default());
                }
            }
        }
        let mut chunks = String::new();
        for c in &v.chunks {
            let _ = write!(chunks, "[{}:{}]", c.mode.as_byte() as char, hx(&c.data));
        }
        let payload = match v.decompress() {
            Ok(p) => format!("ok:{}", hx(&p)),
            Err(e) => format!("err:{}", super::norm_err(&e.to_string())),
        };
        vec![("chunk-table", table), ("chunks", chunks), ("payload", payload)]
    }

    /// Encoding table: format parameters, the ESpec table in index order, per page its first
    /// key and its entries, the trailing ESpec. Left out: page counts and the ESpec block size
    /// (derived), page checksums (recomputed), page fill.
    pub fn encoding(v: &EncodingFile, _h: &[&[u8]]) -> Proj {
        let h = &v.header;
        let params = format!("version={} ckey_hash={} ekey_hash={} ckey_page_kb={} ekey_page_kb={}", h.version, h.ckey_hash_size, h.ekey_hash_size, h.ckey_page_size_kb, h.ekey_page_size_kb);
        let especs = format!("{:?}", v.espec_table.entries);
        let mut c = String::new();
        for (i, p) in v.ckey_pages.iter().enumerate() {
            let _ = write!(c, "page[first={}]:", v.ckey_index.get(i).map(|x| hx(&x.first_key)).unwrap_or_default());
            for e in &p.entries {
                let _ = write!(c, "({} size={} n={} ->", hx(e.content_key.as_bytes()), e.file_size, e.key_count);
                for k in &e.encoding_keys {
                    let _ = write!(c, " {}", hx(k.as_bytes()));
                }
                c.push(')');
            }
        }
        let mut e = String::new();
        for (i, p) in v.ekey_pages.iter().enumerate() {
            let _ = write!(e, "page[first={}]:", v.ekey_index.get(i).map(|x| hx(&x.first_key)).unwrap_or_default());
            for x in &p.entries {
                let _ = write!(e, "({} espec={} size={})", hx(x.encoding_key.as_bytes()), x.espec_index, x.file_size);
            }
        }
        vec![("params", params), ("espec-table", especs), ("ckey-pages", c), ("ekey-pages", e), ("trailing-espec", format!("{:?}", v.trailing_espec))]
    }

    /// CDN archive index / archive group: field widths, entries in order (key, size, offset —
    /// for 6-byte offsets the archive number and the offset), the table of contents (last key of
    /// every block: it is what a reader's block search uses). Left out: element count, TOC hash,
    /// block hashes, footer hash, reserved bytes.
    pub fn archive_index(v: &ArchiveIndex, _h: &[&[u8]]) -> Proj {
        let f = &v.footer;
        let params = format!("version={} page_kb={} offset_bytes={} size_bytes={} ekey_length={}", f.version, f.page_size_kb, f.offset_bytes, f.size_bytes, f.ekey_length);
        let mut e = String::new();
        for x in &v.entries {
            // a 6-byte offset is archive number (2) + offset (4); the builder may carry it as
            // one 48-bit number: same bytes, same content
            let combined = (u64::from(x.archive_index.unwrap_or(0)) << 32) | x.offset;
            let _ = write!(e, "({} size={} at={:#x})", hx(&x.encoding_key), x.size, combined);
        }
        let toc: Vec<String> = v.toc.iter().map(|k| hx(k)).collect();
        vec![("params", params), ("entries", e), ("toc", toc.join(","))]
    }

    /// Root manifest: the version and the multiset of records (FileDataID, name hash, content
    /// key, locale flags, content flags). A root manifest is a map; block order, record order
    /// inside a block and the split into blocks are not content (the builder regroups by flags).
    /// Left out: header counts, header size, padding.
    pub fn root(v: &RootFile, _h: &[&[u8]]) -> Proj {
        let mut recs: Vec<(u32, u64, u32, Option<u64>, [u8; 16])> = Vec::new();
        for b in &v.blocks {
            for r in &b.records {
                recs.push((b.header.locale_flags.value(), b.header.content_flags, r.file_data_id.get(), r.name_hash, *r.content_key.as_bytes()));
            }
        }
        recs.sort_unstable();
        let mut s = String::new();
        for (l, c, f, n, k) in &recs {
            let _ = write!(s, "(locale={l:#x} content={c:#x} fdid={f} name={} ckey={})", n.map(|x| format!("{x:#x}")).unwrap_or_else(|| "-".into()), hx(k));
        }
        vec![("version", format!("{:?}", v.version)), ("records", s)]
    }

    fn tags(tags: &[InstallTag], n_entries: usize) -> String {
        let mut s = String::new();
        for t in tags {
            let members: Vec<String> = (0..n_entries).filter(|i| t.has_file(*i)).map(|i| i.to_string()).collect();
            let _ = write!(s, "({:?} type={:#06x} files=[{}])", t.name, t.tag_type as u16, members.join(","));
        }
        s
    }

    /// Install manifest: version and key length, tags in order (name, type, the set of file
    /// indices — not the padding bits of the last mask byte), entries in order (path, content
    /// key, size, V2 file type). Left out: counts (including the V2 "additional entry count",
    /// whose meaning is not known: a count is what a builder may recompute), the V2 "unknown"
    /// byte.
    pub fn install(v: &InstallManifest, _h: &[&[u8]]) -> Proj {
        let h = &v.header;
        let params = format!("version={} ckey_length={} v2_content_key_size={:?}", h.version, h.ckey_length, h.content_key_size);
        let mut e = String::new();
        for x in &v.entries {
            let _ = write!(e, "({:?} {} size={} type={:?})", x.path, hx(x.content_key.as_bytes()), x.file_size, x.file_type);
        }
        vec![("params", params), ("tags", tags(&v.tags, v.entries.len())), ("entries", e)]
    }

    /// Download manifest: version, checksum/flag layout, base priority, entries in order
    /// (encoding key, 40-bit size, priority, checksum, flag bytes), tags. Left out: counts,
    /// reserved header bytes, mask padding bits.
    pub fn download(v: &DownloadManifest, _h: &[&[u8]]) -> Proj {
        let h = &v.header;
        let params = format!("version={} ekey_length={} has_checksum={} flag_size={} base_priority={}", h.version(), h.ekey_length(), h.has_checksum(), h.flag_size(), h.base_priority());
        let mut e = String::new();
        for x in &v.entries {
            let _ = write!(e, "({} size={} prio={} sum={:?} flags={:?})", hx(x.encoding_key.as_bytes()), x.file_size.as_u64(), x.priority, x.checksum, x.flags.as_ref().map(|f| hx(f)));
        }
        vec![("params", params), ("entries", e), ("tags", tags(&v.tags, v.entries.len()))]
    }

    /// Size manifest: version, key and size widths, tags, entries in order. Left out: counts
    /// and the total (sum of the entries, validated by the parser).
    pub fn size(v: &SizeManifest, _h: &[&[u8]]) -> Proj {
        let h = &v.header;
        let params = format!("version={} ekey_size={} esize_bytes={}", h.version(), h.ekey_size(), h.esize_bytes());
        let mut e = String::new();
        for x in &v.entries {
            let _ = write!(e, "({} esize={})", hx(&x.key), x.esize);
        }
        vec![("params", params), ("tags", tags(&v.tags, v.entries.len())), ("entries", e)]
    }

    /// TVFS: flags and key sizes, the encoding spec table, and what every path resolves to —
    /// path → spans (offset in file, length) → container entry (EKey, encoded size, CKey, spec
    /// index, patch reference), looked up the way the format addresses them (by byte offset) —
    /// plus the container table walked sequentially. Left out: table offsets and sizes, the
    /// byte offsets themselves (addresses), `max_depth`, bytes no path reaches.
    pub fn tvfs(v: &TvfsFile, _h: &[&[u8]]) -> Proj {
        let h = &v.header;
        let params = format!("flags={:#x} ekey_size={} pkey_size={}", h.flags, h.ekey_size, h.pkey_size);
        let est = format!("{:?}", v.est_table.as_ref().map(|e| e.specs.clone()).unwrap_or_default());
        let centry = |c: &cascette_formats::tvfs::ContainerEntry| format!("ekey={} esize={} ckey={} espec={:?} patch={:?}", hx(&c.ekey), c.encoded_size, c.content_key.as_ref().map(|k| hx(k)).unwrap_or_default(), c.est_index, c.patch_offset);
        let mut files: Vec<(String, String)> = Vec::new();
        for f in &v.path_table.files {
            let mut s = String::new();
            match VfsTable::read_entry_at(&v.vfs_table.data, f.vfs_offset as usize, h) {
                Err(_) => s.push_str("no-vfs-entry"),
                Ok(e) => {
                    for sp in &e.spans {
                        let _ = write!(s, "[off={} len={} ->", sp.file_offset, sp.span_length);
                        match ContainerFileTable::read_entry_at(&v.container_table.data, sp.cft_offset as usize, h) {
                            Ok(c) => {
                                let _ = write!(s, " {}]", centry(&c));
                            }
                            Err(_) => s.push_str(" no-container-entry]"),
                        }
                    }
                }
            }
            files.push((f.path.clone(), s));
        }
        files.sort_by(|a, b| a.0.cmp(&b.0)); // stable: equal paths keep table order
        let mut fs = String::new();
        for (p, s) in &files {
            let _ = write!(fs, "({p:?} {s})");
        }
        let mut cft = String::new();
        for c in &v.container_table.entries {
            let _ = write!(cft, "({})", centry(c));
        }
        vec![("params", params), ("espec-table", est), ("files", fs), ("container-entries", cft)]
    }

    /// Patch archive: version, key widths (a key truncated to n bytes and the same bytes padded
    /// to 16 are different keys for a reader that compares `key_size` bytes), block size,
    /// encoding info, file entries as a map by target key (order-insensitive; the patch list of
    /// an entry in order). Left out: block count/offsets/MD5s/last keys (derived), flag bit 0
    /// ("plain data", informational).
    pub fn patch_archive(v: &PatchArchive, _h: &[&[u8]]) -> Proj {
        let h = &v.header;
        let params = format!("version={} block_size_bits={}", h.version, h.block_size_bits);
        let keys = format!("file={} old={} patch={}", h.file_key_size, h.old_key_size, h.patch_key_size);
        let info = match &v.encoding_info {
            None => "-".to_string(),
            Some(i) => format!("ckey={} ekey={} decoded={} encoded={} espec={:?}", hx(&i.encoding_ckey), hx(&i.encoding_ekey), i.decoded_size, i.encoded_size, i.espec),
        };
        let mut es: Vec<String> = Vec::new();
        for e in v.all_file_entries() {
            let mut s = format!("({} size={}:", hx(&e.target_ckey), e.decoded_size);
            for p in &e.patches {
                let _ = write!(s, " [src={} srcsize={} patch={} psize={} idx={}]", hx(&p.source_ekey), p.source_decoded_size, hx(&p.patch_ekey), p.patch_size, p.patch_index);
            }
            s.push(')');
            es.push(s);
        }
        es.sort();
        vec![("params", params), ("key-sizes", keys), ("encoding-info", info), ("entries", es.concat())]
    }

    /// Patch index: key width and the entries in order. Left out: block layout, the constant
    /// configuration block, the secondary copy (block 8), header sizes.
    pub fn patch_index(v: &PatchIndex, _h: &[&[u8]]) -> Proj {
        let mut s = String::new();
        for e in &v.entries {
            let _ = write!(s, "(src={} {} dst={} {} enc={} suffix={} patch={})", hx(&e.source_ekey), e.source_size, hx(&e.target_ekey), e.target_size, e.encoded_size, e.suffix_offset, hx(&e.patch_ekey));
        }
        vec![("key-size", v.key_size.to_string()), ("entries", s)]
    }

    /// ZBSDIFF1: output size and the three blocks as stored. Left out: the two block lengths.
    pub fn zbsdiff(v: &ZbsDiff, _h: &[&[u8]]) -> Proj {
        vec![("output-size", v.header.output_size.to_string()), ("control", hx(&v.control_data)), ("diff", hx(&v.diff_data)), ("extra", hx(&v.extra_data))]
    }

    /// Key candidates of a `key = value` text: everything in front of a `=` on any line of any
    /// of the given texts (a superset of what the config parsers can have stored).
    fn cfg_keys(hints: &[&[u8]]) -> BTreeSet<String> {
        let mut out = BTreeSet::new();
        for h in hints {
            let text = String::from_utf8_lossy(h);
            for line in text.split('\n') {
                // the parsers split at the first " = " or strip a trailing " =": the first few
                // and the last `=` of a line cover both (all of them would be quadratic in a
                // line of 100 000 `=`)
                for (i, _) in line.match_indices('=').take(4).chain(line.rmatch_indices('=').take(1)) {
                    out.insert(line[..i].trim().to_string());
                }
            }
        }
        out
    }

    fn kv(hints: &[&[u8]], get: impl Fn(&str) -> Option<String>) -> String {
        let mut s = String::new();
        for k in cfg_keys(hints) {
            if let Some(v) = get(&k) {
                let _ = write!(s, "({k:?} = {v})");
            }
        }
        s
    }

    /// Build / CDN config: key → list of values (a map: order of keys is not content, order of
    /// the values of one key is). Comments and blank lines are not content.
    pub fn build_config(v: &BuildConfig, h: &[&[u8]]) -> Proj {
        vec![("entries", kv(h, |k| v.get(k).map(|x| format!("{x:?}"))))]
    }
    pub fn cdn_config(v: &CdnConfig, h: &[&[u8]]) -> Proj {
        vec![("entries", kv(h, |k| v.get(k).map(|x| format!("{x:?}"))))]
    }
    /// Patch config: properties as a map, patch entries in order.
    pub fn patch_config(v: &PatchConfig, h: &[&[u8]]) -> Proj {
        let mut e = String::new();
        for x in v.entries() {
            let _ = write!(e, "({:?} {:?} {} {:?} {})", x.entry_type, x.content_key, x.content_size, x.encoding_key, x.encoded_size);
        }
        vec![("properties", kv(h, |k| v.get_property(k).map(|x| format!("{x:?}")))), ("patch-entries", e)]
    }
    /// Keyring: (key id, key value) in order.
    pub fn keyring_config(v: &KeyringConfig, _h: &[&[u8]]) -> Proj {
        let mut e = String::new();
        for x in v.entries() {
            let _ = write!(e, "({:?} = {:?})", x.key_id, x.key_value);
        }
        vec![("keys", e)]
    }

    fn canon_json(v: &serde_json::Value, out: &mut String) {
        match v {
            serde_json::Value::Object(m) => {
                let mut keys: Vec<&String> = m.keys().collect();
                keys.sort();
                out.push('{');
                for k in keys {
                    let _ = write!(out, "{k:?}:");
                    canon_json(&m[k], out);
                    out.push(',');
                }
                out.push('}');
            }
            serde_json::Value::Array(a) => {
                out.push('[');
                for x in a {
                    canon_json(x, out);
                    out.push(',');
                }
                out.push(']');
            }
            other => {
                let _ = write!(out, "{other}");
            }
        }
    }

    /// Product config: the typed document as canonical JSON (object keys sorted).
    pub fn product_config(v: &ProductConfig, _h: &[&[u8]]) -> Proj {
        let mut s = String::new();
        match serde_json::to_value(v) {
            Ok(j) => canon_json(&j, &mut s),
            Err(e) => s = format!("unserialisable: {e}"),
        }
        vec![("document", s)]
    }

    /// BPSV: schema (names and types in order), sequence number, rows (raw text and typed value
    /// of every cell, in order).
    pub fn bpsv(v: &BpsvDocument, _h: &[&[u8]]) -> Proj {
        let schema: Vec<String> = v.schema().fields().iter().map(|f| format!("{:?}!{:?}", f.name, f.field_type)).collect();
        let mut rows = String::new();
        for r in v.rows() {
            let _ = write!(rows, "({:?} => {:?})", r.raw_values(), r.values());
        }
        vec![("schema", schema.join("|")), ("seqn", format!("{:?}", v.sequence_number())), ("rows", rows)]
    }

    /// ESpec: the expression tree (plain values, no derived fields).
    pub fn espec(v: &ESpec, _h: &[&[u8]]) -> Proj {
        vec![("spec", format!("{v:?}"))]
    }
}

// ---------------------------------------------------------------- targets

mod t {
    use super::*;
    use cascette_formats::archive::{ArchiveGroup, ArchiveIndex};
    use cascette_formats::blte::BlteFile;
    use cascette_formats::bpsv::BpsvDocument;
    use cascette_formats::config::{BuildConfig, CdnConfig, KeyringConfig, PatchConfig, ProductConfig};
    use cascette_formats::download::DownloadManifest;
    use cascette_formats::encoding::EncodingFile;
    use cascette_formats::espec::ESpec;
    use cascette_formats::install::InstallManifest;
    use cascette_formats::patch_archive::PatchArchive;
    use cascette_formats::patch_index::PatchIndex;
    use cascette_formats::root::RootFile;
    use cascette_formats::size::SizeManifest;
    use cascette_formats::tvfs::TvfsFile;
    use cascette_formats::zbsdiff::ZbsDiff;

    fn small(fmt: &str) -> Vec<(String, Vec<u8>)> {
        crate::props::c02::small_seeds(fmt)
    }

    pub fn blte_run(d: &[u8]) -> bool {
        match BlteFile::parse(d) {
            Ok(f) => {
                let _ = f.decompress();
                let ks = cascette_crypto::TactKeyStore::new();
                let _ = f.decompress_with_keys(&ks);
                // with the key the encrypted seeds name: the decryption path behind the key lookup
                let mut ks = cascette_crypto::TactKeyStore::empty();
                ks.add(cascette_crypto::TactKey::new(BLTE_SEED_KEY_NAME, BLTE_SEED_KEY));
                let _ = f.decompress_with_keys(&ks);
                true
            }
            Err(_) => false,
        }
    }
    pub fn blte_fix(d: &[u8]) -> FixResult {
        casc_fix::<BlteFile>(d, proj::blte)
    }
    pub fn blte_seeds() -> Vec<(String, Vec<u8>)> {
        let mut v = Vec::new();
        let payload = b"hello hello hello hello world".to_vec();
        for (n, mode) in [("N", cascette_formats::blte::CompressionMode::None), ("Z", cascette_formats::blte::CompressionMode::ZLib), ("4", cascette_formats::blte::CompressionMode::LZ4)] {
            if let Ok(f) = BlteFile::compress(&payload, 8, mode) {
                if let Ok(b) = CascFormat::build(&f) {
                    v.push((format!("built:blte-multi-{n}"), b));
                }
            }
            if let Ok(f) = BlteFile::single_chunk(payload.clone(), mode) {
                if let Ok(b) = CascFormat::build(&f) {
                    v.push((format!("built:blte-single-{n}"), b));
                }
            }
        }
        // encrypted chunks (the builder writes 4-byte IVs; a substituted IV-size byte reaches the
        // 8-byte branch): tiny payloads put the end of the chunk right behind the E-header
        for (label, payload) in [("0B", &b""[..]), ("2B", &b"ab"[..]), ("29B", &b"hello hello hello hello world"[..])] {
            for (cn, spec) in [
                ("salsa20", cascette_formats::blte::EncryptionSpec::salsa20(BLTE_SEED_KEY_NAME, [0xFF, 0xFF, 0x01, 0x80])),
                ("arc4", cascette_formats::blte::EncryptionSpec::arc4(BLTE_SEED_KEY_NAME, [0xFF, 0xFF, 0x01, 0x80])),
            ] {
                let b = cascette_formats::blte::BlteBuilder::new().with_compression(cascette_formats::blte::CompressionMode::None).with_encryption(spec, BLTE_SEED_KEY);
                let Ok(b) = b.add_data(payload) else { continue };
                if let Ok(f) = b.build() {
                    if let Ok(bytes) = CascFormat::build(&f) {
                        v.push((format!("built:blte-encrypted-{cn}-{label}"), bytes));
                    }
                }
            }
        }
        v.extend(fixtures("tvfs", &[".blte"]).into_iter().take(1));
        v
    }
    const BLTE_SEED_KEY_NAME: u64 = 0x0123_4567_89AB_CDEF;
    const BLTE_SEED_KEY: [u8; 16] = [0x00, 0x11, 0x22, 0x33, 0x44, 0x55, 0x66, 0x77, 0x88, 0x99, 0xAA, 0xBB, 0xCC, 0xDD, 0xEE, 0xFF];

    pub fn encoding_run(d: &[u8]) -> bool {
        EncodingFile::parse(d).is_ok()
    }
    pub fn encoding_blte_run(d: &[u8]) -> bool {
        EncodingFile::parse_blte(d).is_ok()
    }
    pub fn encoding_fix(d: &[u8]) -> FixResult {
        casc_fix::<EncodingFile>(d, proj::encoding)
    }
    pub fn encoding_seeds() -> Vec<(String, Vec<u8>)> {
        with_small(fixtures("encoding", &[".bin"]), small("encoding"))
    }
    pub fn encoding_blte_seeds() -> Vec<(String, Vec<u8>)> {
        small("encoding_blte")
    }

    pub fn archive_index_run(d: &[u8]) -> bool {
        ArchiveIndex::parse(Cursor::new(d)).is_ok()
    }
    pub fn archive_index_fix(d: &[u8]) -> FixResult {
        casc_fix::<ArchiveIndex>(d, proj::archive_index)
    }
    pub fn archive_index_seeds() -> Vec<(String, Vec<u8>)> {
        with_small(fixtures("archive", &[".index"]), small("archive_index"))
    }
    pub fn archive_group_run(d: &[u8]) -> bool {
        ArchiveGroup::parse(&mut Cursor::new(d)).is_ok()
    }
    /// An archive group is an archive index with 6-byte offsets: what `ArchiveGroup::parse`
    /// accepts, `ArchiveIndex` (the `CascFormat` of both) must be able to write back.
    pub fn archive_group_fix(d: &[u8]) -> FixResult {
        if ArchiveGroup::parse(&mut Cursor::new(d)).is_err() {
            return Ok(());
        }
        casc_fix::<ArchiveIndex>(d, proj::archive_index)
    }
    pub fn archive_group_seeds() -> Vec<(String, Vec<u8>)> {
        small("archive_group")
    }

    pub fn root_run(d: &[u8]) -> bool {
        RootFile::parse(d).is_ok()
    }
    /// A rebuilt V2 manifest gets the 12-byte classic header `magic, total_files, named_files`.
    /// With 16..=99 files, fewer than 10 of them named, the parser takes these two counts for
    /// the `header_size, version` of an extended header (format-level ambiguity, known finding
    /// of C03). Whatever that does to the re-parse (it fails, or it reads the file as V3) is
    /// one root cause and gets one discriminator.
    pub fn root_fix(d: &[u8]) -> FixResult {
        let r = casc_fix::<RootFile>(d, proj::root);
        let Err(mut e) = r else { return r };
        if let Ok(v) = RootFile::parse(d) {
            if v.version == cascette_formats::root::RootVersion::V2 {
                if let Ok(y) = CascFormat::build(&v) {
                    if y.len() >= 12 && (&y[..4] == b"TSFM" || &y[..4] == b"MFST") {
                        let rd = |b: &[u8]| if &y[..4] == b"TSFM" { u32::from_le_bytes([b[0], b[1], b[2], b[3]]) } else { u32::from_be_bytes([b[0], b[1], b[2], b[3]]) };
                        let (total, named) = (rd(&y[4..8]), rd(&y[8..12]));
                        if (16..100).contains(&total) && named < 10 && named < total {
                            e.disc = "v2-classic-header-ambiguity".to_string();
                            e.detail = format!("{} [the rebuilt file has the classic V2 header with total_files={total}, named_files={named}, which the parser reads as an extended header]", e.detail);
                        }
                    }
                }
            }
        }
        Err(e)
    }
    pub fn root_seeds() -> Vec<(String, Vec<u8>)> {
        with_small(fixtures("root", &[".root"]), small("root"))
    }

    pub fn install_run(d: &[u8]) -> bool {
        InstallManifest::parse(d).is_ok()
    }
    pub fn install_fix(d: &[u8]) -> FixResult {
        casc_fix::<InstallManifest>(d, proj::install)
    }
    pub fn install_seeds() -> Vec<(String, Vec<u8>)> {
        with_small(fixtures("install", &[".install"]), small("install"))
    }

    pub fn download_run(d: &[u8]) -> bool {
        DownloadManifest::parse(d).is_ok()
    }
    pub fn download_fix(d: &[u8]) -> FixResult {
        casc_fix::<DownloadManifest>(d, proj::download)
    }
    pub fn download_seeds() -> Vec<(String, Vec<u8>)> {
        with_small(fixtures("download", &[".download"]), small("download"))
    }

    pub fn size_run(d: &[u8]) -> bool {
        SizeManifest::parse(d).is_ok()
    }
    pub fn size_fix(d: &[u8]) -> FixResult {
        casc_fix::<SizeManifest>(d, proj::size)
    }
    pub fn size_seeds() -> Vec<(String, Vec<u8>)> {
        small("size")
    }

    pub fn tvfs_run(d: &[u8]) -> bool {
        TvfsFile::parse(d).is_ok()
    }
    pub fn tvfs_blte_run(d: &[u8]) -> bool {
        TvfsFile::load_from_blte(d).is_ok()
    }
    pub fn tvfs_fix(d: &[u8]) -> FixResult {
        casc_fix::<TvfsFile>(d, proj::tvfs)
    }
    pub fn tvfs_seeds() -> Vec<(String, Vec<u8>)> {
        with_small(fixtures("tvfs", &[".bin"]), small("tvfs"))
    }
    pub fn tvfs_blte_seeds() -> Vec<(String, Vec<u8>)> {
        with_small(fixtures("tvfs", &[".blte"]), small("tvfs_blte"))
    }

    /// What the consumers of an ESpec do with an accepted one (the spec string of a patch
    /// manifest and of an encoding table is CDN data): find the codec of an offset and cut a
    /// payload into the chunks the spec describes.
    pub fn use_espec(spec: &cascette_formats::espec::ESpec) {
        use cascette_formats::patch_archive::{decompress_patch_data, get_compression_at_offset};
        for off in [0u64, 5, u64::MAX] {
            let _ = get_compression_at_offset(spec, off);
        }
        let _ = decompress_patch_data(b"hello world", spec);
    }

    /// parse + use: the encoding info of the extended header carries an ESpec string
    pub fn patch_archive_run(d: &[u8]) -> bool {
        match <PatchArchive as CascFormat>::parse(d) {
            Ok(pa) => {
                if let Some(info) = &pa.encoding_info {
                    if let Ok(spec) = cascette_formats::patch_archive::parse_compression_spec(&info.espec) {
                        use_espec(&spec);
                    }
                }
                true
            }
            Err(_) => false,
        }
    }
    pub fn patch_archive_fix(d: &[u8]) -> FixResult {
        casc_fix::<PatchArchive>(d, proj::patch_archive)
    }
    pub fn patch_archive_seeds() -> Vec<(String, Vec<u8>)> {
        with_small(fixtures("patch_archive", &[".bin"]), small("patch_archive"))
    }

    pub fn patch_index_run(d: &[u8]) -> bool {
        <PatchIndex as CascFormat>::parse(d).is_ok()
    }
    /// The header of a patch index has a parse/build pair of its own (`PatchIndex::build`
    /// writes a fresh header and never calls it): what `PatchIndexHeader::parse` accepts,
    /// `PatchIndexHeader::build` must be able to write, the written header must be accepted
    /// again in front of the same blocks, say the same (key, extra data, block descriptors)
    /// and be written the same way a second time.
    pub fn patch_index_fix(d: &[u8]) -> FixResult {
        use cascette_formats::patch_index::PatchIndexHeader;
        casc_fix::<PatchIndex>(d, proj::patch_index)?;
        let Ok(h) = PatchIndexHeader::parse(d) else { return Ok(()) };
        let y = h.build();
        // the blocks follow the header; `header_size` is a field the header keeps as read
        let mut z = y.clone();
        z.extend_from_slice(&d[(h.header_size as usize).min(d.len())..]);
        // (room for the size check of parse: header_size + block sizes ≤ length)
        z.resize(z.len().max(d.len()), 0);
        let h2 = PatchIndexHeader::parse(&z).map_err(|e| fix_err("reparse-fails", format!("header:{}", norm_err(&e.to_string())), format!("PatchIndexHeader::build(parse(x)) is rejected by PatchIndexHeader::parse: {e}")))?;
        let show = |h: &PatchIndexHeader| format!("key_size={} key={} extra={} blocks={:?}", h.key_size, hex::encode(h.key_data), hex::encode(&h.extra_data), h.blocks.iter().map(|b| (b.block_type, b.block_size)).collect::<Vec<_>>());
        if show(&h) != show(&h2) {
            return Err(fix_err("logical-content-changed", "header", format!("patch index header before and after build/parse: `{}` vs `{}`", show(&h), show(&h2))));
        }
        if h2.build() != y {
            return Err(fix_err("not-a-fixed-point", "header", "the second PatchIndexHeader::build differs from the first".to_string()));
        }
        Ok(())
    }
    pub fn patch_index_seeds() -> Vec<(String, Vec<u8>)> {
        with_small(fixtures("patch_index", &[".bin"]), small("patch_index"))
    }

    pub fn zbsdiff_run(d: &[u8]) -> bool {
        let a = ZbsDiff::parse(d).is_ok();
        let old = [0x61u8; 64];
        let b = cascette_formats::zbsdiff::apply_patch_memory(&old, d).is_ok();
        let c = match ZbsDiff::parse(d) {
            Ok(p) => p.apply(&old).is_ok(),
            Err(_) => false,
        };
        a || b || c
    }
    pub fn zbsdiff_fix(d: &[u8]) -> FixResult {
        casc_fix::<ZbsDiff>(d, proj::zbsdiff)
    }
    pub fn zbsdiff_seeds() -> Vec<(String, Vec<u8>)> {
        with_small(fixtures("zbsdiff", &[".zbsdiff"]), small("zbsdiff"))
    }

    macro_rules! cfg_target {
        ($run:ident, $fix:ident, $ty:ty, $proj:path) => {
            pub fn $run(d: &[u8]) -> bool {
                <$ty as CascFormat>::parse(d).is_ok()
            }
            pub fn $fix(d: &[u8]) -> FixResult {
                casc_fix::<$ty>(d, $proj)
            }
        };
    }
    cfg_target!(build_config_run, build_config_fix, BuildConfig, proj::build_config);
    cfg_target!(cdn_config_run, cdn_config_fix, CdnConfig, proj::cdn_config);
    cfg_target!(patch_config_run, patch_config_fix, PatchConfig, proj::patch_config);
    cfg_target!(product_config_run, product_config_fix, ProductConfig, proj::product_config);
    cfg_target!(keyring_config_run, keyring_config_fix, KeyringConfig, proj::keyring_config);
    cfg_target!(bpsv_run, bpsv_fix, BpsvDocument, proj::bpsv);
    /// parse + use (`ESpec::parse` is the parser of the spec strings an encoding table and a
    /// patch manifest carry; `parse_compression_spec` is the patch manifest's entry point, which
    /// also takes the brace-only form)
    pub fn espec_run(d: &[u8]) -> bool {
        let r = <ESpec as CascFormat>::parse(d);
        if let Ok(spec) = &r {
            use_espec(spec);
        }
        if let Ok(text) = std::str::from_utf8(d) {
            if let Ok(spec) = cascette_formats::patch_archive::parse_compression_spec(text) {
                use_espec(&spec);
            }
        }
        r.is_ok()
    }
    pub fn espec_fix(d: &[u8]) -> FixResult {
        casc_fix::<ESpec>(d, proj::espec)
    }

    pub fn build_config_seeds() -> Vec<(String, Vec<u8>)> {
        let mut v = vec![
            ("text:build-config-min".to_string(), b"# Build Configuration\n\nroot = 0123456789abcdef0123456789abcdef\nencoding = 0123456789abcdef0123456789abcdef fedcba9876543210fedcba9876543210\nencoding-size = 100 200\nbuild-name = WOW-1\n".to_vec()),
        ];
        v.extend(fixtures("config", &["build_config.txt"]).into_iter().filter(|(_, d)| d.len() < 50_000).take(1));
        v
    }
    pub fn cdn_config_seeds() -> Vec<(String, Vec<u8>)> {
        vec![("text:cdn-config-min".to_string(), b"# CDN Configuration\n\narchives = 0123456789abcdef0123456789abcdef fedcba9876543210fedcba9876543210\narchives-index-size = 10 20\narchive-group = 0123456789abcdef0123456789abcdef\nfile-index = 0123456789abcdef0123456789abcdef\nfile-index-size = 5\n".to_vec())]
    }
    pub fn patch_config_seeds() -> Vec<(String, Vec<u8>)> {
        // the patch-entry lines have the 6 and 7 fields the parser accepts
        vec![("text:patch-config-min".to_string(), b"# Patch Configuration\npatch = 0123456789abcdef0123456789abcdef\npatch-size = 7\npatch-entry = encoding 0123456789abcdef0123456789abcdef 10 fedcba9876543210fedcba9876543210 20\npatch-entry = install fedcba9876543210fedcba9876543210 30 0123456789abcdef0123456789abcdef\n".to_vec())]
    }
    pub fn product_config_seeds() -> Vec<(String, Vec<u8>)> {
        vec![("text:product-config-min".to_string(), br#"{"all":{"config":{"product":"wow","supported_locales":["enUS"],"form":{"game_dir":{"dirname":"World of Warcraft"}}}},"platform":{"win":{"config":{"binaries":{"game":{"relative_path":"Wow.exe"}}}}}}"#.to_vec())]
    }
    pub fn keyring_config_seeds() -> Vec<(String, Vec<u8>)> {
        fixtures("config", &["keyring_config.txt"]).into_iter().filter(|(_, d)| d.len() < 4000).collect()
    }
    pub fn bpsv_seeds() -> Vec<(String, Vec<u8>)> {
        vec![
            ("text:bpsv-versions".to_string(), b"Region!STRING:0|BuildConfig!HEX:16|BuildId!DEC:4|VersionsName!String:0\n## seqn = 12345\nus|0123456789abcdef0123456789abcdef|42|1.0.0.42\neu|fedcba9876543210fedcba9876543210|43|1.0.0.43\n".to_vec()),
        ]
    }
    pub fn espec_seeds() -> Vec<(String, Vec<u8>)> {
        vec![
            ("text:espec-n".to_string(), b"n".to_vec()),
            ("text:espec-z".to_string(), b"z:{9,mpq}".to_vec()),
            ("text:espec-b".to_string(), b"b:{164=z,16K*565=z,1656=n,*=z:{6,mpq}}".to_vec()),
            ("text:espec-e".to_string(), b"e:{0123456789abcdef,01234567,z}".to_vec()),
        ]
    }

    pub fn mime_run(d: &[u8]) -> bool {
        let a = cascette_protocol::mime_parser::parse_v1_mime_response(d).is_ok();
        let b = cascette_protocol::mime_parser::parse_v1_mime_to_bpsv(d).is_ok();
        a || b
    }
    pub fn mime_seeds() -> Vec<(String, Vec<u8>)> {
        let body = "Region!STRING:0|BuildId!DEC:4\n## seqn = 1\nus|42\n";
        let mut v = Vec::new();
        let plain = format!("MIME-Version: 1.0\r\nContent-Type: multipart/alternative; boundary=\"b1\"\r\n\r\n--b1\r\nContent-Type: text/plain\r\nContent-Disposition: version\r\n\r\n{body}\r\n--b1--\r\n");
        // checksum epilogue as the Ribbit V1 format appends it
        let sum = {
            use std::fmt::Write;
            let d = crate::sha256_hex(plain.as_bytes());
            let mut s = String::new();
            let _ = write!(s, "{plain}Checksum: {d}\r\n");
            s
        };
        v.push(("text:mime-with-checksum".to_string(), sum.into_bytes()));
        v.push(("text:mime-plain".to_string(), plain.into_bytes()));
        v
    }

    // ---- local storage formats
    pub fn local_idx_run(d: &[u8]) -> bool {
        let sc = Scratch::new("c02idx");
        let p = sc.path.join("0000000001.idx");
        if std::fs::write(&p, d).is_err() {
            return false;
        }
        let mut m = cascette_client_storage::index::IndexManager::new(&sc.path);
        let ok = m.load_index(0, &p).is_ok();
        if ok {
            let _ = m.entry_count();
            let _ = m.iter_entries().count();
            // parse + use: the loader keeps the header it read for the next save
            let _ = m.save_all();
        }
        ok
    }
    pub fn local_idx_seeds() -> Vec<(String, Vec<u8>)> {
        let mut out = Vec::new();
        for (name, flush) in [("idx-pending", false), ("idx-flushed", true)] {
            let sc = Scratch::new("c02seed");
            let mut m = cascette_client_storage::index::IndexManager::new(&sc.path);
            for i in 0..3u8 {
                let mut k = [0u8; 16];
                k[0] = 0x10 * (i + 1);
                k[8] = 0x01 * (i + 1);
                k[9] = i;
                let _ = m.add_entry(&cascette_crypto::EncodingKey::from_bytes(k), u16::from(i), 100 + u32::from(i), 50);
            }
            if flush {
                let _ = m.flush_all_updates();
            }
            let _ = m.save_all();
            if let Ok(rd) = std::fs::read_dir(&sc.path) {
                let mut ps: Vec<_> = rd.flatten().map(|e| e.path()).collect();
                ps.sort();
                if let Some(p) = ps.first() {
                    if let Ok(d) = std::fs::read(p) {
                        out.push((format!("built:{name}"), d));
                    }
                }
            }
        }
        out
    }
    pub fn update_section_run(d: &[u8]) -> bool {
        let s = cascette_client_storage::index::update::UpdateSection::from_bytes(d);
        let _ = s.entry_count();
        let _ = s.to_bytes();
        cascette_client_storage::index::update::UpdatePage::from_bytes(d).is_some()
    }
    pub fn update_section_seeds() -> Vec<(String, Vec<u8>)> {
        let mut s = cascette_client_storage::index::update::UpdateSection::new();
        for i in 0..3u8 {
            let loc = cascette_client_storage::index::ArchiveLocation { archive_id: 1, archive_offset: 100 };
            let _ = s.append(cascette_client_storage::index::update::UpdateEntry::new([i + 1; 9], loc, 10, cascette_client_storage::index::UpdateStatus::Normal));
        }
        let b = s.to_bytes();
        vec![("built:update-section-first-page".to_string(), b[..b.len().min(1024)].to_vec())]
    }
    pub fn residency_run(d: &[u8]) -> bool {
        let sc = Scratch::new("c02res");
        let p = sc.path.join("residency.db");
        if std::fs::write(&p, d).is_err() {
            return false;
        }
        match cascette_client_storage::kmt::key_state::ResidencyDb::load(&p) {
            Ok(db) => {
                let _ = db.entry_count();
                let _ = db.scan_keys();
                true
            }
            Err(_) => false,
        }
    }
    pub fn residency_seeds() -> Vec<(String, Vec<u8>)> {
        let sc = Scratch::new("c02seed");
        let p = sc.path.join("residency.db");
        let mut db = cascette_client_storage::kmt::key_state::ResidencyDb::new(p.clone());
        db.mark_resident(&[1u8; 16]);
        db.mark_non_resident(&[2u8; 16]);
        let _ = db.save();
        let mut v: Vec<(String, Vec<u8>)> = std::fs::read(&p).map(|d| vec![("built:residency-2".to_string(), d)]).unwrap_or_default();
        // 26 keys of one bucket (the bucket is a fold of the XOR of the key bytes): a page with all
        // 25 slots occupied, followed by a page with one
        let p2 = sc.path.join("residency-full-page.db");
        let mut db = cascette_client_storage::kmt::key_state::ResidencyDb::new(p2.clone());
        for i in 1..=26u8 {
            let mut k = [0u8; 16];
            k[0] = i;
            k[1] = i;
            db.mark_resident(&k);
        }
        let _ = db.save();
        if let Ok(d) = std::fs::read(&p2) {
            v.push(("built:residency-full-page".to_string(), d));
        }
        v
    }
    pub fn lru_run(d: &[u8]) -> bool {
        use cascette_client_storage::lru::{LruManager, lru_file};
        let parsed = lru_file::deserialize(d).is_some();
        // the MD5 is not a secret: fix it up so that the loader sees the mutated body
        let mut fixed = d.to_vec();
        if fixed.len() >= lru_file::LRU_HEADER_SIZE {
            fixed[4..20].fill(0);
            let h = crate::refmd5(&fixed);
            fixed[4..20].copy_from_slice(&h);
        }
        let sc = Scratch::new("c02lru");
        let p = lru_file::lru_file_path(&sc.path, 1);
        if std::fs::write(&p, &fixed).is_err() {
            return parsed;
        }
        let mut m = LruManager::new(3, sc.path.clone());
        let loaded = block_on(m.load_from_disk(1)).is_ok();
        if loaded {
            let mut n = 0usize;
            m.for_each_entry(|_| n += 1);
            let _ = m.len();
            let _ = m.touch(&[9u8; 9]);
            let _ = m.evict_tail();
        }
        parsed || loaded
    }
    pub fn lru_seeds() -> Vec<(String, Vec<u8>)> {
        use cascette_client_storage::lru::LruManager;
        let sc = Scratch::new("c02seed");
        let mut m = LruManager::new(3, sc.path.clone());
        m.touch(&[1u8; 9]);
        m.touch(&[2u8; 9]);
        let _ = block_on(m.checkpoint_to_disk());
        let p = cascette_client_storage::lru::lru_file::lru_file_path(&sc.path, 1);
        std::fs::read(&p).map(|d| vec![("built:lru-cap3".to_string(), d)]).unwrap_or_default()
    }
    pub fn shmem_run(d: &[u8]) -> bool {
        use cascette_client_storage::shmem::control_block::{PidTracking, ShmemControlBlock};
        // parse + use: the counters of the table come from the mapped region
        {
            let mut t = PidTracking::from_mapped(d);
            let _ = t.add_process(1234, 0);
            let _ = t.add_process(1235, 2);
            let _ = t.remove_process(1234);
        }
        ShmemControlBlock::from_mapped(d).is_some()
    }
    pub fn shmem_seeds() -> Vec<(String, Vec<u8>)> {
        let mut v = vec![0u8; 0x400];
        v[0] = 5;
        v[0x150..0x154].copy_from_slice(&4u32.to_le_bytes());
        vec![("raw:shmem-zeroed-v5".to_string(), v)]
    }
    pub fn build_info_run(d: &[u8]) -> bool {
        match std::str::from_utf8(d) {
            Ok(s) => cascette_client_storage::BuildInfoFile::parse_str(s).is_ok(),
            Err(_) => false,
        }
    }
    pub fn build_info_seeds() -> Vec<(String, Vec<u8>)> {
        vec![("text:build-info".to_string(), b"Branch!STRING:0|Active!DEC:1|Build Key!HEX:16|CDN Key!HEX:16|Version!STRING:0|Product!STRING:0\nus|1|0123456789abcdef0123456789abcdef|fedcba9876543210fedcba9876543210|1.15.7.60000|wow_classic_era\n".to_vec())]
    }
    pub fn local_header_run(d: &[u8]) -> bool {
        let a = cascette_client_storage::storage::LocalHeader::from_bytes(d).is_some();
        let b = cascette_client_storage::storage::segment::SegmentHeader::from_bytes(d).is_some();
        a || b
    }
    pub fn local_header_seeds() -> Vec<(String, Vec<u8>)> {
        vec![("raw:local-header-30".to_string(), (0u8..30).collect()), ("raw:segment-header-480".to_string(), vec![7u8; 480])]
    }
}

pub fn targets() -> Vec<Target> {
    // 18014398509481984 = 2^54: with a K/M unit the size no longer fits 64 bits
    // 18446744073709551615 = 2^64 - 1, the largest number the grammar's sizes can say; `mpq` is the
    // grammar's keyword (a zlib variant)
    const ESPEC_TOK: &[&str] = &["b", "z", "n", "e", "c", "g", ":", "{", "}", "=", "*", ",", "0", "1", "9", "K", "M", "18014398509481984", "18446744073709551615", "mpq"];
    // parameter positions of the ESpec seeds: the zlib parameter list, the size specification
    // and the content specification of a block, the content specification of an encrypted block
    const ESPEC_FRAMES: &[(&str, &str)] = &[("z:{", "}"), ("b:{", "=n,*=z}"), ("b:{164=", ",*=n}"), ("e:{0123456789abcdef,01234567,", "}")];
    const BPSV_TOK: &[&str] = &["#", "!", "|", ":", "\n", "\r", "S", "D", "H", "0", "1", "a"];
    const CFG_TOK: &[&str] = &["=", "#", "\n", " ", "a", "0"];
    vec![
        Target { name: "blte", run: t::blte_run, decompresses: true, fix: Some(t::blte_fix), seeds: t::blte_seeds, text: None },
        Target { name: "encoding", run: t::encoding_run, decompresses: false, fix: Some(t::encoding_fix), seeds: t::encoding_seeds, text: None },
        Target { name: "encoding-blte", run: t::encoding_blte_run, decompresses: true, fix: None, seeds: t::encoding_blte_seeds, text: None },
        Target { name: "archive-index", run: t::archive_index_run, decompresses: false, fix: Some(t::archive_index_fix), seeds: t::archive_index_seeds, text: None },
        Target { name: "archive-group", run: t::archive_group_run, decompresses: false, fix: Some(t::archive_group_fix), seeds: t::archive_group_seeds, text: None },
        Target { name: "root", run: t::root_run, decompresses: false, fix: Some(t::root_fix), seeds: t::root_seeds, text: None },
        Target { name: "install", run: t::install_run, decompresses: false, fix: Some(t::install_fix), seeds: t::install_seeds, text: None },
        Target { name: "download", run: t::download_run, decompresses: false, fix: Some(t::download_fix), seeds: t::download_seeds, text: None },
        Target { name: "size", run: t::size_run, decompresses: false, fix: Some(t::size_fix), seeds: t::size_seeds, text: None },
        Target { name: "tvfs", run: t::tvfs_run, decompresses: false, fix: Some(t::tvfs_fix), seeds: t::tvfs_seeds, text: None },
        Target { name: "tvfs-blte", run: t::tvfs_blte_run, decompresses: true, fix: None, seeds: t::tvfs_blte_seeds, text: None },
        Target { name: "patch-archive", run: t::patch_archive_run, decompresses: true, fix: Some(t::patch_archive_fix), seeds: t::patch_archive_seeds, text: None },
        Target { name: "patch-index", run: t::patch_index_run, decompresses: false, fix: Some(t::patch_index_fix), seeds: t::patch_index_seeds, text: None },
        Target { name: "zbsdiff", run: t::zbsdiff_run, decompresses: true, fix: Some(t::zbsdiff_fix), seeds: t::zbsdiff_seeds, text: None },
        Target { name: "build-config", run: t::build_config_run, decompresses: false, fix: Some(t::build_config_fix), seeds: t::build_config_seeds, text: Some((CFG_TOK, 5, 6, NO_FRAMES)) },
        Target { name: "cdn-config", run: t::cdn_config_run, decompresses: false, fix: Some(t::cdn_config_fix), seeds: t::cdn_config_seeds, text: Some((CFG_TOK, 5, 6, NO_FRAMES)) },
        Target { name: "patch-config", run: t::patch_config_run, decompresses: false, fix: Some(t::patch_config_fix), seeds: t::patch_config_seeds, text: Some((CFG_TOK, 5, 6, NO_FRAMES)) },
        Target { name: "product-config", run: t::product_config_run, decompresses: false, fix: Some(t::product_config_fix), seeds: t::product_config_seeds, text: None },
        Target { name: "keyring-config", run: t::keyring_config_run, decompresses: false, fix: Some(t::keyring_config_fix), seeds: t::keyring_config_seeds, text: Some((CFG_TOK, 5, 6, NO_FRAMES)) },
        Target { name: "bpsv", run: t::bpsv_run, decompresses: false, fix: Some(t::bpsv_fix), seeds: t::bpsv_seeds, text: Some((BPSV_TOK, 4, 6, NO_FRAMES)) },
        Target { name: "espec", run: t::espec_run, decompresses: false, fix: Some(t::espec_fix), seeds: t::espec_seeds, text: Some((ESPEC_TOK, 4, 5, ESPEC_FRAMES)) },
        Target { name: "v1-mime", run: t::mime_run, decompresses: false, fix: None, seeds: t::mime_seeds, text: None },
        Target { name: "local-idx", run: t::local_idx_run, decompresses: false, fix: None, seeds: t::local_idx_seeds, text: None },
        Target { name: "update-section", run: t::update_section_run, decompresses: false, fix: None, seeds: t::update_section_seeds, text: None },
        Target { name: "residency-db", run: t::residency_run, decompresses: false, fix: None, seeds: t::residency_seeds, text: None },
        Target { name: "lru-file", run: t::lru_run, decompresses: false, fix: None, seeds: t::lru_seeds, text: None },
        Target { name: "shmem-control-block", run: t::shmem_run, decompresses: false, fix: None, seeds: t::shmem_seeds, text: None },
        Target { name: "build-info", run: t::build_info_run, decompresses: false, fix: None, seeds: t::build_info_seeds, text: Some((BPSV_TOK, 4, 5, NO_FRAMES)) },
        Target { name: "local-header", run: t::local_header_run, decompresses: false, fix: None, seeds: t::local_header_seeds, text: None },
    ]
}

/// Builder-made small artifacts per format (`seeds.rs`).
pub fn small_seeds(fmt: &str) -> Vec<(String, Vec<u8>)> {
    crate::props::seeds::small(fmt)
}
// ---------------------------------------------------------------- mutant classes

const BOUNDARY: [u8; 6] = [0x00, 0x01, 0x7F, 0x80, 0xFE, 0xFF];

#[derive(Clone, Copy, Debug, PartialEq)]
pub enum Class {
    Subst,
    Trunc,
    Ext,
    Window,
    Pair,
    /// the same field of two or three consecutive records set to the same boundary value
    Stride,
    Text,
    /// the whole seed moved by a few bytes inside its own length, alone and with one boundary
    /// substitution near either end
    Shift,
    /// C08 part (ii): builder values (the "seed" is the format, the case index the program)
    Builder,
    /// C08 part (iii): unmodified fixtures
    Fixture,
}

impl Class {
    fn name(self) -> &'static str {
        match self {
            Class::Subst => "subst",
            Class::Trunc => "trunc",
            Class::Ext => "ext",
            Class::Window => "window",
            Class::Pair => "pair",
            Class::Stride => "stride",
            Class::Text => "text",
            Class::Shift => "shift",
            Class::Builder => "builder",
            Class::Fixture => "fixture",
        }
    }
    fn from(s: &str) -> Class {
        match s {
            "subst" => Class::Subst,
            "trunc" => Class::Trunc,
            "ext" => Class::Ext,
            "window" => Class::Window,
            "pair" => Class::Pair,
            "stride" => Class::Stride,
            "shift" => Class::Shift,
            "builder" => Class::Builder,
            "fixture" => Class::Fixture,
            _ => Class::Text,
        }
    }
}

/// C08 costs two parses, two builds and two projections per accepted case (tens of milliseconds
/// on the 200 KB root fixture): above this size its thorough tier substitutes at the quick tier's
/// positions and leaves the pair class out.
pub const C08_ALL_POSITIONS_MAX: usize = 32 * 1024;

fn subst_positions(n: usize, thorough: bool, c08: bool) -> Vec<usize> {
    if n <= FULL_SUBST_MAX || thorough && (!c08 || n <= C08_ALL_POSITIONS_MAX) {
        (0..n).collect()
    } else {
        let mut v: Vec<usize> = (0..512.min(n)).collect();
        v.extend((512..n.saturating_sub(512)).step_by(61));
        v.extend(n.saturating_sub(512)..n);
        v.sort_unstable();
        v.dedup();
        v
    }
}

/// Seeds up to this size get all 255 substitute values at every position (a minimal archive
/// index — one 4 KiB block, one TOC entry, the footer — is 4148 bytes).
pub const FULL_SUBST_MAX: usize = 4352;
/// Fixtures above this size get the boundary value set in the quick tier (the builder-made
/// seeds of the same format carry the exhaustive enumeration there).
pub const QUICK_FIXTURE_FULL_MAX: usize = 640;

/// Whether byte substitution is exhaustive over all 255 values for this seed.
pub fn full_subst(seed_name: &str, len: usize, thorough: bool) -> bool {
    len <= FULL_SUBST_MAX && (thorough || !seed_name.starts_with("fixture:") || len <= QUICK_FIXTURE_FULL_MAX)
}

/// Quick tier: inside long runs of zero fill (page and block padding, more than
/// `FILL_DISTANCE` bytes away from the nearest non-zero byte and from both ends of the seed) a
/// position gets the boundary value set instead of all 255 values. The thorough tier makes no
/// such difference.
pub const FILL_DISTANCE: usize = 48;

fn dense_map(seed: &[u8], full: bool, thorough: bool) -> Vec<bool> {
    let n = seed.len();
    if thorough || !full {
        return vec![true; n];
    }
    // distance to the nearest non-zero byte (or end of the seed), two sweeps
    let mut dist = vec![usize::MAX; n];
    let mut last: Option<usize> = None;
    for p in 0..n {
        if seed[p] != 0 || p == 0 || p + 1 == n {
            last = Some(p);
        }
        if let Some(q) = last {
            dist[p] = p - q;
        }
    }
    last = None;
    for p in (0..n).rev() {
        if seed[p] != 0 || p == 0 || p + 1 == n {
            last = Some(p);
        }
        if let Some(q) = last {
            dist[p] = dist[p].min(q - p);
        }
    }
    dist.iter().map(|d| *d <= FILL_DISTANCE).collect()
}

fn subst_values(full: bool, orig: u8) -> Vec<u8> {
    if full {
        (0..=255u8).filter(|v| *v != orig).collect()
    } else {
        let mut v: Vec<u8> = BOUNDARY.to_vec();
        v.extend([orig.wrapping_sub(1), orig.wrapping_add(1), orig ^ 0x80]);
        v.sort_unstable();
        v.dedup();
        v.retain(|x| *x != orig);
        v
    }
}

fn trunc_lengths(n: usize, thorough: bool) -> Vec<usize> {
    if n <= FULL_SUBST_MAX || thorough && n <= 65536 {
        (0..n).collect()
    } else {
        let mut v: Vec<usize> = (0..512.min(n)).collect();
        v.extend((512..n).step_by(64));
        v.extend(n.saturating_sub(512)..n);
        v.sort_unstable();
        v.dedup();
        v
    }
}

const WIDTHS: [usize; 5] = [2, 3, 4, 5, 8];

fn window_values(w: usize) -> Vec<Vec<u8>> {
    let bits = w * 8;
    let max: u128 = if bits >= 128 { u128::MAX } else { (1u128 << bits) - 1 };
    let vals: [u128; 6] = [0, 1, max >> 1, (max >> 1) + 1, max - 1, max];
    let mut out: Vec<Vec<u8>> = Vec::new();
    for v in vals {
        let le: Vec<u8> = (0..w).map(|i| (v >> (8 * i)) as u8).collect();
        let be: Vec<u8> = le.iter().rev().copied().collect();
        out.push(be.clone());
        if le != be {
            out.push(le);
        }
    }
    out.sort();
    out.dedup();
    out
}

fn window_offsets(n: usize, w: usize) -> Vec<usize> {
    if n < w {
        return vec![];
    }
    let last = n - w;
    let mut v: Vec<usize> = (0..=last.min(63)).collect();
    v.extend(last.saturating_sub(63)..=last);
    v.sort_unstable();
    v.dedup();
    v
}

/// All window mutations (offset, bytes) of a seed.
fn windows(n: usize) -> Vec<(usize, Vec<u8>)> {
    let mut out = Vec::new();
    for w in WIDTHS {
        let vals = window_values(w);
        for off in window_offsets(n, w) {
            for v in &vals {
                out.push((off, v.clone()));
            }
        }
    }
    out
}

/// Header/footer windows used for pairs (2 deviations): widths 1,2,4 at the first and last 32 bytes.
fn pair_windows(n: usize) -> Vec<(usize, Vec<u8>)> {
    let mut out = Vec::new();
    for w in [1usize, 2, 4] {
        if n < w {
            continue;
        }
        let last = n - w;
        let mut offs: Vec<usize> = (0..=last.min(31)).collect();
        offs.extend(last.saturating_sub(31)..=last);
        offs.sort_unstable();
        offs.dedup();
        let bits = w * 8;
        let max: u64 = if bits >= 64 { u64::MAX } else { (1u64 << bits) - 1 };
        for off in offs {
            for v in [0u64, max, (max >> 1) + 1] {
                let be: Vec<u8> = (0..w).rev().map(|i| (v >> (8 * i)) as u8).collect();
                out.push((off, be));
            }
        }
    }
    out
}

/// Positions of the multi-byte character substitution: every byte of a text seed up to 4 KiB, a
/// grid of about 1024 positions above.
fn mb_positions(n: usize) -> Vec<usize> {
    let step = if n <= 4096 { 1 } else { n / 1024 + 1 };
    (0..n).step_by(step).collect()
}

/// Stride cases (2–3 coordinated deviations): a window of width 2 or 4 at offset `o` < 64 and again
/// at `o + s` (and `o + 2s`) for record strides `s`, all set to the same boundary value, both byte
/// orders. Sums and products over a field of every record (total sizes, pre-allocations) only go
/// wrong when more than one record lies.
const STRIDES: [usize; 12] = [4, 6, 8, 9, 12, 16, 18, 20, 24, 25, 32, 40];

fn stride_cases(n: usize, thorough: bool) -> Vec<(Vec<usize>, Vec<u8>)> {
    let mut out = Vec::new();
    for w in [2usize, 4] {
        let bits = w * 8;
        let max: u64 = (1u64 << bits) - 1;
        let mut vals: Vec<Vec<u8>> = Vec::new();
        for v in [max, (max >> 1) + 1, (max >> 2) + 1] {
            let be: Vec<u8> = (0..w).rev().map(|i| (v >> (8 * i)) as u8).collect();
            let le: Vec<u8> = be.iter().rev().copied().collect();
            vals.push(be.clone());
            if le != be {
                vals.push(le);
            }
        }
        for s in STRIDES {
            if s < w {
                continue;
            }
            for o in 0..64usize {
                for r in [2usize, 3] {
                    // quick tier: pairs only
                    if r == 3 && !thorough {
                        continue;
                    }
                    let offs: Vec<usize> = (0..r).map(|i| o + i * s).collect();
                    if offs[r - 1] + w > n {
                        continue;
                    }
                    for v in &vals {
                        out.push((offs.clone(), v.clone()));
                    }
                }
            }
        }
    }
    out
}

/// Shift cases: the seed moved by k ∈ {1,2,4,8,16} bytes inside its own length — towards the end
/// (the last k bytes fall off, the front is filled) or towards the start (the first k bytes fall
/// off, the end is filled), fill 00 or FF — alone, and with one boundary-value substitution in the
/// first or last 32 bytes. A format that finds one of its structures from two anchors (a length
/// byte read at a fixed distance from the end *and* again inside the structure that byte
/// locates; a table addressed from the start and from the footer) agrees with itself on every
/// valid file; it is on files whose content sits a few bytes off that the two readings part.
const SHIFTS: [usize; 5] = [1, 2, 4, 8, 16];
/// Seeds above this size do not get the shift class.
pub const SHIFT_MAX: usize = 8192;

fn shift_bases(seed: &[u8]) -> Vec<Vec<u8>> {
    let n = seed.len();
    let mut out = Vec::new();
    for k in SHIFTS {
        if k >= n {
            continue;
        }
        for fill in [0x00u8, 0xFF] {
            let mut right = vec![fill; k];
            right.extend_from_slice(&seed[..n - k]);
            let mut left = seed[k..].to_vec();
            left.extend(std::iter::repeat_n(fill, k));
            for b in [right, left] {
                if b != seed && !out.contains(&b) {
                    out.push(b);
                }
            }
        }
    }
    out
}

fn shift_positions(n: usize) -> Vec<usize> {
    let mut v: Vec<usize> = (0..n.min(32)).collect();
    v.extend(n.saturating_sub(32)..n);
    v.sort_unstable();
    v.dedup();
    v
}

fn class_count(class: Class, seed: &[u8], full: bool, thorough: bool, c08: bool, text: Option<TextSpec>) -> u64 {
    let n = seed.len();
    match class {
        Class::Subst => {
            let dense = dense_map(seed, full, thorough);
            subst_positions(n, thorough, c08).iter().map(|p| subst_values(full && dense[*p], seed[*p]).len() as u64).sum()
        }
        Class::Trunc => trunc_lengths(n, thorough).len() as u64,
        Class::Ext => 6,
        // text targets: in addition every byte replaced by a 2-, 3- and 4-byte UTF-8 character
        Class::Window => windows(n).len() as u64 + if text.is_some() { 3 * mb_positions(n).len() as u64 } else { 0 },
        Class::Pair => {
            let k = pair_windows(n).len() as u64;
            k * k.saturating_sub(1) / 2
        }
        Class::Stride => stride_cases(n, thorough).len() as u64,
        Class::Shift => {
            let pos = shift_positions(n);
            shift_bases(seed).iter().map(|b| 1 + pos.iter().map(|p| BOUNDARY.iter().filter(|v| **v != b[*p]).count() as u64).sum::<u64>()).sum()
        }
        Class::Text => match text {
            Some((tok, lq, lt, frames)) => {
                let l = if thorough { lt } else { lq };
                let k = tok.len() as u64;
                let mut total = 0u64;
                let mut p = 1u64;
                for _ in 0..=l {
                    total += p;
                    p *= k;
                }
                // plus every string of ≤ 2 arbitrary bytes, plus the repetition cases, plus the
                // token strings once more inside every frame
                total + 1 + 256 + 65536 + repeat_count(k) + frames.len() as u64 * total
            }
            None => 0,
        },
        Class::Builder | Class::Fixture => 0,
    }
}

const REPEAT_SHORT: usize = 2_000;
const REPEAT_DEEP: usize = 100_000;

/// Number of repetition cases of the text class over `k` tokens: (k + k²) units × ((k + 1)
/// endings at REPEAT_SHORT + 1 at REPEAT_DEEP).
fn repeat_count(k: u64) -> u64 {
    (k + k * k) * (k + 2)
}

/// (unit index: < k single token, else pair; repetitions; ending token)
fn repeat_case(k: u64, c: u64) -> (u64, usize, Option<u64>) {
    let per = k + 2;
    let (u, v) = (c / per, c % per);
    if v == 0 {
        (u, REPEAT_DEEP, None)
    } else if v == 1 {
        (u, REPEAT_SHORT, None)
    } else {
        (u, REPEAT_SHORT, Some(v - 2))
    }
}

/// Enumerate the cases lo..hi of a class, calling `f(idx, bytes)`.
fn for_each_case(class: Class, seed: &[u8], full: bool, thorough: bool, c08: bool, text: Option<TextSpec>, lo: u64, hi: u64, mut f: impl FnMut(u64, &[u8])) {
    let n = seed.len();
    let mut buf = seed.to_vec();
    let mut idx = 0u64;
    match class {
        Class::Subst => {
            let dense = dense_map(seed, full, thorough);
            for p in subst_positions(n, thorough, c08) {
                let orig = seed[p];
                let vals = subst_values(full && dense[p], orig);
                if idx + vals.len() as u64 <= lo {
                    idx += vals.len() as u64;
                    continue;
                }
                for v in vals {
                    if idx >= hi {
                        return;
                    }
                    if idx >= lo {
                        buf[p] = v;
                        f(idx, &buf);
                    }
                    idx += 1;
                }
                buf[p] = orig;
            }
        }
        Class::Trunc => {
            for l in trunc_lengths(n, thorough) {
                if idx >= hi {
                    return;
                }
                if idx >= lo {
                    f(idx, &seed[..l]);
                }
                idx += 1;
            }
        }
        Class::Ext => {
            for (cnt, fill) in [(1usize, 0u8), (1, 0xFF), (16, 0), (16, 0xFF), (4096, 0), (4096, 0xFF)] {
                if idx >= hi {
                    return;
                }
                if idx >= lo {
                    let mut b = seed.to_vec();
                    b.extend(std::iter::repeat_n(fill, cnt));
                    f(idx, &b);
                }
                idx += 1;
            }
        }
        Class::Window => {
            for (off, val) in windows(n) {
                if idx >= hi {
                    return;
                }
                if idx >= lo {
                    let w = val.len();
                    buf[off..off + w].copy_from_slice(&val);
                    f(idx, &buf);
                    buf[off..off + w].copy_from_slice(&seed[off..off + w]);
                }
                idx += 1;
            }
            if text.is_some() {
                // a valid multi-byte character where the grammar expects ASCII: scanners that
                // advance byte-wise end up inside the character
                for p in mb_positions(n) {
                    for ch in ["\u{e9}", "\u{20ac}", "\u{1d11e}"] {
                        if idx >= hi {
                            return;
                        }
                        if idx >= lo {
                            let mut v = Vec::with_capacity(n + 3);
                            v.extend_from_slice(&seed[..p]);
                            v.extend_from_slice(ch.as_bytes());
                            v.extend_from_slice(&seed[p + 1..]);
                            f(idx, &v);
                        }
                        idx += 1;
                    }
                }
            }
        }
        Class::Stride => {
            for (offs, val) in stride_cases(n, thorough) {
                if idx >= hi {
                    return;
                }
                if idx >= lo {
                    let w = val.len();
                    for o in &offs {
                        buf[*o..*o + w].copy_from_slice(&val);
                    }
                    f(idx, &buf);
                    for o in &offs {
                        buf[*o..*o + w].copy_from_slice(&seed[*o..*o + w]);
                    }
                }
                idx += 1;
            }
        }
        Class::Pair => {
            let ws = pair_windows(n);
            for i in 0..ws.len() {
                let rest = (ws.len() - i - 1) as u64;
                if idx + rest <= lo {
                    idx += rest;
                    continue;
                }
                for j in i + 1..ws.len() {
                    if idx >= hi {
                        return;
                    }
                    if idx >= lo {
                        let (o1, v1) = &ws[i];
                        let (o2, v2) = &ws[j];
                        buf[*o1..o1 + v1.len()].copy_from_slice(v1);
                        buf[*o2..o2 + v2.len()].copy_from_slice(v2);
                        f(idx, &buf);
                        buf[*o1..o1 + v1.len()].copy_from_slice(&seed[*o1..o1 + v1.len()]);
                        buf[*o2..o2 + v2.len()].copy_from_slice(&seed[*o2..o2 + v2.len()]);
                    }
                    idx += 1;
                }
            }
        }
        Class::Text => {
            let Some((tok, lq, lt, frames)) = text else { return };
            let l = if thorough { lt } else { lq };
            let k = tok.len();
            // strings of 0..=l tokens in length-lexicographic order
            for len in 0..=l {
                let total = (k as u64).pow(len as u32);
                if idx + total <= lo {
                    idx += total;
                    continue;
                }
                for c in 0..total {
                    if idx >= hi {
                        return;
                    }
                    if idx >= lo {
                        let mut s = String::new();
                        let mut x = c;
                        for _ in 0..len {
                            s.push_str(tok[(x % k as u64) as usize]);
                            x /= k as u64;
                        }
                        f(idx, s.as_bytes());
                    }
                    idx += 1;
                }
            }
            // every string of ≤ 2 arbitrary bytes
            for len in 0..=2usize {
                let total = 256u64.pow(len as u32);
                for c in 0..total {
                    if idx >= hi {
                        return;
                    }
                    if idx >= lo {
                        let b: Vec<u8> = (0..len).map(|i| (c >> (8 * i)) as u8).collect();
                        f(idx, &b);
                    }
                    idx += 1;
                }
            }
            // repetition: a token sequence u of length 1..=2 repeated REPEAT_SHORT times followed by
            // nothing or one token, and repeated REPEAT_DEEP times (unbounded recursion or a
            // quadratic loop in a hand-written parser shows as a stack overflow or a CPU limit)
            let ku = k as u64;
            for c in 0..repeat_count(ku) {
                if idx >= hi {
                    return;
                }
                if idx >= lo {
                    let (u_idx, reps, ending) = repeat_case(ku, c);
                    let mut unit = String::new();
                    if u_idx < ku {
                        unit.push_str(tok[u_idx as usize]);
                    } else {
                        let x = u_idx - ku;
                        unit.push_str(tok[(x % ku) as usize]);
                        unit.push_str(tok[(x / ku) as usize]);
                    }
                    let mut s = unit.repeat(reps);
                    if let Some(e) = ending {
                        s.push_str(tok[e as usize]);
                    }
                    f(idx, s.as_bytes());
                }
                idx += 1;
            }
            // the token strings of 0..=l tokens once more, inside every frame
            for (pre, post) in frames {
                for len in 0..=l {
                    let total = (k as u64).pow(len as u32);
                    if idx + total <= lo {
                        idx += total;
                        continue;
                    }
                    for c in 0..total {
                        if idx >= hi {
                            return;
                        }
                        if idx >= lo {
                            let mut s = String::from(*pre);
                            let mut x = c;
                            for _ in 0..len {
                                s.push_str(tok[(x % k as u64) as usize]);
                                x /= k as u64;
                            }
                            s.push_str(post);
                            f(idx, s.as_bytes());
                        }
                        idx += 1;
                    }
                }
            }
        }
        Class::Shift => {
            let (bases, pos) = (shift_bases(seed), shift_positions(n));
            for base in &bases {
                let per = 1 + pos.iter().map(|p| BOUNDARY.iter().filter(|v| **v != base[*p]).count() as u64).sum::<u64>();
                if idx + per <= lo {
                    idx += per;
                    continue;
                }
                if idx >= hi {
                    return;
                }
                if idx >= lo {
                    f(idx, base);
                }
                idx += 1;
                let mut b = base.clone();
                for p in &pos {
                    for v in BOUNDARY {
                        if v == base[*p] {
                            continue;
                        }
                        if idx >= hi {
                            return;
                        }
                        if idx >= lo {
                            b[*p] = v;
                            f(idx, &b);
                            b[*p] = base[*p];
                        }
                        idx += 1;
                    }
                }
            }
        }
        Class::Builder | Class::Fixture => {}
    }
}

// ---------------------------------------------------------------- C08 part (ii): builder values

/// Every format's builder is driven over a small alphabet of its own calls (mixed-radix
/// enumeration, every combination once); the built value is serialised, parsed again and its
/// logical projection compared with that of the built value — and, where a builder only hands
/// out bytes, with the model of what was put in. The deep exploration of the builders (page
/// and chunk boundaries, long programs) is C01/C03/C16/C19; this part is the round-trip clause
/// of C08 over values that stay clear of the boundaries those checks own.
pub mod bv {
    use super::{FixErr, FixResult, Proj, first_diff, fix_err, norm_err, proj};
    use cascette_crypto::{ContentKey, EncodingKey};
    use cascette_formats::CascFormat;
    use std::fmt::Write as _;
    use std::io::Cursor;

    pub enum Outcome {
        /// the round trip held
        Held,
        /// the builder refused the program (no value produced: nothing to check)
        Refused(String),
        Violation(FixErr),
    }

    pub struct Case {
        pub desc: String,
        pub outcome: Outcome,
    }

    struct Digits(u64);
    impl Digits {
        fn take(&mut self, n: u64) -> u64 {
            let d = self.0 % n;
            self.0 /= n;
            d
        }
    }

    pub const FORMATS: &[&str] = &[
        "blte", "encoding", "archive-index", "archive-group", "root", "install", "download", "size", "tvfs", "zbsdiff", "patch-archive", "patch-index", "build-config", "cdn-config", "patch-config", "keyring-config",
        "bpsv", "espec",
    ];

    fn radices(fmt: &str, thorough: bool) -> Vec<u64> {
        let t = u64::from(thorough);
        match fmt {
            "blte" => vec![5 + t, 3, 7],
            "encoding" => vec![5 + t, 4, 3, 2, 3, 2, 3],
            "archive-index" => vec![5, 3, 6, 2, 2],
            "archive-group" => vec![5, 2],
            "root" => vec![4, 32, 2, 3],
            "install" => vec![10 + 8 * t, 3, 4, 2, 2],
            "download" => vec![3, 2, 5, 2, 4 + 2 * t, 2, 3],
            "size" => vec![2, 3, 4, 5 + 2 * t, 2, 3, 4],
            "tvfs" => vec![6, 5, 2],
            "zbsdiff" => vec![5, 5, 4],
            "patch-archive" => vec![5, 3, 2, 2, 2, 4],
            "patch-index" => vec![3, 4 + t],
            "build-config" => vec![16, 3],
            "cdn-config" => vec![16, 3, 9],
            "patch-config" => vec![8, 3],
            "keyring-config" => vec![4, 2],
            "bpsv" => vec![3, 3, 3, 2, 3],
            "espec" => vec![espec_values().len() as u64],
            _ => vec![0],
        }
    }

    pub fn count(fmt: &str, thorough: bool) -> u64 {
        radices(fmt, thorough).iter().product()
    }

    fn key(tag: u8, i: u32) -> [u8; 16] {
        let mut k = [0u8; 16];
        for (j, b) in k.iter_mut().enumerate() {
            *b = tag.wrapping_mul(29).wrapping_add((j as u8).wrapping_mul(11)).wrapping_add((i as u8).wrapping_mul(67)) | 1;
        }
        // strictly increasing in i (big-endian), never all zero
        k[0] = 0x08 + (i >> 8) as u8;
        k[1] = i as u8;
        k
    }

    fn e2s<E: std::fmt::Display>(e: E) -> String {
        e.to_string()
    }

    /// `logical(parse(build(v))) = logical(v)` for a value of the format's own type.
    fn roundtrip<T: CascFormat>(v: &T, logical: fn(&T, &[&[u8]]) -> Proj) -> FixResult {
        let y = v.build().map_err(|e| fix_err("built-value-unserialisable", norm_err(&e.to_string()), format!("the builder handed out a value whose build() fails: {e}")))?;
        let p = T::parse(&y).map_err(|e| fix_err("built-value-unparseable", norm_err(&e.to_string()), format!("parse rejects the serialisation of a builder value ({} bytes): {e}", y.len())))?;
        let hints: [&[u8]; 1] = [&y];
        match first_diff(&logical(v, &hints), &logical(&p, &hints)) {
            None => Ok(()),
            Some((section, detail)) => Err(fix_err("built-value-changed", section, format!("logical content of the builder value and of parse(build(value)) differ: {detail}"))),
        }
    }

    /// The sections a model names must be equal in the parsed value.
    fn against_model(model: &Proj, parsed: &Proj) -> FixResult {
        for (name, want) in model {
            let got = parsed.iter().find(|(n, _)| n == name).map(|(_, s)| s.as_str()).unwrap_or("<section missing>");
            if got != want {
                let d = first_diff(&vec![(*name, want.clone())], &vec![(*name, got.to_string())]).map(|x| x.1).unwrap_or_default();
                return Err(fix_err("built-value-changed", format!("model:{name}"), format!("what was put into the builder (left) and what parse(build) returns (right) differ: {d}")));
            }
        }
        Ok(())
    }

    fn parsed<T: CascFormat>(bytes: &[u8]) -> Result<T, FixErr> {
        T::parse(bytes).map_err(|e| fix_err("built-value-unparseable", norm_err(&e.to_string()), format!("parse rejects the {} bytes the builder wrote: {e}", bytes.len())))
    }

    fn done(desc: String, r: Result<FixResult, String>) -> Case {
        Case {
            desc,
            outcome: match r {
                Err(refused) => Outcome::Refused(refused),
                Ok(Ok(())) => Outcome::Held,
                Ok(Err(e)) => Outcome::Violation(e),
            },
        }
    }

    pub fn eval(fmt: &str, idx: u64, thorough: bool) -> Case {
        let mut d = Digits(idx);
        let r = radices(fmt, thorough);
        let mut dg: Vec<u64> = Vec::new();
        for x in &r {
            dg.push(d.take(*x));
        }
        match fmt {
            "blte" => blte(&dg),
            "encoding" => encoding(&dg),
            "archive-index" => archive_index(&dg),
            "archive-group" => archive_group(&dg),
            "root" => root(&dg),
            "install" => install(&dg),
            "download" => download(&dg),
            "size" => size(&dg),
            "tvfs" => tvfs(&dg),
            "zbsdiff" => zbsdiff(&dg),
            "patch-archive" => patch_archive(&dg),
            "patch-index" => patch_index(&dg),
            "build-config" => build_config(&dg),
            "cdn-config" => cdn_config(&dg),
            "patch-config" => patch_config(&dg),
            "keyring-config" => keyring_config(&dg),
            "bpsv" => bpsv(&dg),
            "espec" => espec(&dg),
            _ => Case { desc: format!("unknown format {fmt}"), outcome: Outcome::Refused("unknown".into()) },
        }
    }

    // ---- BLTE
    fn payload(class: u64) -> Vec<u8> {
        match class {
            0 => Vec::new(),
            1 => vec![0x42],
            2 => b"abcabca".to_vec(),
            3 => b"hello hello hello hello hello hello world".to_vec(),
            4 => (0..300u32).map(|i| (i * 7 % 251) as u8).collect(),
            _ => (0..5000u32).map(|i| (i % 13) as u8).collect(),
        }
    }

    fn blte(dg: &[u64]) -> Case {
        use cascette_formats::blte::{BlteBuilder, BlteFile, CompressionMode};
        let data = payload(dg[0]);
        let (mode, mname) = [(CompressionMode::None, "N"), (CompressionMode::ZLib, "Z"), (CompressionMode::LZ4, "4")][dg[1] as usize];
        let how = ["single_chunk", "compress(cs=1)", "compress(cs=3)", "compress(cs=16)", "compress(cs=len)", "builder.add_data", "builder(cs=4).add_data;add_data"][dg[2] as usize];
        let desc = format!("blte: {how} payload={}B mode={mname}", data.len());
        let built: Result<(BlteFile, Vec<u8>), String> = match dg[2] {
            0 => BlteFile::single_chunk(data.clone(), mode).map(|f| (f, data.clone())).map_err(e2s),
            1 => BlteFile::compress(&data, 1, mode).map(|f| (f, data.clone())).map_err(e2s),
            2 => BlteFile::compress(&data, 3, mode).map(|f| (f, data.clone())).map_err(e2s),
            3 => BlteFile::compress(&data, 16, mode).map(|f| (f, data.clone())).map_err(e2s),
            4 => BlteFile::compress(&data, data.len(), mode).map(|f| (f, data.clone())).map_err(e2s),
            5 => BlteBuilder::new().with_compression(mode).add_data(&data).and_then(BlteBuilder::build).map(|f| (f, data.clone())).map_err(e2s),
            _ => {
                let second = b"-tail".to_vec();
                let mut all = data.clone();
                all.extend_from_slice(&second);
                BlteBuilder::new().with_compression(mode).with_chunk_size_unchecked(4).add_data(&data).and_then(|b| b.add_data(&second)).and_then(BlteBuilder::build).map(|f| (f, all)).map_err(e2s)
            }
        };
        done(
            desc,
            built.map(|(f, plain)| {
                roundtrip(&f, proj::blte)?;
                let y = CascFormat::build(&f).map_err(|e| fix_err("built-value-unserialisable", "", e.to_string()))?;
                let p: BlteFile = parsed(&y)?;
                against_model(&vec![("payload", format!("ok:{}", hex::encode(&plain)))], &proj::blte(&p, &[]))
            }),
        )
    }

    // ---- encoding
    fn encoding(dg: &[u64]) -> Case {
        use cascette_formats::encoding::{CKeyEntryData, EKeyEntryData, EncodingBuilder};
        let n = [0u32, 1, 2, 3, 40, 400][dg[0] as usize];
        let espec_of = |i: u32| -> &'static str {
            match dg[2] {
                0 => "z",
                1 => ["z", "n"][(i % 2) as usize],
                _ => ["b:{*=z}", "n", "z:{9,mpq}"][(i % 3) as usize],
            }
        };
        let trailing = dg[3] == 1;
        let (pc, pe) = [(1u16, 1u16), (1, 2), (4, 4)][dg[4] as usize];
        let desc_order = dg[5] == 1;
        // encoding keys per content key: 1 or 2 everywhere, or the first content key with as many
        // as one CKey page can hold (an entry is 22 + 16·n bytes) and with one more than that
        let fits = (u32::from(pc) * 1024 - 22) / 16;
        let per_of = |i: u32| -> u32 {
            match dg[1] {
                0 => 1,
                1 => 2,
                2 => if i == 0 { fits } else { 1 },
                _ => if i == 0 { fits + 1 } else { 1 },
            }
        };
        let per_desc = ["1 ekey each", "2 ekeys each", "the first with as many ekeys as fit one page, 1 each otherwise", "the first with one ekey more than fits one page, 1 each otherwise"][dg[1] as usize];
        // which of the two tables the program fills
        let (fill_c, fill_e) = [(true, true), (true, false), (false, true)][dg[6] as usize];
        let tables = ["CKey and EKey entries", "CKey entries only", "EKey entries only"][dg[6] as usize];
        let desc = format!("encoding: {n} ckeys ({per_desc}; {tables}), especs pattern {}, trailing={trailing}, pages {pc}K/{pe}K, inserted {}", dg[2], if desc_order { "descending" } else { "ascending" });
        let mut b = EncodingBuilder::new().with_page_sizes(pc, pe);
        if trailing {
            b = b.with_trailing_espec("b:{22=n,*=z}".to_string());
        }
        let order: Vec<u32> = if desc_order { (0..n).rev().collect() } else { (0..n).collect() };
        let (mut n_c, mut n_e) = (0usize, 0usize);
        for i in order {
            // distinct for every (i, j): j in the last two bytes
            let eks: Vec<EncodingKey> = (0..per_of(i))
                .map(|j| {
                    let mut k = key(0xE0, i);
                    k[14] = (j >> 8) as u8;
                    k[15] = j as u8;
                    EncodingKey::from_bytes(k)
                })
                .collect();
            if fill_c {
                // sizes are 40-bit fields: the values stay inside what the format can say
                b.add_ckey_entry(CKeyEntryData { content_key: ContentKey::from_bytes(key(0xC0, i)), file_size: 1000 + u64::from(i % 200) * 0x1_0000_0001, encoding_keys: eks.clone() });
                n_c += 1;
            }
            if fill_e {
                for (j, ek) in eks.iter().enumerate() {
                    b.add_ekey_entry(EKeyEntryData { encoding_key: *ek, espec: espec_of(i + j as u32).to_string(), file_size: 500 + u64::from(i % 7) * 0x20_0000_0003 });
                    n_e += 1;
                }
            }
        }
        done(
            desc,
            b.build().map_err(e2s).map(|f| {
                roundtrip(&f, proj::encoding)?;
                // what went in: n content keys, n × per encoding keys, the trailing spec
                let y = f.build().map_err(|e| fix_err("built-value-unserialisable", "", e.to_string()))?;
                let p: cascette_formats::encoding::EncodingFile = parsed(&y)?;
                if p.ckey_count() != n_c || p.ekey_count() != n_e {
                    return Err(fix_err("built-value-changed", "model:entry-count", format!("{n_c} content keys and {n_e} encoding keys went in, parse(build) has {} and {}", p.ckey_count(), p.ekey_count())));
                }
                // every encoding key of the first content key comes back (in order)
                if fill_c && n > 0 {
                    let want: Vec<EncodingKey> = (0..per_of(0))
                        .map(|j| {
                            let mut k = key(0xE0, 0);
                            k[14] = (j >> 8) as u8;
                            k[15] = j as u8;
                            EncodingKey::from_bytes(k)
                        })
                        .collect();
                    let got = p.find_all_encodings(&ContentKey::from_bytes(key(0xC0, 0)));
                    if got != want {
                        return Err(fix_err("built-value-changed", "model:encoding-keys", format!("{} encoding keys went in for the first content key, find_all_encodings on parse(build) returns {}", want.len(), got.len())));
                    }
                }
                Ok(())
            }),
        )
    }

    // ---- archive index / group
    fn archive_index(dg: &[u64]) -> Case {
        use cascette_formats::archive::{ArchiveIndex, ArchiveIndexBuilder};
        // (key 8 / 7 / 6 with offset width 4 / 5 / 6: 16-byte records, which tile a 4 KiB block exactly)
        let ks = [9u8, 16, 8, 7, 6][dg[0] as usize];
        let ob = [4u8, 5, 6][dg[1] as usize];
        let rpb = 4096 / (ks as usize + 4 + ob as usize);
        let n = [0usize, 1, 2, 3, rpb, rpb + 1][dg[2] as usize];
        let desc_order = dg[3] == 1;
        // keys handed over in the configured length, or as full 16-byte keys (`add_entry_full`)
        let full_keys = dg[4] == 1;
        let desc = format!("archive-index: with_config(key={ks}, offset_bytes={ob}, size_bytes=4), {n} entries ({}) inserted {}", if full_keys { "add_entry_full, 16-byte keys" } else { "add_entry, keys of the configured length" }, if desc_order { "descending" } else { "ascending" });
        let mut b = ArchiveIndexBuilder::with_config(ks, ob, 4);
        let order: Vec<usize> = if desc_order { (0..n).rev().collect() } else { (0..n).collect() };
        let off_of = |i: usize| -> u64 {
            match ob {
                4 => i as u64 * 4096,
                5 => 0x1_0000_0000 + i as u64 * 4096,
                _ => 0x0003_0000_0000 + i as u64 * 4096,
            }
        };
        for i in order {
            if full_keys {
                b.add_entry_full(key(0xA0, i as u32), 100 + i as u32, off_of(i));
            } else {
                b.add_entry(key(0xA0, i as u32)[..ks as usize].to_vec(), 100 + i as u32, off_of(i));
            }
        }
        // what went in: an index of `ks`-byte keys says the first `ks` bytes of every key
        let mut want = String::new();
        for i in 0..n {
            let _ = write!(want, "({} size={} at={:#x})", hex::encode(&key(0xA0, i as u32)[..ks as usize]), 100 + i as u32, off_of(i));
        }
        let mut buf = Vec::new();
        done(
            desc,
            b.build(Cursor::new(&mut buf)).map_err(e2s).map(|v| {
                let p = ArchiveIndex::parse(Cursor::new(&buf[..])).map_err(|e| fix_err("built-value-unparseable", norm_err(&e.to_string()), format!("parse rejects the {} bytes the builder wrote: {e}", buf.len())))?;
                match first_diff(&proj::archive_index(&v, &[]), &proj::archive_index(&p, &[])) {
                    None => {}
                    Some((s, d)) => return Err(fix_err("built-value-changed", s, format!("the index the builder returned and parse(bytes it wrote) differ: {d}"))),
                }
                against_model(&vec![("params", format!("version=1 page_kb=4 offset_bytes={ob} size_bytes=4 ekey_length={ks}")), ("entries", want)], &proj::archive_index(&p, &[]))
            }),
        )
    }

    fn archive_group(dg: &[u64]) -> Case {
        use cascette_formats::archive::{ArchiveGroup, ArchiveGroupBuilder, ArchiveGroupEntry};
        let n = [0u32, 1, 3, 157, 158][dg[0] as usize];
        let high_idx = dg[1] == 1;
        let desc = format!("archive-group: {n} entries, archive numbers {}", if high_idx { "up to 0xFFFF" } else { "small" });
        let mut b = ArchiveGroupBuilder::new();
        for i in 0..n {
            let ai = if high_idx { 0xFFFF - (i as u16 % 3) } else { (i % 3) as u16 };
            b.add_entry(ArchiveGroupEntry::new(key(0xB0, i).to_vec(), ai, 4096 * i + 7, 200 + i));
        }
        let fmt = |g: &ArchiveGroup| -> Proj {
            let mut s = String::new();
            for e in &g.entries {
                let _ = write!(s, "({} archive={} offset={} size={})", hex::encode(&e.encoding_key), e.archive_index, e.offset, e.size);
            }
            vec![("entries", s)]
        };
        let mut buf = Vec::new();
        done(
            desc,
            b.build(Cursor::new(&mut buf)).map_err(e2s).map(|v| {
                let p = ArchiveGroup::parse(&mut Cursor::new(&buf[..])).map_err(|e| fix_err("built-value-unparseable", norm_err(&e.to_string()), format!("ArchiveGroup::parse rejects the {} bytes the builder wrote: {e}", buf.len())))?;
                match first_diff(&fmt(&v), &fmt(&p)) {
                    None => Ok(()),
                    Some((s, d)) => Err(fix_err("built-value-changed", s, format!("the group the builder returned and parse(bytes it wrote) differ: {d}"))),
                }
            }),
        )
    }

    // ---- root
    fn root(dg: &[u64]) -> Case {
        use cascette_crypto::md5::FileDataId;
        use cascette_formats::root::{ContentFlags, LocaleFlags, RootBuilder, RootFile, RootVersion};
        let (ver, vn) = [(RootVersion::V1, 1), (RootVersion::V2, 2), (RootVersion::V3, 3), (RootVersion::V4, 4)][dg[0] as usize];
        let subset = dg[1];
        let rev = dg[2] == 1;
        let en = LocaleFlags::ENUS;
        let de = LocaleFlags::ENUS | LocaleFlags::DEDE;
        let inst = ContentFlags::INSTALL;
        let noname = ContentFlags::INSTALL | ContentFlags::NO_NAME_HASH;
        // (fdid, locale, content, name hash)
        let universe: [(u32, u32, u64, Option<u64>); 5] = [(100, en, inst, Some(0x1111_2222_3333_4444)), (103, en, inst, Some(0x5555_6666_7777_8888)), (200, de, inst, Some(0x9999_AAAA_BBBB_CCCC)), (300, LocaleFlags::ALL, noname, None), (100, de, inst, Some(0x1111_2222_3333_4444))];
        let mut items: Vec<usize> = (0..5).filter(|i| subset >> i & 1 == 1).collect();
        if rev {
            items.reverse();
        }
        let desc = format!("root: V{vn}, add_file_with_hash of items {items:?} of [(100,enUS),(103,enUS),(200,enUS|deDE),(300,all,no-name-hash),(100,enUS|deDE)]");
        let mut b = RootBuilder::new(ver);
        let mut model: Vec<(u32, u64, u32, Option<u64>, [u8; 16])> = Vec::new();
        for i in &items {
            let (fdid, l, c, h) = universe[*i];
            let ck = key(0xD0, *i as u32);
            b.add_file_with_hash(FileDataId::new(fdid), ContentKey::from_bytes(ck), h, LocaleFlags::new(l), ContentFlags::new(c));
            // V1 stores a name hash with every record (an absent one is written as 0); from V2
            // on a block flagged NO_NAME_HASH stores none. Neither is a loss of content.
            let stored = if vn == 1 { Some(h.unwrap_or(0)) } else if c & ContentFlags::NO_NAME_HASH != 0 { None } else { Some(h.unwrap_or(0)) };
            model.push((l, c, fdid, stored, ck));
        }
        // builder programs that take a record back: 1 = remove_file_from_block(first item added),
        // 2 = remove_file(its FileDataID)
        let edit = dg[3];
        let mut desc = desc;
        if edit > 0 {
            if let Some(i0) = items.first() {
                let (fdid, l, c, _) = universe[*i0];
                if edit == 1 {
                    b.remove_file_from_block(FileDataId::new(fdid), LocaleFlags::new(l), ContentFlags::new(c));
                    if let Some(p) = model.iter().position(|m| m.0 == l && m.1 == c && m.2 == fdid) {
                        model.remove(p);
                    }
                    desc.push_str(", then remove_file_from_block(first item)");
                } else {
                    b.remove_file(FileDataId::new(fdid));
                    model.retain(|m| m.2 != fdid);
                    desc.push_str(", then remove_file(first item's FileDataID)");
                }
            }
        }
        model.sort_unstable();
        let mut s = String::new();
        for (l, c, f, n, k) in &model {
            let _ = write!(s, "(locale={l:#x} content={c:#x} fdid={f} name={} ckey={})", n.map(|x| format!("{x:#x}")).unwrap_or_else(|| "-".into()), hex::encode(k));
        }
        done(
            desc,
            b.build().map_err(e2s).map(|bytes| {
                let p: RootFile = parsed(&bytes)?;
                against_model(&vec![("version", format!("{ver:?}")), ("records", s)], &proj::root(&p, &[]))
            }),
        )
    }

    // ---- install / download / size
    fn member(pattern: u64, tag: usize, file: usize, n: usize) -> bool {
        match pattern {
            0 => false,
            1 => true,
            2 => (file + tag) % 2 == 0,
            _ => file + 1 == n,
        }
    }

    fn install(dg: &[u64]) -> Case {
        use cascette_formats::install::{InstallHeader, InstallManifestBuilder, TagType};
        let n = dg[0] as usize;
        let nt = dg[1] as usize;
        let pattern = dg[2];
        let tags_first = dg[3] == 1;
        let v2 = dg[4] == 1;
        let desc = format!("install: {} {n} files, {nt} tags ({}), membership pattern {pattern}", if v2 { "V2 (re-opened)," } else { "V1," }, if tags_first { "tags added first" } else { "files added first" });
        let tag_defs = [("Windows", TagType::Platform), ("enUS", TagType::Locale)];
        let r = (|| -> Result<cascette_formats::install::InstallManifest, String> {
            let mut b = InstallManifestBuilder::new();
            let add_tags = |mut b: InstallManifestBuilder| {
                for (name, ty) in tag_defs.iter().take(nt) {
                    b = b.add_tag((*name).to_string(), *ty);
                }
                b
            };
            let add_files = |mut b: InstallManifestBuilder, lo: usize, hi: usize| {
                for i in lo..hi {
                    b = b.add_file(format!("dir{}/file{i}.bin", i % 3), ContentKey::from_bytes(key(0x10, i as u32)), 1000 + i as u32 * 0x0101_0101);
                }
                b
            };
            // V2 exists for the builder only as a re-opened V2 manifest: the first file is made
            // V2 by hand, the builder adds the rest
            let first = if v2 { n.min(1) } else { n };
            if tags_first {
                b = add_files(add_tags(b), 0, first);
            } else {
                b = add_tags(add_files(b, 0, first));
            }
            if v2 {
                let mut m = b.build().map_err(e2s)?;
                m.header = InstallHeader::new_v2(m.header.tag_count, m.header.entry_count, 16, 0);
                for e in &mut m.entries {
                    e.file_type = Some(3);
                }
                b = add_files(InstallManifestBuilder::from_manifest(&m), first, n);
            }
            for t in 0..nt {
                for f in 0..n {
                    if member(pattern, t, f, n) {
                        b = b.associate_file_with_tag(f, tag_defs[t].0).map_err(e2s)?;
                    }
                }
            }
            b.build().map_err(e2s)
        })();
        done(
            desc,
            r.map(|m| {
                roundtrip(&m, proj::install)?;
                // what went in: the membership pattern
                let mut want = String::new();
                for (t, (name, ty)) in tag_defs.iter().take(nt).enumerate() {
                    let members: Vec<String> = (0..n).filter(|f| member(pattern, t, *f, n)).map(|f| f.to_string()).collect();
                    let _ = write!(want, "({:?} type={:#06x} files=[{}])", name, *ty as u16, members.join(","));
                }
                let y = m.build().map_err(|e| fix_err("built-value-unserialisable", "", e.to_string()))?;
                let p: cascette_formats::install::InstallManifest = parsed(&y)?;
                against_model(&vec![("tags", want)], &proj::install(&p, &[]))
            }),
        )
    }

    fn download(dg: &[u64]) -> Case {
        use cascette_formats::download::{DownloadManifest, DownloadManifestBuilder, TagType};
        let v = dg[0] as u8 + 1;
        let sums = dg[1] == 1;
        let fs = dg[2] as u8;
        let base: i8 = if dg[3] == 1 { -2 } else { 0 };
        let n = [0usize, 1, 8, 9, 16, 17][dg[4] as usize];
        let nt = if dg[5] == 1 { 2 } else { 0 };
        let pattern = dg[6];
        let desc = format!("download: V{v} checksums={sums} flag_size={fs} base_priority={base}, {n} files, {nt} tags, membership pattern {pattern}");
        let tag_defs = [("Windows", TagType::Platform), ("Alt", TagType::Alternate)];
        let r = (|| -> Result<DownloadManifest, String> {
            let mut b = DownloadManifestBuilder::new(v).map_err(e2s)?.with_checksums(sums).with_flags(fs).map_err(e2s)?.with_base_priority(base).map_err(e2s)?;
            for i in 0..n {
                let size = if i == 1 { 0xFF_FFFF_FFFF } else { 1000 + i as u64 * 0x01_0101_0101 };
                b = b.add_file(EncodingKey::from_bytes(key(0x20, i as u32)), size, (i as i8).wrapping_mul(37)).map_err(e2s)?;
            }
            for (name, ty) in tag_defs.iter().take(nt) {
                b = b.add_tag((*name).to_string(), *ty);
            }
            for i in 0..n {
                if sums {
                    b = b.set_file_checksum(i, 0x0101_0101u32.wrapping_mul(i as u32 + 1)).map_err(e2s)?;
                }
                if fs > 0 {
                    b = b.set_file_flags(i, (0..fs).map(|j| 0xA0 + j * 16 + i as u8).collect()).map_err(e2s)?;
                }
                for t in 0..nt {
                    if member(pattern, t, i, n) {
                        b = b.associate_file_with_tag(i, tag_defs[t].0).map_err(e2s)?;
                    }
                }
            }
            b.build().map_err(e2s)
        })();
        done(
            desc,
            r.map(|m| {
                roundtrip(&m, proj::download)?;
                let mut want = String::new();
                for (t, (name, ty)) in tag_defs.iter().take(nt).enumerate() {
                    let members: Vec<String> = (0..n).filter(|f| member(pattern, t, *f, n)).map(|f| f.to_string()).collect();
                    let _ = write!(want, "({:?} type={:#06x} files=[{}])", name, *ty as u16, members.join(","));
                }
                let mut ents = String::new();
                for i in 0..n {
                    let size = if i == 1 { 0xFF_FFFF_FFFFu64 } else { 1000 + i as u64 * 0x01_0101_0101 };
                    let sum = if sums { Some(0x0101_0101u32.wrapping_mul(i as u32 + 1)) } else { None };
                    let flags: Option<String> = if fs > 0 { Some(hex::encode((0..fs).map(|j| 0xA0 + j * 16 + i as u8).collect::<Vec<u8>>())) } else { None };
                    let _ = write!(ents, "({} size={size} prio={} sum={sum:?} flags={flags:?})", hex::encode(key(0x20, i as u32)), (i as i8).wrapping_mul(37));
                }
                let y = m.build().map_err(|e| fix_err("built-value-unserialisable", "", e.to_string()))?;
                let p: DownloadManifest = parsed(&y)?;
                against_model(&vec![("entries", ents), ("tags", want)], &proj::download(&p, &[]))
            }),
        )
    }

    fn size(dg: &[u64]) -> Case {
        use cascette_formats::install::TagType;
        use cascette_formats::size::{SizeManifest, SizeManifestBuilder};
        let v = dg[0] as u8 + 1;
        let ks = [1u8, 9, 16][dg[1] as usize];
        let w = [1u8, 3, 4, 8][dg[2] as usize];
        // 257 entries of the largest 4-byte esize add up to more than the 40 bits of a V2 header
        let n = [0usize, 1, 8, 9, 257, 16, 17][dg[3] as usize];
        let nt = if dg[4] == 1 { 2 } else { 0 };
        let pattern = dg[5];
        let width = if v == 2 { 4 } else { w };
        let max: u64 = if width >= 7 { 1 << 52 } else { (1u64 << (8 * u32::from(width))) - 1 };
        let true_max: u64 = if width >= 8 { u64::MAX } else { (1u64 << (8 * u32::from(width))) - 1 };
        let esize = |i: usize| -> u64 {
            match dg[6] {
                0 => 1 + i as u64 * 13,
                1 => {
                    if i == 0 {
                        max
                    } else {
                        i as u64
                    }
                }
                // one past what the width can hold (the builder takes a u64)
                2 => {
                    if i == 0 && width < 7 {
                        max + 1
                    } else {
                        i as u64
                    }
                }
                // every entry as large as its field allows: the total is what grows
                _ => true_max,
            }
        };
        let desc = format!("size: V{v} ekey_size={ks} esize_bytes={w}, {n} entries, {nt} tags, membership pattern {pattern}, esize class {}", ["small", "largest for the width", "one past the width", "every entry the largest its field can hold"][dg[6] as usize]);
        let tag_defs = [("Windows", TagType::Platform), ("enUS", TagType::Locale)];
        let mut b = SizeManifestBuilder::new().version(v).ekey_size(ks).esize_bytes(w);
        for (name, ty) in tag_defs.iter().take(nt) {
            b = b.add_tag((*name).to_string(), *ty);
        }
        for i in 0..n {
            b = b.add_entry(key(0x30, i as u32)[..ks as usize].to_vec(), esize(i));
        }
        for t in 0..nt {
            for f in 0..n {
                if member(pattern, t, f, n) {
                    b = b.tag_file(t, f);
                }
            }
        }
        done(
            desc,
            b.build().map_err(e2s).map(|m| {
                roundtrip(&m, proj::size)?;
                let mut ents = String::new();
                for i in 0..n {
                    let _ = write!(ents, "({} esize={})", hex::encode(&key(0x30, i as u32)[..ks as usize]), esize(i));
                }
                let y = m.build().map_err(|e| fix_err("built-value-unserialisable", "", e.to_string()))?;
                let p: SizeManifest = parsed(&y)?;
                against_model(&vec![("entries", ents)], &proj::size(&p, &[]))
            }),
        )
    }

    // ---- TVFS
    fn tvfs(dg: &[u64]) -> Case {
        use cascette_formats::tvfs::{TVFS_FLAG_ENCODING_SPEC, TVFS_FLAG_INCLUDE_CKEY, TVFS_FLAG_PATCH_SUPPORT, TvfsBuilder, TvfsFile};
        let flags = [0u32, 1, 3, 5, 7, 2][dg[0] as usize];
        let paths: &[&str] = [&[][..], &["a"][..], &["a/b.txt", "a/c.txt", "d"][..], &["a", "a/b"][..], &["dir/sub/x", "dir/sub/y", "dir/z", "w"][..]][dg[1] as usize];
        let with_specs = dg[2] == 1;
        let est = flags & TVFS_FLAG_ENCODING_SPEC != 0;
        let specs: Vec<String> = if est && with_specs { vec!["z".to_string(), "b:{*=n}".to_string()] } else { Vec::new() };
        let desc = format!("tvfs: with_flags({flags:#x}), {} encoding specs, files {paths:?}", specs.len());
        let mut b = TvfsBuilder::with_flags(flags);
        for s in &specs {
            b.add_est_spec(s.clone());
        }
        let mut files: Vec<(String, String)> = Vec::new();
        for (i, p) in paths.iter().enumerate() {
            let mut ek = [0u8; 9];
            ek.copy_from_slice(&key(0x40, i as u32)[..9]);
            let ck = key(0x48, i as u32);
            let (es, cs) = (100 + i as u32, 0x0102_0300 + i as u32);
            let idx = if specs.is_empty() { None } else { Some(i as u32 % 2) };
            match idx {
                Some(x) => b.add_file_with_est((*p).to_string(), ek, es, cs, Some(ck), x),
                None => b.add_file((*p).to_string(), ek, es, cs, Some(ck)),
            }
            let ckey = if flags & TVFS_FLAG_INCLUDE_CKEY != 0 { hex::encode(&ck[..9]) } else { String::new() };
            let espec: Option<u32> = if est { Some(idx.unwrap_or(0)) } else { None };
            let patch: Option<u32> = if flags & TVFS_FLAG_PATCH_SUPPORT != 0 { Some(0) } else { None };
            files.push(((*p).to_string(), format!("[off=0 len={cs} -> ekey={} esize={es} ckey={ckey} espec={espec:?} patch={patch:?}]", hex::encode(ek))));
        }
        files.sort();
        let mut fs = String::new();
        for (p, s) in &files {
            let _ = write!(fs, "({p:?} {s})");
        }
        done(
            desc,
            b.build().map_err(e2s).map(|bytes| {
                let p: TvfsFile = parsed(&bytes)?;
                against_model(&vec![("params", format!("flags={flags:#x} ekey_size=9 pkey_size=9")), ("espec-table", format!("{specs:?}")), ("files", fs)], &proj::tvfs(&p, &[]))
            }),
        )
    }

    // ---- ZBSDIFF
    fn zbsdiff(dg: &[u64]) -> Case {
        use cascette_formats::zbsdiff::{ZbsDiff, ZbsdiffBuilder};
        let text = |c: u64| -> Vec<u8> {
            match c {
                0 => Vec::new(),
                1 => b"a".to_vec(),
                2 => b"abcabc".to_vec(),
                3 => b"the quick brown fox jumps over the lazy dog".to_vec(),
                _ => (0..300u32).map(|i| b"0123456789abcdef"[(i * i % 16) as usize]).collect(),
            }
        };
        let (old, new) = (text(dg[0]), text(dg[1]));
        let how = ["build_simple_patch", "build_chunked_patch(max_diff_block_size=4)", "build_chunked_patch", "build"][dg[2] as usize];
        let desc = format!("zbsdiff: {how} old={}B new={}B", old.len(), new.len());
        let b = ZbsdiffBuilder::new(old.clone(), new.clone());
        let r = match dg[2] {
            0 => b.build_simple_patch(),
            1 => b.with_max_diff_block_size(4).build_chunked_patch(),
            2 => b.build_chunked_patch(),
            _ => b.build(),
        };
        done(
            desc,
            r.map_err(e2s).map(|bytes| {
                let p: ZbsDiff = parsed(&bytes)?;
                let again = p.build().map_err(|e| fix_err("built-value-unserialisable", "", e.to_string()))?;
                if again != bytes {
                    return Err(fix_err("built-value-changed", "bytes", "build(parse(patch)) differs from the patch the builder wrote".to_string()));
                }
                match p.apply(&old) {
                    Ok(out) if out == new => Ok(()),
                    Ok(out) => Err(fix_err("built-value-changed", "model:effect", format!("the parsed patch turns old into {} bytes that are not new ({} bytes)", out.len(), new.len()))),
                    Err(e) => Err(fix_err("built-value-changed", "model:effect", format!("the parsed patch does not apply to old: {e}"))),
                }
            }),
        )
    }

    // ---- patch archive / patch index
    fn patch_archive(dg: &[u64]) -> Case {
        use cascette_formats::patch_archive::{PatchArchive, PatchArchiveBuilder, PatchArchiveEncodingInfo};
        let n = [0u32, 1, 2, 3, 70][dg[0] as usize];
        // patches per file entry: 1, 2, or none for every other entry (starting with the first)
        let per_of = |i: u32| -> u32 {
            match dg[1] {
                0 => 1,
                1 => 2,
                _ => i % 2,
            }
        };
        let per = ["1", "2", "0 (even entries) / 1 (odd entries)"][dg[1] as usize];
        let info = dg[2] == 1;
        let version = dg[3] as u8 + 1;
        let rev = dg[4] == 1;
        // (file, old, patch) key widths; a key narrower than 16 bytes reads back zero-padded
        let (kf, ko, kp) = [(16u8, 16u8, 16u8), (9, 16, 16), (16, 9, 12), (9, 9, 9)][dg.get(5).copied().unwrap_or(0) as usize];
        let cut = |k: [u8; 16], w: u8| -> [u8; 16] {
            let mut o = [0u8; 16];
            o[..w as usize].copy_from_slice(&k[..w as usize]);
            o
        };
        let desc = format!("patch-archive: version {version}, block_size_bits 12, key sizes {kf}/{ko}/{kp}, {n} file entries × {per} patches, encoding info {info}, inserted {}", if rev { "descending" } else { "ascending" });
        let mut b = PatchArchiveBuilder::new().version(version).block_size_bits(12);
        if (kf, ko, kp) != (16, 16, 16) {
            b = b.key_sizes(kf, ko, kp);
        }
        let einfo = PatchArchiveEncodingInfo { encoding_ckey: key(0x50, 0), encoding_ekey: key(0x50, 1), decoded_size: 1000, encoded_size: 600, espec: "b:{*=z}".to_string() };
        if info {
            b = b.encoding_info(einfo.clone());
        }
        let order: Vec<u32> = if rev { (0..n).rev().collect() } else { (0..n).collect() };
        let mut es: Vec<String> = Vec::new();
        for i in order {
            let patches: Vec<([u8; 16], u64, [u8; 16], u32, u8)> = (0..per_of(i)).map(|j| (key(0x5A + j as u8, i), 0xFF_0000_0000 + u64::from(i), key(0x5C + j as u8, i), 200 + i, j as u8)).collect();
            let mut s = format!("({} size={}:", hex::encode(cut(key(0x58, i), kf)), 2000 + u64::from(i));
            for p in &patches {
                let _ = write!(s, " [src={} srcsize={} patch={} psize={} idx={}]", hex::encode(cut(p.0, ko)), p.1, hex::encode(cut(p.2, kp)), p.3, p.4);
            }
            s.push(')');
            es.push(s);
            b.add_file_entry(key(0x58, i), 2000 + u64::from(i), patches);
        }
        es.sort();
        let info_s = if info { format!("ckey={} ekey={} decoded=1000 encoded=600 espec={:?}", hex::encode(cut(einfo.encoding_ckey, kf)), hex::encode(cut(einfo.encoding_ekey, kf)), einfo.espec) } else { "-".to_string() };
        done(
            desc,
            b.build().map_err(e2s).map(|bytes| {
                let p: PatchArchive = parsed(&bytes)?;
                against_model(&vec![("params", format!("version={version} block_size_bits=12")), ("key-sizes", format!("file={kf} old={ko} patch={kp}")), ("encoding-info", info_s), ("entries", es.concat())], &proj::patch_archive(&p, &[]))
            }),
        )
    }

    fn patch_index(dg: &[u64]) -> Case {
        use cascette_formats::patch_index::{PatchIndex, PatchIndexBuilder, PatchIndexEntry};
        let ks = [1u8, 9, 16][dg[0] as usize];
        let n = [0u32, 1, 2, 5, 300][dg[1] as usize];
        let desc = format!("patch-index: key_size({ks}), {n} entries");
        let mut b = PatchIndexBuilder::new().key_size(ks);
        // a key wider than key_size is cut on write: the model has the cut key
        let cut = |k: [u8; 16]| {
            let mut o = [0u8; 16];
            o[..ks as usize].copy_from_slice(&k[..ks as usize]);
            o
        };
        let mut s = String::new();
        for i in 0..n {
            let e = PatchIndexEntry { source_ekey: key(0x60, i), source_size: 1000 + i, target_ekey: key(0x62, i), target_size: 0xFFFF_0000 + i, encoded_size: 1500 + i, suffix_offset: (i % 2) as u8, patch_ekey: key(0x64, i / 2) };
            let _ = write!(s, "(src={} {} dst={} {} enc={} suffix={} patch={})", hex::encode(cut(e.source_ekey)), e.source_size, hex::encode(cut(e.target_ekey)), e.target_size, e.encoded_size, e.suffix_offset, hex::encode(cut(e.patch_ekey)));
            b.add_entry(e);
        }
        done(
            desc,
            b.build().map_err(e2s).map(|bytes| {
                let p: PatchIndex = parsed(&bytes)?;
                against_model(&vec![("key-size", ks.to_string()), ("entries", s)], &proj::patch_index(&p, &[]))
            }),
        )
    }

    // ---- text configs
    fn values(shape: u64, salt: usize) -> Vec<String> {
        match shape {
            0 => vec![format!("{:032x}", 0x0123_4567_89ab_cdefu64 + salt as u64)],
            1 => vec![format!("{:032x}", 0xfedc_ba98u64 + salt as u64), "200".to_string()],
            _ => Vec::new(),
        }
    }

    fn build_config(dg: &[u64]) -> Case {
        use cascette_formats::config::BuildConfig;
        let keys = ["root", "encoding", "build-name", "x-custom"];
        let chosen: Vec<&str> = (0..4).filter(|i| dg[0] >> i & 1 == 1).map(|i| keys[i]).collect();
        let desc = format!("build-config: set {chosen:?}, value shape {}", ["one value", "two values", "no value"][dg[1] as usize]);
        let mut c = BuildConfig::new();
        for (i, k) in chosen.iter().enumerate() {
            c.set(*k, values(dg[1], i));
        }
        done(desc, Ok(roundtrip(&c, proj::build_config)))
    }

    fn cdn_config(dg: &[u64]) -> Case {
        use cascette_formats::config::CdnConfig;
        let keys = ["archives", "archive-group", "file-index", "x-custom"];
        let chosen: Vec<&str> = (0..4).filter(|i| dg[0] >> i & 1 == 1).map(|i| keys[i]).collect();
        // the typed setter: three archives, every pattern of known / unknown index sizes
        let pattern = dg[2];
        let archives: Vec<(String, Option<u64>)> = if pattern == 0 { Vec::new() } else { (0..3u64).map(|i| (format!("{:032x}", 0xa0a0_0000u64 + i), if (pattern - 1) >> i & 1 == 1 { Some(10 * (i + 1)) } else { None })).collect() };
        let desc = format!(
            "cdn-config: set {chosen:?}, value shape {}{}",
            ["one value", "two values", "no value"][dg[1] as usize],
            if pattern == 0 { String::new() } else { format!(", set_archives with index sizes {:?}", archives.iter().map(|a| a.1).collect::<Vec<_>>()) }
        );
        let mut c = CdnConfig::new();
        for (i, k) in chosen.iter().enumerate() {
            c.set(*k, values(dg[1], i));
        }
        if pattern > 0 {
            c.set_archives(archives.iter().map(|(k, s)| cascette_formats::config::ArchiveInfo { content_key: k.clone(), index_size: *s }).collect());
        }
        let r = (|| -> FixResult {
            roundtrip(&c, proj::cdn_config)?;
            if pattern > 0 {
                // what went in: archive → index size, by the typed getter of the re-read config
                let p: CdnConfig = parsed(&c.build())?;
                let show = |v: &[(String, Option<u64>)]| v.iter().map(|(k, s)| format!("({k} size={s:?})")).collect::<String>();
                let got: Vec<(String, Option<u64>)> = p.archives().into_iter().map(|a| (a.content_key, a.index_size)).collect();
                against_model(&vec![("archives", show(&archives))], &vec![("archives", show(&got))])?;
            }
            Ok(())
        })();
        done(desc, Ok(r))
    }

    fn patch_config(dg: &[u64]) -> Case {
        use cascette_formats::config::{PatchConfig, PatchEntry};
        let desc = format!("patch-config: properties subset {:#05b} of [patch, patch-size, x-custom], {} patch entries", dg[0], dg[1]);
        let mut c = PatchConfig::new();
        if dg[0] & 1 == 1 {
            c.set_patch_hash(format!("{:032x}", 0xabcdu64));
        }
        if dg[0] & 2 == 2 {
            c.set_patch_size(12345);
        }
        if dg[0] & 4 == 4 {
            c.set_property("x-custom", "some value");
        }
        for i in 0..dg[1] {
            c.add_entry(PatchEntry::new(["encoding", "install"][i as usize % 2], format!("{:032x}", 0x1000u64 + i), 100 + i, format!("{:032x}", 0x2000u64 + i), 50 + i));
        }
        done(desc, Ok(roundtrip(&c, proj::patch_config)))
    }

    fn keyring_config(dg: &[u64]) -> Case {
        use cascette_formats::config::KeyringConfig;
        let upper = dg[1] == 1;
        let desc = format!("keyring-config: {} entries, {} hex", dg[0], if upper { "upper-case" } else { "lower-case" });
        let mut c = KeyringConfig::new();
        for i in 0..dg[0] {
            let (id, val) = (format!("{:016x}", 0xfa50_5078_126a_cb3eu64 + i), format!("{:032x}", 0xbdc5_1862_abed_79b2u64 + i));
            if upper {
                c.add_entry(id.to_uppercase(), val.to_uppercase());
            } else {
                c.add_entry(id, val);
            }
        }
        done(desc, Ok(roundtrip(&c, proj::keyring_config)))
    }

    // ---- BPSV
    fn bpsv(dg: &[u64]) -> Case {
        use cascette_formats::bpsv::{BpsvBuilder, BpsvField, BpsvType, BpsvValue};
        let nf = dg[0] as usize + 1;
        let nr = dg[1] as usize;
        let pat = dg[2];
        let seqn = dg[3] == 1;
        // first cell of the first row: a plain word, a text that starts with the comment
        // character, or empty
        let first = dg[4];
        let desc = format!(
            "bpsv: {nf} fields of [Region!STRING:0, BuildConfig!HEX:16, BuildId!DEC:4], {nr} rows, cell pattern {}, seqn {seqn}, first cell of the first row {}",
            ["all set", "some empty", "negative/upper"][pat as usize],
            ["a word", "\"#1 build\"", "empty"][first as usize]
        );
        let fields = [BpsvField::new("Region", BpsvType::String(0)), BpsvField::new("BuildConfig", BpsvType::Hex(16)), BpsvField::new("BuildId", BpsvType::Dec(4))];
        let mut b = BpsvBuilder::new();
        b.add_fields(fields[..nf].to_vec());
        if seqn {
            b.set_sequence(4_000_000_000);
        }
        let mut refused = None;
        for r in 0..nr {
            let cells: Vec<BpsvValue> = (0..nf)
                .map(|c| match (c, pat) {
                    (0, _) if r == 0 && first == 1 => BpsvValue::String("#1 build".to_string()),
                    (0, _) if r == 0 && first == 2 => BpsvValue::Empty,
                    (0, _) => BpsvValue::String(["us", "eu"][r % 2].to_string()),
                    (_, 1) if (r + c) % 2 == 0 => BpsvValue::Empty,
                    (1, _) => BpsvValue::Hex(vec![0xAB, 0x00 + r as u8, 0xFF]),
                    (_, 2) => BpsvValue::Dec(-7 - r as i64),
                    _ => BpsvValue::Dec(42 + r as i64),
                })
                .collect();
            if let Err(e) = b.add_row(cells) {
                refused = Some(e.to_string());
            }
        }
        if let Some(e) = refused {
            return done(desc, Err(e));
        }
        let doc = b.build();
        let r = (|| -> FixResult {
            roundtrip(&doc, proj::bpsv)?;
            // what went in: nr rows
            let p: cascette_formats::bpsv::BpsvDocument = parsed(&CascFormat::build(&doc).map_err(|e| fix_err("built-value-unserialisable", "", e.to_string()))?)?;
            if p.row_count() != nr {
                return Err(fix_err("built-value-changed", "model:row-count", format!("{nr} rows went in, parse(build) has {}", p.row_count())));
            }
            Ok(())
        })();
        done(desc, Ok(r))
    }

    // ---- ESpec
    fn espec_values() -> Vec<cascette_formats::espec::ESpec> {
        use cascette_formats::espec::{BlockChunk, BlockSizeSpec, ESpec, ZLibVariant};
        let mut leaves: Vec<ESpec> = vec![ESpec::None];
        for level in [None, Some(1u8), Some(9)] {
            for variant in [None, Some(ZLibVariant::MPQ), Some(ZLibVariant::ZLib), Some(ZLibVariant::LZ4HC)] {
                for window_bits in [None, Some(15u8)] {
                    // A zlib spec without a level but with a variant or window bits is a value
                    // the parser produces ("z:{,mpq}", "z:{,15}" are accepted) and a form the
                    // format documentation lists ("z:{mpq}", "z:{mpq,15}" in
                    // docs/src/compression/espec.md): part of the alphabet.
                    leaves.push(ESpec::ZLib { level, variant: variant.clone(), window_bits });
                }
            }
        }
        for bcn in [None, Some(1u8), Some(7)] {
            leaves.push(ESpec::BCPack { bcn });
        }
        for level in [None, Some(1u8), Some(12)] {
            leaves.push(ESpec::GDeflate { level });
        }
        let mut out = leaves.clone();
        for iv in [vec![0x01u8, 0x02, 0x03, 0x04], vec![1, 2, 3, 4, 5, 6, 7, 8], vec![0xAB]] {
            for inner in [ESpec::None, ESpec::ZLib { level: Some(9), variant: Some(ZLibVariant::MPQ), window_bits: None }] {
                out.push(ESpec::Encrypted { key: "0123456789abcdef".to_string(), iv: iv.clone(), spec: Box::new(inner) });
            }
        }
        let sizes = [BlockSizeSpec { size: 164, count: None }, BlockSizeSpec { size: 16 * 1024, count: Some(565) }, BlockSizeSpec { size: 256 * 1024, count: None }, BlockSizeSpec { size: 3 * 1024 * 1024, count: Some(2) }];
        for s in &sizes {
            for inner in [ESpec::None, ESpec::ZLib { level: None, variant: None, window_bits: None }] {
                out.push(ESpec::BlockTable { chunks: vec![BlockChunk { size_spec: Some(s.clone()), spec: inner.clone() }, BlockChunk { size_spec: None, spec: ESpec::ZLib { level: Some(6), variant: Some(ZLibVariant::MPQ), window_bits: None } }] });
                out.push(ESpec::BlockTable { chunks: vec![BlockChunk { size_spec: Some(s.clone()), spec: inner }] });
            }
        }
        out.push(ESpec::BlockTable { chunks: vec![BlockChunk { size_spec: None, spec: ESpec::None }] });
        out.push(ESpec::BlockTable { chunks: vec![BlockChunk { size_spec: None, spec: ESpec::Encrypted { key: "0123456789abcdef".to_string(), iv: vec![1, 2, 3, 4], spec: Box::new(ESpec::None) } }] });
        out
    }

    fn espec(dg: &[u64]) -> Case {
        let vals = espec_values();
        let v = &vals[dg[0] as usize % vals.len()];
        done(format!("espec: {v:?}"), Ok(roundtrip(v, proj::espec)))
    }
}
// ---------------------------------------------------------------- C08 part (iii): fixtures

/// Every file under the repository's `test_fixtures` that belongs to a `CascFormat` (decided by
/// its directory and name, not by which parser happens to accept it) and that the parser of its
/// format accepts: `build(parse(x)) = x` byte for byte. The two ESpec JSON files hold real ESpec
/// strings; every string is one real input.
pub mod fx {
    use super::{FIXTURE_ROOT, FixErr, fix_err, norm_err};
    use cascette_formats::CascFormat;

    pub enum Outcome {
        ByteIdentical,
        /// the format's parser does not accept the file: outside the clause
        NotAccepted(String),
        Violation(FixErr),
    }

    fn format_of(rel: &str) -> Option<&'static str> {
        let (dir, name) = rel.split_once('/')?;
        if name == "manifest.json" || name.starts_with('.') {
            return None;
        }
        Some(match dir {
            "archive" if name.ends_with(".index") => "archive-index",
            "config" if name.ends_with("build_config.txt") => "build-config",
            "config" if name.ends_with("keyring_config.txt") => "keyring-config",
            "download" => "download",
            "encoding" => "encoding",
            "espec" if name.ends_with(".json") => "espec-list",
            "install" => "install",
            "patch_archive" => "patch-archive",
            "patch_index" => "patch-index",
            "root" => "root",
            "tvfs" if name.ends_with(".bin") => "tvfs",
            "tvfs" if name.ends_with(".blte") => "blte",
            "zbsdiff" if name.ends_with(".zbsdiff") => "zbsdiff",
            _ => return None,
        })
    }

    /// (relative path, format), sorted.
    pub fn list() -> Vec<(String, &'static str)> {
        let mut out = Vec::new();
        let Ok(rd) = std::fs::read_dir(FIXTURE_ROOT) else { return out };
        let mut dirs: Vec<_> = rd.flatten().map(|e| e.path()).filter(|p| p.is_dir()).collect();
        dirs.sort();
        for d in dirs {
            let Ok(rd) = std::fs::read_dir(&d) else { continue };
            let mut files: Vec<_> = rd.flatten().map(|e| e.path()).filter(|p| p.is_file()).collect();
            files.sort();
            for f in files {
                let rel = format!("{}/{}", d.file_name().unwrap().to_string_lossy(), f.file_name().unwrap().to_string_lossy());
                if let Some(fmt) = format_of(&rel) {
                    out.push((rel, fmt));
                }
            }
        }
        out
    }

    fn one<T: CascFormat>(x: &[u8]) -> Outcome {
        let v = match T::parse(x) {
            Ok(v) => v,
            Err(e) => return Outcome::NotAccepted(e.to_string()),
        };
        let y = match v.build() {
            Ok(y) => y,
            Err(e) => return Outcome::Violation(fix_err("fixture-rebuild-fails", norm_err(&e.to_string()), format!("parse accepts the real file but build() fails: {e}"))),
        };
        if y == x {
            return Outcome::ByteIdentical;
        }
        let at = y.iter().zip(x.iter()).position(|(a, b)| a != b).unwrap_or(y.len().min(x.len()));
        let show = |d: &[u8]| hex::encode(&d[at.min(d.len())..(at + 16).min(d.len())]);
        Outcome::Violation(fix_err("fixture-not-byte-identical", "", format!("build(parse(x)) differs from the real file at byte {at} (file {} bytes: …{}…, rebuilt {} bytes: …{}…)", x.len(), show(x), y.len(), show(&y))))
    }

    /// The ESpec strings of an ESpec fixture list: every string that is an element of an array
    /// (descriptions, versions and hashes are object members).
    fn espec_strings(v: &serde_json::Value, in_array: bool, out: &mut Vec<String>) {
        match v {
            serde_json::Value::String(s) if in_array => out.push(s.clone()),
            serde_json::Value::Array(a) => a.iter().for_each(|x| espec_strings(x, true, out)),
            serde_json::Value::Object(m) => m.values().for_each(|x| espec_strings(x, false, out)),
            _ => {}
        }
    }

    pub fn check(rel: &str, fmt: &str) -> (Outcome, u64) {
        let Ok(x) = std::fs::read(std::path::Path::new(FIXTURE_ROOT).join(rel)) else { return (Outcome::NotAccepted("unreadable".into()), 0) };
        use cascette_formats::{archive::ArchiveIndex, blte::BlteFile, config::BuildConfig, config::KeyringConfig, download::DownloadManifest, encoding::EncodingFile, espec::ESpec, install::InstallManifest, patch_archive::PatchArchive, patch_index::PatchIndex, root::RootFile, tvfs::TvfsFile, zbsdiff::ZbsDiff};
        let o = match fmt {
            "archive-index" => one::<ArchiveIndex>(&x),
            "build-config" => one::<BuildConfig>(&x),
            "keyring-config" => one::<KeyringConfig>(&x),
            "download" => one::<DownloadManifest>(&x),
            "encoding" => one::<EncodingFile>(&x),
            "install" => one::<InstallManifest>(&x),
            "patch-archive" => one::<PatchArchive>(&x),
            "patch-index" => one::<PatchIndex>(&x),
            "root" => one::<RootFile>(&x),
            "tvfs" => one::<TvfsFile>(&x),
            "blte" => one::<BlteFile>(&x),
            "zbsdiff" => one::<ZbsDiff>(&x),
            "espec-list" => {
                let mut strings = Vec::new();
                if let Ok(j) = serde_json::from_slice::<serde_json::Value>(&x) {
                    espec_strings(&j, false, &mut strings);
                }
                strings.sort();
                strings.dedup();
                let mut bad: Vec<String> = Vec::new();
                let mut accepted = 0u64;
                for s in &strings {
                    match one::<ESpec>(s.as_bytes()) {
                        Outcome::ByteIdentical => accepted += 1,
                        Outcome::NotAccepted(_) => {}
                        Outcome::Violation(e) => {
                            accepted += 1;
                            if bad.len() < 3 {
                                bad.push(format!("{s:?}: {}", e.detail));
                            }
                        }
                    }
                }
                if bad.is_empty() {
                    return (if accepted > 0 { Outcome::ByteIdentical } else { Outcome::NotAccepted("no ESpec string accepted".into()) }, accepted);
                }
                return (Outcome::Violation(fix_err("fixture-not-byte-identical", "", format!("real ESpec strings that do not come back as they went in (first of them): {}", bad.join(" ; ")))), accepted);
            }
            _ => Outcome::NotAccepted("no format".into()),
        };
        let n = u64::from(!matches!(o, Outcome::NotAccepted(_)));
        (o, n)
    }
}

// ---------------------------------------------------------------- worker

/// CPU time of the calling thread (wall time is no measure on a loaded machine).
fn thread_cpu() -> Duration {
    let mut ts = libc::timespec { tv_sec: 0, tv_nsec: 0 };
    // SAFETY: valid pointer to a timespec.
    unsafe { libc::clock_gettime(libc::CLOCK_THREAD_CPUTIME_ID, &mut ts) };
    Duration::new(ts.tv_sec as u64, ts.tv_nsec as u32)
}

fn sig_of(prefix: &str, e: &FixErr) -> String {
    if e.disc.is_empty() { format!("{prefix}|{}", e.kind) } else { format!("{prefix}|{}|{}", e.kind, e.disc) }
}

/// `vcheck worker c02 <status>`
pub fn worker_main(status_path: &str) -> i32 {
    crate::util::install_quiet_panic_hook();
    let targets = targets();
    let mut seed_cache: std::collections::HashMap<String, Vec<(String, Vec<u8>)>> = Default::default();
    let seed_cache = std::cell::RefCell::new(&mut seed_cache);
    let fixture_list = std::cell::OnceCell::new();
    crate::enumx::worker_loop(status_path, |ctx: &WorkerCtx, task: &Value, start: u64| {
        let tname = task["target"].as_str().unwrap_or("");
        let class = Class::from(task["class"].as_str().unwrap_or(""));
        let thorough = task["thorough"].as_bool().unwrap_or(false);
        let lo = task["lo"].as_u64().unwrap_or(0).max(start);
        let hi = task["hi"].as_u64().unwrap_or(0);
        let mut emitted: std::collections::HashSet<String> = Default::default();
        let mut suppressed = 0u64;

        // ---- C08 part (ii): builder values
        if class == Class::Builder {
            let (mut held, mut refused, mut violating) = (0u64, 0u64, 0u64);
            for idx in lo..hi {
                ctx.begin_case(idx);
                let r = std::panic::catch_unwind(|| bv::eval(tname, idx, thorough));
                let (kind, sig, detail, desc) = match r {
                    Ok(c) => match c.outcome {
                        bv::Outcome::Held => {
                            held += 1;
                            continue;
                        }
                        bv::Outcome::Refused(_) => {
                            refused += 1;
                            continue;
                        }
                        bv::Outcome::Violation(e) => (e.kind.clone(), sig_of(&format!("builder:{tname}"), &e), e.detail, c.desc),
                    },
                    Err(e) => {
                        let loc = take_last_panic_loc().unwrap_or_default();
                        let msg = crate::util::panic_message(&e);
                        ("builder-panics".to_string(), format!("builder:{tname}|builder-panics|{}|{}", norm_loc(&loc), norm_msg(&msg)), format!("panic at {loc}: {msg}"), format!("{tname} builder program #{idx}"))
                    }
                };
                violating += 1;
                if emitted.insert(sig.clone()) {
                    ctx.emit(&json!({"kind": kind, "sig": sig, "detail": format!("{desc} — {detail}"), "target": tname, "class": "builder", "case": idx, "program": desc,
                                      "replay": {"part": "builder", "target": tname, "case": idx, "thorough": thorough}}));
                } else {
                    suppressed += 1;
                }
            }
            return json!({"evaluated": hi.saturating_sub(lo), "builder_held": held, "builder_refused": refused, "builder_violating": violating, "suppressed_duplicates": suppressed});
        }

        // ---- C08 part (iii): fixtures
        if class == Class::Fixture {
            let list = fixture_list.get_or_init(fx::list);
            let (mut identical, mut not_accepted, mut inputs) = (0u64, 0u64, 0u64);
            for idx in lo..hi {
                ctx.begin_case(idx);
                let Some((rel, fmt)) = list.get(idx as usize) else { continue };
                let r = std::panic::catch_unwind(|| fx::check(rel, fmt));
                let (kind, sig, detail) = match r {
                    Ok((fx::Outcome::ByteIdentical, n)) => {
                        identical += 1;
                        inputs += n;
                        continue;
                    }
                    Ok((fx::Outcome::NotAccepted(_), _)) => {
                        not_accepted += 1;
                        continue;
                    }
                    Ok((fx::Outcome::Violation(e), n)) => {
                        inputs += n;
                        (e.kind.clone(), sig_of(&format!("fixture:{rel}"), &FixErr { disc: String::new(), ..e.clone() }), e.detail)
                    }
                    Err(e) => {
                        let loc = take_last_panic_loc().unwrap_or_default();
                        let msg = crate::util::panic_message(&e);
                        ("fixture-rebuild-panics".to_string(), format!("fixture:{rel}|fixture-rebuild-panics|{}", norm_loc(&loc)), format!("panic at {loc}: {msg}"))
                    }
                };
                ctx.emit(&json!({"kind": kind, "sig": sig, "detail": format!("{rel} ({fmt}): {detail}"), "target": fmt, "class": "fixture", "case": idx, "fixture": rel,
                                  "replay": {"part": "fixture", "fixture": rel, "format": fmt}}));
            }
            return json!({"evaluated": hi.saturating_sub(lo), "fixtures_byte_identical": identical, "fixtures_not_accepted": not_accepted, "fixture_inputs": inputs});
        }

        // ---- mutants (C02, and part (i) of C08)
        let Some(tg) = targets.iter().find(|t| t.name == tname) else { return json!({"error": "unknown target"}) };
        let seed_idx = task["seed"].as_u64().unwrap_or(0) as usize;
        let mode_c08 = task["mode"].as_str() == Some("c08");
        let mut cache = seed_cache.borrow_mut();
        let seeds = cache.entry(tname.to_string()).or_insert_with(|| (tg.seeds)());
        let empty: (String, Vec<u8>) = (String::new(), Vec::new());
        let (seed_name, seed) = seeds.get(seed_idx).unwrap_or(&empty);
        let full = full_subst(seed_name, seed.len(), thorough);
        let mut evaluated = 0u64;
        let mut accepted = 0u64;
        let mut fix_checked = 0u64;
        let mut max_req_seen = 0usize;
        for_each_case(class, seed, full, thorough, mode_c08, tg.text, lo, hi, |idx, bytes| {
            ctx.begin_case(idx);
            evaluated += 1;
            let t0 = thread_cpu();
            crate::alloc::arm();
            let r = std::panic::catch_unwind(std::panic::AssertUnwindSafe(|| (tg.run)(bytes)));
            let max_req = crate::alloc::disarm();
            max_req_seen = max_req_seen.max(max_req);
            let mut report = |kind: &str, sig: String, detail: String| {
                if emitted.insert(sig.clone()) {
                    ctx.emit(&json!({"kind": kind, "sig": sig, "detail": detail, "target": tname, "seed": seed_name, "class": class.name(), "case": idx,
                                      "input_len": bytes.len(), "input_hex": if bytes.len() <= 8192 { json!(hex::encode(bytes)) } else { Value::Null },
                                      "replay": {"target": tname, "seed": seed_idx, "class": class.name(), "case": idx, "thorough": thorough, "mode": if mode_c08 { "c08" } else { "c02" }}}));
                } else {
                    suppressed += 1;
                }
            };
            match r {
                Err(e) => {
                    let loc = take_last_panic_loc().unwrap_or_default();
                    let msg = crate::util::panic_message(&e);
                    report("panic", format!("{tname}|panic|{}|{}", norm_loc(&loc), norm_msg(&msg)), format!("panic at {loc}: {msg}"));
                }
                Ok(ok) => {
                    if ok {
                        accepted += 1;
                    }
                    let limit = (16usize << 20).max(4096 * bytes.len());
                    if !tg.decompresses && max_req > limit {
                        report("disproportionate-allocation", format!("{tname}|disproportionate-allocation"), format!("single allocation request of {max_req} bytes for an input of {} bytes", bytes.len()));
                    }
                    let cpu = thread_cpu().saturating_sub(t0);
                    if cpu > Duration::from_secs(2) {
                        report("slow", format!("{tname}|slow"), format!("case took {cpu:?} of CPU time"));
                    }
                    if ok && mode_c08 {
                        if let Some(fix) = tg.fix {
                            fix_checked += 1;
                            let fr = std::panic::catch_unwind(std::panic::AssertUnwindSafe(|| fix(bytes)));
                            match fr {
                                Ok(Ok(())) => {}
                                Ok(Err(e)) => report(&e.kind, sig_of(tname, &e), e.detail.clone()),
                                Err(e) => {
                                    let loc = take_last_panic_loc().unwrap_or_default();
                                    let msg = crate::util::panic_message(&e);
                                    report("rebuild-panics", format!("{tname}|rebuild-panics|{}|{}", norm_loc(&loc), norm_msg(&msg)), format!("panic at {loc}: {msg}"));
                                }
                            }
                        }
                    }
                }
            }
        });
        json!({"evaluated": evaluated, "accepted": accepted, "fix_checked": fix_checked, "suppressed_duplicates": suppressed, "max_single_alloc": max_req_seen})
    })
}

// ---------------------------------------------------------------- parent

/// Cases per task so that a task costs roughly the same for every seed size.
fn chunk_for(len: usize, c08: bool) -> u64 {
    // C08 parses twice, builds twice and projects twice per accepted case
    let budget: u64 = if c08 { 1_500_000 } else { 4_000_000 };
    (budget / (len as u64 + 64)).clamp(100, 20_000)
}

fn plan(tier: Tier, mode: &str, only_fix: bool) -> (Vec<Value>, u64, Vec<Value>) {
    let thorough = tier == Tier::Thorough;
    let c08 = mode == "c08";
    let mut tasks = Vec::new();
    let mut total = 0u64;
    let mut seed_info = Vec::new();
    for tg in targets() {
        if only_fix && tg.fix.is_none() {
            continue;
        }
        let seeds = (tg.seeds)();
        for (si, (sname, seed)) in seeds.iter().enumerate() {
            // quick tier: large fixtures only get the header/footer classes
            let big = seed.len() > 8192;
            let mut classes = vec![Class::Trunc, Class::Ext, Class::Window, Class::Stride];
            if !big || thorough {
                classes.insert(0, Class::Subst);
            }
            if thorough && (!c08 || seed.len() <= C08_ALL_POSITIONS_MAX) {
                classes.push(Class::Pair);
            }
            if seed.len() <= SHIFT_MAX {
                classes.push(Class::Shift);
            }
            if big && !thorough && seed.len() > 60_000 {
                // very large fixtures: windows + extensions only in the quick tier
                classes.retain(|c| matches!(c, Class::Window | Class::Ext | Class::Stride));
            }
            if c08 && !thorough {
                // C08 quick: the coordinated-deviation class is left to the thorough tier (two parses and
                // two builds per accepted case)
                classes.retain(|c| *c != Class::Stride);
            }
            let full = full_subst(sname, seed.len(), thorough);
            let mut seed_total = 0u64;
            for c in classes {
                let n = class_count(c, seed, full, thorough, c08, tg.text);
                seed_total += n;
                let chunk = chunk_for(seed.len(), c08);
                let mut lo = 0;
                while lo < n {
                    let hi = (lo + chunk).min(n);
                    tasks.push(json!({"target": tg.name, "seed": si, "class": c.name(), "thorough": thorough, "mode": mode, "lo": lo, "hi": hi}));
                    lo = hi;
                }
            }
            total += seed_total;
            seed_info.push(json!({"target": tg.name, "seed": sname, "len": seed.len(), "cases": seed_total, "full_substitution": full}));
        }
        if let Some(text) = tg.text {
            let n = class_count(Class::Text, &[], false, thorough, c08, Some(text));
            total += n;
            let chunk = 20_000;
            let mut lo = 0;
            while lo < n {
                let hi = (lo + chunk).min(n);
                tasks.push(json!({"target": tg.name, "seed": 0, "class": "text", "thorough": thorough, "mode": mode, "lo": lo, "hi": hi}));
                lo = hi;
            }
        }
    }
    (tasks, total, seed_info)
}

/// Tasks of C08 parts (ii) and (iii).
fn plan_values(tier: Tier) -> (Vec<Value>, u64, u64) {
    let thorough = tier == Tier::Thorough;
    let mut tasks = Vec::new();
    let mut builder_total = 0u64;
    for fmt in bv::FORMATS {
        let n = bv::count(fmt, thorough);
        builder_total += n;
        let chunk = 64;
        let mut lo = 0;
        while lo < n {
            let hi = (lo + chunk).min(n);
            tasks.push(json!({"target": fmt, "seed": 0, "class": "builder", "thorough": thorough, "mode": "c08", "lo": lo, "hi": hi}));
            lo = hi;
        }
    }
    let nfix = fx::list().len() as u64;
    for i in 0..nfix {
        tasks.push(json!({"target": "fixtures", "seed": 0, "class": "fixture", "thorough": thorough, "mode": "c08", "lo": i, "hi": i + 1}));
    }
    (tasks, builder_total, nfix)
}

fn pool_config(tier: Tier) -> PoolConfig {
    PoolConfig { mode: "c02".to_string(), workers: crate::util::workers(), case_timeout: Duration::from_secs(5), max_deaths_per_task: 40, deadline: Some(Instant::now() + Duration::from_secs(tier.pick(170, 3000))) }
}

fn run_mode(prop: &str, mode: &str, tier: Tier, seed: u64) -> i32 {
    let rep = Report::new(prop, tier, seed, Level::Exploration);
    let c08 = mode == "c08";
    let (mut tasks, planned, seed_info) = plan(tier, mode, c08);
    let (mut builder_planned, mut fixtures_planned) = (0u64, 0u64);
    if c08 {
        let (vt, b, f) = plan_values(tier);
        builder_planned = b;
        fixtures_planned = f;
        // values and fixtures first: they are few and a death there must not wait for the mutants
        let mut all = vt;
        all.append(&mut tasks);
        tasks = all;
    }
    rep.set_rule("per target × seed (repository fixtures and small builder-made artifacts): every byte substitution (all 255 values for every builder-made seed and every fixture ≤ 640 bytes, except — quick tier only — inside zero fill more than 48 bytes away from the nearest non-zero byte; thorough: all 255 values everywhere in every seed ≤ 4352 bytes; the boundary set {00,01,7F,80,FE,FF,b-1,b+1,b^80} otherwise), every truncation length, extensions by 1/16/4096 bytes of 00/FF, every 2/3/4/5/8-byte window within 64 bytes of start/end set to {0,1,mid,mid+1,max-1,max} in both endiannesses, (thorough) every pair of 1/2/4-byte boundary windows within 32 bytes of start/end; seeds above 4352 bytes are substituted at every position in the thorough tier (C08: up to 32 KiB; above that, and in the quick tier, at the first and last 512 positions and every 61st in between; C08 also leaves the pair class out above 32 KiB); every seed ≤ 8 KiB moved by 1/2/4/8/16 bytes inside its own length (towards the end or towards the start, the gap filled with 00 or FF), alone and with one boundary value {00,01,7F,80,FE,FF} substituted in its first or last 32 bytes; text targets additionally every string of ≤L grammar tokens — on its own and, for ESpec, inside every frame (prefix, suffix) cut out of a real spec at a parameter position: the zlib parameter list, the size and the content specification of a block, the content specification of an encrypted block — and every string of ≤2 arbitrary bytes; every generated mutant differs from its seed and from every other case of the same (seed, class)");
    if c08 {
        rep.set_rule("C08 counts as non-trivial: (i) every mutant the parser accepts (fixed-point and logical-projection check), (ii) every builder program (mixed-radix enumeration of the format's small call alphabet, each combination once) for which the builder produced a value, (iii) every fixture (every ESpec string of the ESpec fixture lists) the parser of its format accepts");
    } else {
        rep.set_rule("distinct_nontrivial = cases evaluated");
    }
    rep.assume("isolation: each case runs in a worker process under catch_unwind with a counting allocator (single requests above 1 GiB + 64 MiB are refused; non-decompressing targets may not request more than max(16 MiB, 4096 × input length) at once); 5 s of CPU time per case (or 100 s without progress)");
    rep.assume("inputs more than one (thorough: two header/footer) deviations away from every seed are not reached (a shift of the whole seed counts as one deviation)");
    if c08 {
        rep.assume("the logical projections of module `proj` (what counts as content per format) and the models of what was put into the bytes-only builders (root, TVFS, patch archive, patch index, ZBSDIFF) are trusted; the text configs expose no key iterator: their projection looks up every key that occurs in front of a '=' in the input or in the rebuilt text");
    }
    let cfg = pool_config(tier);
    let n_tasks = tasks.len();
    let res = run_pool(&cfg, tasks);
    let mut evaluated = 0u64;
    let mut accepted = 0u64;
    let mut fix_checked = 0u64;
    let mut per_target: std::collections::BTreeMap<String, (u64, u64)> = Default::default();
    let mut per_builder: std::collections::BTreeMap<String, (u64, u64, u64)> = Default::default();
    let (mut fx_identical, mut fx_not_accepted, mut fx_inputs, mut fx_evaluated) = (0u64, 0u64, 0u64, 0u64);
    for (task, s) in &res.summaries {
        let e = s["evaluated"].as_u64().unwrap_or(0);
        match task["class"].as_str().unwrap_or("") {
            "builder" => {
                let b = per_builder.entry(task["target"].as_str().unwrap_or("").to_string()).or_default();
                b.0 += s["builder_held"].as_u64().unwrap_or(0);
                b.1 += s["builder_refused"].as_u64().unwrap_or(0);
                b.2 += s["builder_violating"].as_u64().unwrap_or(0);
            }
            "fixture" => {
                fx_evaluated += e;
                fx_identical += s["fixtures_byte_identical"].as_u64().unwrap_or(0);
                fx_not_accepted += s["fixtures_not_accepted"].as_u64().unwrap_or(0);
                fx_inputs += s["fixture_inputs"].as_u64().unwrap_or(0);
            }
            _ => {
                let a = s["accepted"].as_u64().unwrap_or(0);
                evaluated += e;
                accepted += a;
                fix_checked += s["fix_checked"].as_u64().unwrap_or(0);
                let t = per_target.entry(task["target"].as_str().unwrap_or("").to_string()).or_default();
                t.0 += e;
                t.1 += a;
            }
        }
    }
    for (_task, v) in &res.violations {
        let kind = v["kind"].as_str().unwrap_or("?");
        let is_c08_kind = !matches!(kind, "panic" | "disproportionate-allocation" | "slow");
        if c08 != is_c08_kind {
            continue; // each property reports its own clauses
        }
        rep.violation(kind, v["sig"].as_str().unwrap_or("?"), v.clone(), v["detail"].as_str().unwrap_or(""));
    }
    for d in &res.deaths {
        let t = d.task["target"].as_str().unwrap_or("?");
        let class = d.task["class"].as_str().unwrap_or("");
        let what = if d.kind == "hang" { "hangs" } else { "aborts" };
        if !c08 {
            let (kind, sig, detail) = if d.kind == "hang" {
                ("hang".to_string(), format!("{t}|hang"), format!("case {} of {:?} did not return within 5 s of CPU time", d.case_idx, d.task))
            } else if d.refused_alloc > 0 {
                (
                    "abort-oversized-allocation".to_string(),
                    format!("{t}|abort-oversized-allocation"),
                    format!("case {} of {:?}: a single allocation request of {} bytes (above the 1 GiB cap) aborted the process", d.case_idx, d.task, d.refused_alloc),
                )
            } else {
                ("abort".to_string(), format!("{t}|abort|signal-{:?}", d.signal), format!("case {} of {:?}: worker died with signal {:?}", d.case_idx, d.task, d.signal))
            };
            evaluated += 1;
            rep.violation(&kind, &sig, json!({"task": d.task, "case": d.case_idx, "signal": d.signal, "refused_alloc": d.refused_alloc, "replay": {"target": t, "seed": d.task["seed"], "class": d.task["class"], "case": d.case_idx, "thorough": d.task["thorough"]}}), &detail);
        } else if class == "builder" || class == "fixture" {
            let part = if class == "builder" { format!("builder:{t}") } else { "fixture".to_string() };
            rep.violation(
                &format!("{class}-{what}"),
                &format!("{part}|{class}-{what}"),
                json!({"task": d.task, "case": d.case_idx, "signal": d.signal, "refused_alloc": d.refused_alloc, "replay": {"part": class, "target": t, "case": d.case_idx, "thorough": d.task["thorough"]}}),
                &format!("case {} of {:?}: the worker died (signal {:?}, refused allocation {} bytes)", d.case_idx, d.task, d.signal, d.refused_alloc),
            );
        } else {
            // A death inside a mutant case is C02's finding when the parser alone dies. It is
            // C08's when the parser survives the input and the rebuild kills the process: the
            // one case is run again in C02 mode to tell.
            let mut one = d.task.clone();
            one["mode"] = json!("c02");
            one["lo"] = json!(d.case_idx);
            one["hi"] = json!(d.case_idx + 1);
            let again = run_pool(&PoolConfig { workers: 1, deadline: None, ..pool_config(tier) }, vec![one]);
            if again.deaths.is_empty() && !again.summaries.is_empty() {
                evaluated += 1;
                rep.violation(
                    &format!("rebuild-{what}"),
                    &format!("{t}|rebuild-{what}"),
                    json!({"task": d.task, "case": d.case_idx, "signal": d.signal, "refused_alloc": d.refused_alloc, "replay": {"target": t, "seed": d.task["seed"], "class": d.task["class"], "case": d.case_idx, "thorough": d.task["thorough"], "mode": "c08"}}),
                    &format!("case {} of {:?}: the parser accepts the input, rebuilding it kills the process (signal {:?}, refused allocation {} bytes)", d.case_idx, d.task, d.signal, d.refused_alloc),
                );
            }
        }
    }
    if !res.abandoned_tasks.is_empty() {
        rep.cap_hit(&format!("{} of {n_tasks} tasks not completed (wall-clock budget or repeated worker deaths)", res.abandoned_tasks.len()));
    }
    let builder_values: u64 = per_builder.values().map(|b| b.0 + b.2).sum();
    let builder_done: u64 = per_builder.values().map(|b| b.0 + b.1 + b.2).sum();
    rep.add_evaluations(evaluated + builder_done + fx_evaluated);
    rep.add_nontrivial_count(if c08 { fix_checked + builder_values + fx_inputs } else { evaluated });
    for (t, (e, a)) in &per_target {
        rep.add_outcome(crate::util::fnv64_str(&format!("{t}|{}|{}", e > &0, a > &0)));
    }
    rep.extra("cases_planned", json!(planned));
    rep.extra("accepted_by_parser", json!(accepted));
    rep.extra("fixpoint_checked", json!(fix_checked));
    rep.extra("per_target", json!(per_target.iter().map(|(k, (e, a))| json!({"target": k, "evaluated": e, "accepted": a})).collect::<Vec<_>>()));
    rep.extra("seeds", json!(seed_info));
    if c08 {
        rep.extra("builder_programs_planned", json!(builder_planned));
        rep.extra("builder_values", json!(per_builder.iter().map(|(k, (h, r, v))| json!({"format": k, "round_trip_held": h, "builder_refused_program": r, "violating": v})).collect::<Vec<_>>()));
        rep.extra("fixtures", json!({"files": fixtures_planned, "byte_identical": fx_identical, "not_accepted_by_their_parser": fx_not_accepted, "accepted_inputs_checked": fx_inputs}));
        for (k, (h, r, v)) in &per_builder {
            rep.add_outcome(crate::util::fnv64_str(&format!("builder|{k}|{}|{}|{}", h > &0, r > &0, v > &0)));
        }
        // vacuity guards of parts (ii) and (iii)
        for fmt in bv::FORMATS {
            let b = per_builder.get(*fmt).copied().unwrap_or_default();
            if b.0 + b.2 == 0 && res.abandoned_tasks.is_empty() {
                rep.machinery_error(&format!("builder part: no value of format {fmt} was produced and checked"));
            }
        }
        if fixtures_planned < 20 || (fx_evaluated < fixtures_planned && res.abandoned_tasks.is_empty()) {
            rep.machinery_error(&format!("fixture part: {fixtures_planned} fixtures found, {fx_evaluated} evaluated"));
        }
        for tg in targets() {
            if tg.fix.is_some() && per_target.get(tg.name).map(|x| x.1).unwrap_or(0) == 0 && res.abandoned_tasks.is_empty() {
                rep.machinery_error(&format!("target {}: the parser accepted no mutant (not even near a valid seed)", tg.name));
            }
        }
    }
    for s in seed_info.iter().take(6) {
        rep.sample(s.clone());
    }
    if c08 {
        for fmt in ["install", "tvfs", "espec"] {
            let c = bv::eval(fmt, 7, false);
            rep.sample(json!({"builder_program": c.desc, "outcome": match c.outcome { bv::Outcome::Held => "round trip held".to_string(), bv::Outcome::Refused(e) => format!("builder refused: {e}"), bv::Outcome::Violation(e) => format!("violation {}", e.kind) }}));
        }
    }
    if evaluated < planned / 2 && res.abandoned_tasks.is_empty() {
        rep.machinery_error(&format!("only {evaluated} of {planned} planned cases evaluated"));
    }
    rep.finish()
}

pub fn run(tier: Tier, seed: u64) -> i32 {
    run_mode("C02", "c02", tier, seed)
}
pub fn run_c08(tier: Tier, seed: u64) -> i32 {
    run_mode("C08", "c08", tier, seed)
}

pub fn replay(w: &Value) -> i32 {
    let wit = &w["witness"];
    let r = &wit["replay"];
    match r["part"].as_str() {
        Some("builder") => {
            let fmt = r["target"].as_str().unwrap_or("");
            let c = bv::eval(fmt, r["case"].as_u64().unwrap_or(0), r["thorough"].as_bool().unwrap_or(false));
            println!("replaying builder program: {}", c.desc);
            return match c.outcome {
                bv::Outcome::Held => {
                    println!("round trip held, no violation");
                    0
                }
                bv::Outcome::Refused(e) => {
                    println!("the builder refuses the program ({e}), no violation");
                    0
                }
                bv::Outcome::Violation(e) => {
                    println!("violates: {}: {}", e.kind, e.detail);
                    1
                }
            };
        }
        Some("fixture") => {
            let rel = r["fixture"].as_str().unwrap_or("");
            let fmt = r["format"].as_str().unwrap_or("");
            println!("replaying fixture {rel} ({fmt})");
            return match fx::check(rel, fmt).0 {
                fx::Outcome::ByteIdentical => {
                    println!("build(parse(x)) = x, no violation");
                    0
                }
                fx::Outcome::NotAccepted(e) => {
                    println!("the parser does not accept the file ({e}), no violation");
                    0
                }
                fx::Outcome::Violation(e) => {
                    println!("violates: {}: {}", e.kind, e.detail);
                    1
                }
            };
        }
        _ => {}
    }
    let tname = wit["target"].as_str().or_else(|| r["target"].as_str()).unwrap_or("");
    let tgs = targets();
    let Some(tg) = tgs.iter().find(|t| t.name == tname) else {
        println!("MACHINERY-ERROR: unknown target {tname}");
        return 2;
    };
    let bytes: Vec<u8> = if let Some(h) = wit["input_hex"].as_str() {
        hex::decode(h).unwrap_or_default()
    } else {
        // regenerate from (seed, class, case)
        let seeds = (tg.seeds)();
        let si = r["seed"].as_u64().unwrap_or(0) as usize;
        let class = Class::from(r["class"].as_str().unwrap_or(""));
        let case = r["case"].as_u64().unwrap_or(0);
        let thorough = r["thorough"].as_bool().unwrap_or(false);
        let mut out = Vec::new();
        let empty = (String::new(), Vec::new());
        let (sname, seed) = seeds.get(si).unwrap_or(&empty);
        for_each_case(class, seed, full_subst(sname, seed.len(), thorough), thorough, r["mode"].as_str() == Some("c08"), tg.text, case, case + 1, |_, b| out = b.to_vec());
        out
    };
    println!("replaying {} bytes on target {tname} (in-process: a panic/abort here is the reproduction)", bytes.len());
    let r = std::panic::catch_unwind(|| (tg.run)(&bytes));
    match r {
        Err(e) => {
            println!("violates: panic: {}", crate::util::panic_message(&e));
            1
        }
        Ok(ok) => {
            if ok {
                if let Some(fix) = tg.fix {
                    if let Err(e) = fix(&bytes) {
                        println!("violates: {}: {}", e.kind, e.detail);
                        return 1;
                    }
                }
            }
            println!("returned accepted={ok}, no violation");
            0
        }
    }
}
