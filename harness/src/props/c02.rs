//! C02 — parsers fail closed on arbitrary bytes; C08 — parse∘build reaches a fixed point.
//!
//! ENUM engine with isolated workers: for every target (parser/decoder) and every seed
//! (repository fixture or builder-made artifact) the complete set of mutants at one
//! deviation (byte substitutions, truncations/extensions, 2/3/4/5/8-byte field windows set to
//! boundary values in both endiannesses) — and at two deviations inside headers/footers in
//! the thorough tier — is generated and parsed inside a worker process with a counting
//! allocator. Oracle C02: returns within the time limit, no panic, no abort, no single
//! allocation request beyond the documented cap / out of proportion to the input.
//! Oracle C08 (mode "c08", accepted inputs only): build(parse(x)) succeeds, parses again,
//! rebuilds to identical bytes, and the logical projection is unchanged.

use crate::enumx::{PoolConfig, WorkerCtx, run_pool};
use crate::report::{Level, Report, Tier};
use crate::util::{Scratch, block_on, norm_loc, norm_msg, take_last_panic_loc};
use cascette_formats::CascFormat;
use serde_json::{Value, json};
use std::io::Cursor;
use std::time::{Duration, Instant};

pub type FixResult = Result<(), (String, String)>;

pub struct Target {
    pub name: &'static str,
    /// parse/decode; true = accepted
    pub run: fn(&[u8]) -> bool,
    pub decompresses: bool,
    /// C08 fixed-point check on an accepted input
    pub fix: Option<fn(&[u8]) -> FixResult>,
    pub seeds: fn() -> Vec<(String, Vec<u8>)>,
    /// (alphabet tokens, max tokens) for short-text enumeration
    pub text: Option<(&'static [&'static str], usize, usize)>,
}

// ---------------------------------------------------------------- generic adapters

fn casc_run<T: CascFormat>(d: &[u8]) -> bool {
    T::parse(d).is_ok()
}

fn casc_fix<T: CascFormat + std::fmt::Debug>(d: &[u8], logical: fn(&T) -> String) -> FixResult {
    let Ok(v) = T::parse(d) else { return Ok(()) };
    let y = v.build().map_err(|e| ("rebuild-fails".to_string(), format!("parse accepted the input but build() fails: {e}")))?;
    let v2 = T::parse(&y).map_err(|e| ("reparse-fails".to_string(), format!("build(parse(x)) is rejected by parse: {e}")))?;
    let z = v2.build().map_err(|e| ("second-build-fails".to_string(), format!("build(parse(build(parse(x)))) fails: {e}")))?;
    if z != y {
        let at = z.iter().zip(y.iter()).position(|(a, b)| a != b).unwrap_or(z.len().min(y.len()));
        return Err(("not-a-fixed-point".to_string(), format!("second rebuild differs from the first at byte {at} (lengths {} vs {})", y.len(), z.len())));
    }
    let (l1, l2) = (logical(&v), logical(&v2));
    if l1 != l2 {
        let at = l1.bytes().zip(l2.bytes()).position(|(a, b)| a != b).unwrap_or(l1.len().min(l2.len()));
        let s = at.saturating_sub(60);
        return Err((
            "logical-content-changed".to_string(),
            format!("logical projection differs after rebuild near: `{}` vs `{}`", l1.get(s..(at + 60).min(l1.len())).unwrap_or(""), l2.get(s..(at + 60).min(l2.len())).unwrap_or("")),
        ));
    }
    Ok(())
}

fn dbg<T: std::fmt::Debug>(v: &T) -> String {
    format!("{v:?}")
}

fn fixtures(sub: &str, exts: &[&str]) -> Vec<(String, Vec<u8>)> {
    let dir = std::path::Path::new("/repo/crates/cascette-formats/test_fixtures").join(sub);
    let mut out = Vec::new();
    if let Ok(rd) = std::fs::read_dir(&dir) {
        let mut paths: Vec<_> = rd.flatten().map(|e| e.path()).collect();
        paths.sort();
        for p in paths {
            let name = p.file_name().unwrap().to_string_lossy().to_string();
            if exts.iter().any(|e| name.ends_with(e)) {
                if let Ok(d) = std::fs::read(&p) {
                    out.push((format!("fixture:{sub}/{name}"), d));
                }
            }
        }
    }
    out
}

/// Rebuilt-and-shrunk variants are added by `small_seeds` (builder-made artifacts).
fn with_small(mut v: Vec<(String, Vec<u8>)>, small: Vec<(String, Vec<u8>)>) -> Vec<(String, Vec<u8>)> {
    let mut out = small;
    out.append(&mut v);
    out
}

// ---------------------------------------------------------------- targets

mod t {
    use super::*;
    use cascette_formats::archive::{ArchiveGroup, ArchiveIndex};
    use cascette_formats::blte::BlteFile;
    use cascette_formats::bpsv::BpsvDocument;
    use cascette_formats::config::{BuildConfig, CdnConfig, KeyringConfig, PatchConfig, ProductConfig};
    use cascette_formats::download::DownloadManifest;
    use cascette_formats::encoding::EncodingFile;
    use cascette_formats::espec::ESpec;
    use cascette_formats::install::InstallManifest;
    use cascette_formats::patch_archive::PatchArchive;
    use cascette_formats::patch_index::PatchIndex;
    use cascette_formats::root::RootFile;
    use cascette_formats::size::SizeManifest;
    use cascette_formats::tvfs::TvfsFile;
    use cascette_formats::zbsdiff::ZbsDiff;

    pub fn blte_run(d: &[u8]) -> bool {
        match BlteFile::parse(d) {
            Ok(f) => {
                let _ = f.decompress();
                let ks = cascette_crypto::TactKeyStore::new();
                let _ = f.decompress_with_keys(&ks);
                true
            }
            Err(_) => false,
        }
    }
    pub fn blte_fix(d: &[u8]) -> FixResult {
        casc_fix::<BlteFile>(d, |v| format!("{:?}", v.decompress().map_err(|e| e.to_string())))
    }
    pub fn blte_seeds() -> Vec<(String, Vec<u8>)> {
        let mut v = Vec::new();
        let payload = b"hello hello hello hello world".to_vec();
        for (n, mode) in [("N", cascette_formats::blte::CompressionMode::None), ("Z", cascette_formats::blte::CompressionMode::ZLib), ("4", cascette_formats::blte::CompressionMode::LZ4)] {
            if let Ok(f) = BlteFile::compress(&payload, 8, mode) {
                if let Ok(b) = CascFormat::build(&f) {
                    v.push((format!("built:blte-multi-{n}"), b));
                }
            }
            if let Ok(f) = BlteFile::single_chunk(payload.clone(), mode) {
                if let Ok(b) = CascFormat::build(&f) {
                    v.push((format!("built:blte-single-{n}"), b));
                }
            }
        }
        v.extend(fixtures("tvfs", &[".blte"]).into_iter().take(1));
        v
    }

    pub fn encoding_run(d: &[u8]) -> bool {
        EncodingFile::parse(d).is_ok()
    }
    pub fn encoding_blte_run(d: &[u8]) -> bool {
        EncodingFile::parse_blte(d).is_ok()
    }
    pub fn encoding_fix(d: &[u8]) -> FixResult {
        casc_fix::<EncodingFile>(d, dbg)
    }
    pub fn encoding_seeds() -> Vec<(String, Vec<u8>)> {
        with_small(fixtures("encoding", &[".bin"]), crate::props::c02::small_seeds("encoding"))
    }

    pub fn archive_index_run(d: &[u8]) -> bool {
        ArchiveIndex::parse(Cursor::new(d)).is_ok()
    }
    pub fn archive_index_fix(d: &[u8]) -> FixResult {
        casc_fix::<ArchiveIndex>(d, |v| format!("{:?}", v.entries))
    }
    pub fn archive_index_seeds() -> Vec<(String, Vec<u8>)> {
        with_small(fixtures("archive", &[".index"]), crate::props::c02::small_seeds("archive_index"))
    }
    pub fn archive_group_run(d: &[u8]) -> bool {
        ArchiveGroup::parse(&mut Cursor::new(d)).is_ok()
    }

    pub fn root_run(d: &[u8]) -> bool {
        RootFile::parse(d).is_ok()
    }
    pub fn root_fix(d: &[u8]) -> FixResult {
        casc_fix::<RootFile>(d, |v| format!("{:?}", v.blocks))
    }
    pub fn root_seeds() -> Vec<(String, Vec<u8>)> {
        with_small(fixtures("root", &[".root"]), crate::props::c02::small_seeds("root"))
    }

    pub fn install_run(d: &[u8]) -> bool {
        InstallManifest::parse(d).is_ok()
    }
    pub fn install_fix(d: &[u8]) -> FixResult {
        casc_fix::<InstallManifest>(d, |v| format!("{:?}|{:?}", v.tags, v.entries))
    }
    pub fn install_seeds() -> Vec<(String, Vec<u8>)> {
        with_small(fixtures("install", &[".install"]), crate::props::c02::small_seeds("install"))
    }

    pub fn download_run(d: &[u8]) -> bool {
        DownloadManifest::parse(d).is_ok()
    }
    pub fn download_fix(d: &[u8]) -> FixResult {
        casc_fix::<DownloadManifest>(d, |v| format!("{:?}|{:?}", v.tags, v.entries))
    }
    pub fn download_seeds() -> Vec<(String, Vec<u8>)> {
        with_small(fixtures("download", &[".download"]), crate::props::c02::small_seeds("download"))
    }

    pub fn size_run(d: &[u8]) -> bool {
        SizeManifest::parse(d).is_ok()
    }
    pub fn size_fix(d: &[u8]) -> FixResult {
        casc_fix::<SizeManifest>(d, dbg)
    }
    pub fn size_seeds() -> Vec<(String, Vec<u8>)> {
        crate::props::c02::small_seeds("size")
    }

    pub fn tvfs_run(d: &[u8]) -> bool {
        TvfsFile::parse(d).is_ok()
    }
    pub fn tvfs_blte_run(d: &[u8]) -> bool {
        TvfsFile::load_from_blte(d).is_ok()
    }
    pub fn tvfs_fix(d: &[u8]) -> FixResult {
        casc_fix::<TvfsFile>(d, dbg)
    }
    pub fn tvfs_seeds() -> Vec<(String, Vec<u8>)> {
        with_small(fixtures("tvfs", &[".bin"]), crate::props::c02::small_seeds("tvfs"))
    }
    pub fn tvfs_blte_seeds() -> Vec<(String, Vec<u8>)> {
        fixtures("tvfs", &[".blte"])
    }

    pub fn patch_archive_run(d: &[u8]) -> bool {
        <PatchArchive as CascFormat>::parse(d).is_ok()
    }
    pub fn patch_archive_fix(d: &[u8]) -> FixResult {
        casc_fix::<PatchArchive>(d, dbg)
    }
    pub fn patch_archive_seeds() -> Vec<(String, Vec<u8>)> {
        fixtures("patch_archive", &[".bin"])
    }

    pub fn patch_index_run(d: &[u8]) -> bool {
        <PatchIndex as CascFormat>::parse(d).is_ok()
    }
    pub fn patch_index_fix(d: &[u8]) -> FixResult {
        casc_fix::<PatchIndex>(d, dbg)
    }
    pub fn patch_index_seeds() -> Vec<(String, Vec<u8>)> {
        fixtures("patch_index", &[".bin"])
    }

    pub fn zbsdiff_run(d: &[u8]) -> bool {
        let a = ZbsDiff::parse(d).is_ok();
        let old = [0x61u8; 64];
        let b = cascette_formats::zbsdiff::apply_patch_memory(&old, d).is_ok();
        let c = match ZbsDiff::parse(d) {
            Ok(p) => p.apply(&old).is_ok(),
            Err(_) => false,
        };
        a || b || c
    }
    pub fn zbsdiff_fix(d: &[u8]) -> FixResult {
        casc_fix::<ZbsDiff>(d, dbg)
    }
    pub fn zbsdiff_seeds() -> Vec<(String, Vec<u8>)> {
        with_small(fixtures("zbsdiff", &[".zbsdiff"]), crate::props::c02::small_seeds("zbsdiff"))
    }

    macro_rules! cfg_target {
        ($run:ident, $fix:ident, $ty:ty) => {
            pub fn $run(d: &[u8]) -> bool {
                <$ty as CascFormat>::parse(d).is_ok()
            }
            pub fn $fix(d: &[u8]) -> FixResult {
                casc_fix::<$ty>(d, dbg)
            }
        };
    }
    cfg_target!(build_config_run, build_config_fix, BuildConfig);
    cfg_target!(cdn_config_run, cdn_config_fix, CdnConfig);
    cfg_target!(patch_config_run, patch_config_fix, PatchConfig);
    cfg_target!(product_config_run, product_config_fix, ProductConfig);
    cfg_target!(keyring_config_run, keyring_config_fix, KeyringConfig);
    cfg_target!(bpsv_run, bpsv_fix, BpsvDocument);
    cfg_target!(espec_run, espec_fix, ESpec);

    pub fn build_config_seeds() -> Vec<(String, Vec<u8>)> {
        let mut v = vec![
            ("text:build-config-min".to_string(), b"# Build Configuration\n\nroot = 0123456789abcdef0123456789abcdef\nencoding = 0123456789abcdef0123456789abcdef fedcba9876543210fedcba9876543210\nencoding-size = 100 200\nbuild-name = WOW-1\n".to_vec()),
        ];
        v.extend(fixtures("config", &["build_config.txt"]).into_iter().filter(|(_, d)| d.len() < 50_000).take(1));
        v
    }
    pub fn cdn_config_seeds() -> Vec<(String, Vec<u8>)> {
        vec![("text:cdn-config-min".to_string(), b"# CDN Configuration\n\narchives = 0123456789abcdef0123456789abcdef fedcba9876543210fedcba9876543210\narchives-index-size = 10 20\narchive-group = 0123456789abcdef0123456789abcdef\nfile-index = 0123456789abcdef0123456789abcdef\nfile-index-size = 5\n".to_vec())]
    }
    pub fn patch_config_seeds() -> Vec<(String, Vec<u8>)> {
        vec![("text:patch-config-min".to_string(), b"# Patch Configuration\n\npatch-entry = encoding 0123456789abcdef0123456789abcdef 10 fedcba9876543210fedcba9876543210 20 b:{*=z} 0123456789abcdef0123456789abcdef 5 fedcba9876543210fedcba9876543210 6\npatch = 0123456789abcdef0123456789abcdef\npatch-size = 7\n".to_vec())]
    }
    pub fn product_config_seeds() -> Vec<(String, Vec<u8>)> {
        vec![("text:product-config-min".to_string(), br#"{"all":{"config":{"product":"wow","supported_locales":["enUS"],"form":{"game_dir":{"dirname":"World of Warcraft"}}}},"platform":{"win":{"config":{"binaries":{"game":{"relative_path":"Wow.exe"}}}}}}"#.to_vec())]
    }
    pub fn keyring_config_seeds() -> Vec<(String, Vec<u8>)> {
        fixtures("config", &["keyring_config.txt"]).into_iter().filter(|(_, d)| d.len() < 4000).collect()
    }
    pub fn bpsv_seeds() -> Vec<(String, Vec<u8>)> {
        vec![
            ("text:bpsv-versions".to_string(), b"Region!STRING:0|BuildConfig!HEX:16|BuildId!DEC:4|VersionsName!String:0\n## seqn = 12345\nus|0123456789abcdef0123456789abcdef|42|1.0.0.42\neu|fedcba9876543210fedcba9876543210|43|1.0.0.43\n".to_vec()),
        ]
    }
    pub fn espec_seeds() -> Vec<(String, Vec<u8>)> {
        vec![
            ("text:espec-n".to_string(), b"n".to_vec()),
            ("text:espec-z".to_string(), b"z:{9,mpq}".to_vec()),
            ("text:espec-b".to_string(), b"b:{164=z,16K*565=z,1656=n,*=z:{6,mpq}}".to_vec()),
            ("text:espec-e".to_string(), b"e:{0123456789abcdef,01234567,z}".to_vec()),
        ]
    }

    pub fn mime_run(d: &[u8]) -> bool {
        let a = cascette_protocol::mime_parser::parse_v1_mime_response(d).is_ok();
        let b = cascette_protocol::mime_parser::parse_v1_mime_to_bpsv(d).is_ok();
        a || b
    }
    pub fn mime_seeds() -> Vec<(String, Vec<u8>)> {
        let body = "Region!STRING:0|BuildId!DEC:4\n## seqn = 1\nus|42\n";
        let mut v = Vec::new();
        let plain = format!("MIME-Version: 1.0\r\nContent-Type: multipart/alternative; boundary=\"b1\"\r\n\r\n--b1\r\nContent-Type: text/plain\r\nContent-Disposition: version\r\n\r\n{body}\r\n--b1--\r\n");
        // checksum epilogue as the Ribbit V1 format appends it
        let sum = {
            use std::fmt::Write;
            let d = crate::sha256_hex(plain.as_bytes());
            let mut s = String::new();
            let _ = write!(s, "{plain}Checksum: {d}\r\n");
            s
        };
        v.push(("text:mime-with-checksum".to_string(), sum.into_bytes()));
        v.push(("text:mime-plain".to_string(), plain.into_bytes()));
        v
    }

    // ---- local storage formats
    pub fn local_idx_run(d: &[u8]) -> bool {
        let sc = Scratch::new("c02idx");
        let p = sc.path.join("0000000001.idx");
        if std::fs::write(&p, d).is_err() {
            return false;
        }
        let mut m = cascette_client_storage::index::IndexManager::new(&sc.path);
        let ok = m.load_index(0, &p).is_ok();
        if ok {
            let _ = m.entry_count();
            let _ = m.iter_entries().count();
        }
        ok
    }
    pub fn local_idx_seeds() -> Vec<(String, Vec<u8>)> {
        let mut out = Vec::new();
        for (name, flush) in [("idx-pending", false), ("idx-flushed", true)] {
            let sc = Scratch::new("c02seed");
            let mut m = cascette_client_storage::index::IndexManager::new(&sc.path);
            for i in 0..3u8 {
                let mut k = [0u8; 16];
                k[0] = 0x10 * (i + 1);
                k[8] = 0x01 * (i + 1);
                k[9] = i;
                let _ = m.add_entry(&cascette_crypto::EncodingKey::from_bytes(k), u16::from(i), 100 + u32::from(i), 50);
            }
            if flush {
                let _ = m.flush_all_updates();
            }
            let _ = m.save_all();
            if let Ok(rd) = std::fs::read_dir(&sc.path) {
                let mut ps: Vec<_> = rd.flatten().map(|e| e.path()).collect();
                ps.sort();
                if let Some(p) = ps.first() {
                    if let Ok(d) = std::fs::read(p) {
                        out.push((format!("built:{name}"), d));
                    }
                }
            }
        }
        out
    }
    pub fn update_section_run(d: &[u8]) -> bool {
        let s = cascette_client_storage::index::update::UpdateSection::from_bytes(d);
        let _ = s.entry_count();
        let _ = s.to_bytes();
        cascette_client_storage::index::update::UpdatePage::from_bytes(d).is_some()
    }
    pub fn update_section_seeds() -> Vec<(String, Vec<u8>)> {
        let mut s = cascette_client_storage::index::update::UpdateSection::new();
        for i in 0..3u8 {
            let loc = cascette_client_storage::index::ArchiveLocation { archive_id: 1, archive_offset: 100 };
            let _ = s.append(cascette_client_storage::index::update::UpdateEntry::new([i + 1; 9], loc, 10, cascette_client_storage::index::UpdateStatus::Normal));
        }
        let b = s.to_bytes();
        vec![("built:update-section-first-page".to_string(), b[..b.len().min(1024)].to_vec())]
    }
    pub fn residency_run(d: &[u8]) -> bool {
        let sc = Scratch::new("c02res");
        let p = sc.path.join("residency.db");
        if std::fs::write(&p, d).is_err() {
            return false;
        }
        match cascette_client_storage::kmt::key_state::ResidencyDb::load(&p) {
            Ok(db) => {
                let _ = db.entry_count();
                let _ = db.scan_keys();
                true
            }
            Err(_) => false,
        }
    }
    pub fn residency_seeds() -> Vec<(String, Vec<u8>)> {
        let sc = Scratch::new("c02seed");
        let p = sc.path.join("residency.db");
        let mut db = cascette_client_storage::kmt::key_state::ResidencyDb::new(p.clone());
        db.mark_resident(&[1u8; 16]);
        db.mark_non_resident(&[2u8; 16]);
        let _ = db.save();
        std::fs::read(&p).map(|d| vec![("built:residency-2".to_string(), d)]).unwrap_or_default()
    }
    pub fn lru_run(d: &[u8]) -> bool {
        use cascette_client_storage::lru::{LruManager, lru_file};
        let parsed = lru_file::deserialize(d).is_some();
        // the MD5 is not a secret: fix it up so that the loader sees the mutated body
        let mut fixed = d.to_vec();
        if fixed.len() >= lru_file::LRU_HEADER_SIZE {
            fixed[4..20].fill(0);
            let h = crate::refmd5(&fixed);
            fixed[4..20].copy_from_slice(&h);
        }
        let sc = Scratch::new("c02lru");
        let p = lru_file::lru_file_path(&sc.path, 1);
        if std::fs::write(&p, &fixed).is_err() {
            return parsed;
        }
        let mut m = LruManager::new(3, sc.path.clone());
        let loaded = block_on(m.load_from_disk(1)).is_ok();
        if loaded {
            let mut n = 0usize;
            m.for_each_entry(|_| n += 1);
            let _ = m.len();
            let _ = m.touch(&[9u8; 9]);
            let _ = m.evict_tail();
        }
        parsed || loaded
    }
    pub fn lru_seeds() -> Vec<(String, Vec<u8>)> {
        use cascette_client_storage::lru::LruManager;
        let sc = Scratch::new("c02seed");
        let mut m = LruManager::new(3, sc.path.clone());
        m.touch(&[1u8; 9]);
        m.touch(&[2u8; 9]);
        let _ = block_on(m.checkpoint_to_disk());
        let p = cascette_client_storage::lru::lru_file::lru_file_path(&sc.path, 1);
        std::fs::read(&p).map(|d| vec![("built:lru-cap3".to_string(), d)]).unwrap_or_default()
    }
    pub fn shmem_run(d: &[u8]) -> bool {
        use cascette_client_storage::shmem::control_block::{PidTracking, ShmemControlBlock};
        let _ = PidTracking::from_mapped(d);
        ShmemControlBlock::from_mapped(d).is_some()
    }
    pub fn shmem_seeds() -> Vec<(String, Vec<u8>)> {
        let mut v = vec![0u8; 0x400];
        v[0] = 5;
        v[0x150..0x154].copy_from_slice(&4u32.to_le_bytes());
        vec![("raw:shmem-zeroed-v5".to_string(), v)]
    }
    pub fn build_info_run(d: &[u8]) -> bool {
        match std::str::from_utf8(d) {
            Ok(s) => cascette_client_storage::BuildInfoFile::parse_str(s).is_ok(),
            Err(_) => false,
        }
    }
    pub fn build_info_seeds() -> Vec<(String, Vec<u8>)> {
        vec![("text:build-info".to_string(), b"Branch!STRING:0|Active!DEC:1|Build Key!HEX:16|CDN Key!HEX:16|Version!STRING:0|Product!STRING:0\nus|1|0123456789abcdef0123456789abcdef|fedcba9876543210fedcba9876543210|1.15.7.60000|wow_classic_era\n".to_vec())]
    }
    pub fn local_header_run(d: &[u8]) -> bool {
        let a = cascette_client_storage::storage::LocalHeader::from_bytes(d).is_some();
        let b = cascette_client_storage::storage::segment::SegmentHeader::from_bytes(d).is_some();
        a || b
    }
    pub fn local_header_seeds() -> Vec<(String, Vec<u8>)> {
        vec![("raw:local-header-30".to_string(), (0u8..30).collect()), ("raw:segment-header-480".to_string(), vec![7u8; 480])]
    }
    pub fn archive_group_seeds() -> Vec<(String, Vec<u8>)> {
        crate::props::c02::small_seeds("archive_group")
    }
}

pub fn targets() -> Vec<Target> {
    const ESPEC_TOK: &[&str] = &["b", "z", "n", "e", "c", "g", ":", "{", "}", "=", "*", ",", "0", "1", "9", "K", "M"];
    const BPSV_TOK: &[&str] = &["#", "!", "|", ":", "\n", "\r", "S", "D", "H", "0", "1", "a"];
    const CFG_TOK: &[&str] = &["=", "#", "\n", " ", "a", "0"];
    vec![
        Target { name: "blte", run: t::blte_run, decompresses: true, fix: Some(t::blte_fix), seeds: t::blte_seeds, text: None },
        Target { name: "encoding", run: t::encoding_run, decompresses: false, fix: Some(t::encoding_fix), seeds: t::encoding_seeds, text: None },
        Target { name: "encoding-blte", run: t::encoding_blte_run, decompresses: true, fix: None, seeds: t::tvfs_blte_seeds, text: None },
        Target { name: "archive-index", run: t::archive_index_run, decompresses: false, fix: Some(t::archive_index_fix), seeds: t::archive_index_seeds, text: None },
        Target { name: "archive-group", run: t::archive_group_run, decompresses: false, fix: None, seeds: t::archive_group_seeds, text: None },
        Target { name: "root", run: t::root_run, decompresses: false, fix: Some(t::root_fix), seeds: t::root_seeds, text: None },
        Target { name: "install", run: t::install_run, decompresses: false, fix: Some(t::install_fix), seeds: t::install_seeds, text: None },
        Target { name: "download", run: t::download_run, decompresses: false, fix: Some(t::download_fix), seeds: t::download_seeds, text: None },
        Target { name: "size", run: t::size_run, decompresses: false, fix: Some(t::size_fix), seeds: t::size_seeds, text: None },
        Target { name: "tvfs", run: t::tvfs_run, decompresses: false, fix: Some(t::tvfs_fix), seeds: t::tvfs_seeds, text: None },
        Target { name: "tvfs-blte", run: t::tvfs_blte_run, decompresses: true, fix: None, seeds: t::tvfs_blte_seeds, text: None },
        Target { name: "patch-archive", run: t::patch_archive_run, decompresses: true, fix: Some(t::patch_archive_fix), seeds: t::patch_archive_seeds, text: None },
        Target { name: "patch-index", run: t::patch_index_run, decompresses: false, fix: Some(t::patch_index_fix), seeds: t::patch_index_seeds, text: None },
        Target { name: "zbsdiff", run: t::zbsdiff_run, decompresses: true, fix: Some(t::zbsdiff_fix), seeds: t::zbsdiff_seeds, text: None },
        Target { name: "build-config", run: t::build_config_run, decompresses: false, fix: Some(t::build_config_fix), seeds: t::build_config_seeds, text: Some((CFG_TOK, 5, 6)) },
        Target { name: "cdn-config", run: t::cdn_config_run, decompresses: false, fix: Some(t::cdn_config_fix), seeds: t::cdn_config_seeds, text: Some((CFG_TOK, 5, 6)) },
        Target { name: "patch-config", run: t::patch_config_run, decompresses: false, fix: Some(t::patch_config_fix), seeds: t::patch_config_seeds, text: Some((CFG_TOK, 5, 6)) },
        Target { name: "product-config", run: t::product_config_run, decompresses: false, fix: Some(t::product_config_fix), seeds: t::product_config_seeds, text: None },
        Target { name: "keyring-config", run: t::keyring_config_run, decompresses: false, fix: Some(t::keyring_config_fix), seeds: t::keyring_config_seeds, text: Some((CFG_TOK, 5, 6)) },
        Target { name: "bpsv", run: t::bpsv_run, decompresses: false, fix: Some(t::bpsv_fix), seeds: t::bpsv_seeds, text: Some((BPSV_TOK, 4, 6)) },
        Target { name: "espec", run: t::espec_run, decompresses: false, fix: Some(t::espec_fix), seeds: t::espec_seeds, text: Some((ESPEC_TOK, 4, 5)) },
        Target { name: "v1-mime", run: t::mime_run, decompresses: false, fix: None, seeds: t::mime_seeds, text: None },
        Target { name: "local-idx", run: t::local_idx_run, decompresses: false, fix: None, seeds: t::local_idx_seeds, text: None },
        Target { name: "update-section", run: t::update_section_run, decompresses: false, fix: None, seeds: t::update_section_seeds, text: None },
        Target { name: "residency-db", run: t::residency_run, decompresses: false, fix: None, seeds: t::residency_seeds, text: None },
        Target { name: "lru-file", run: t::lru_run, decompresses: false, fix: None, seeds: t::lru_seeds, text: None },
        Target { name: "shmem-control-block", run: t::shmem_run, decompresses: false, fix: None, seeds: t::shmem_seeds, text: None },
        Target { name: "build-info", run: t::build_info_run, decompresses: false, fix: None, seeds: t::build_info_seeds, text: Some((BPSV_TOK, 4, 5)) },
        Target { name: "local-header", run: t::local_header_run, decompresses: false, fix: None, seeds: t::local_header_seeds, text: None },
    ]
}

/// Builder-made small artifacts per format (filled by `seeds.rs`).
pub fn small_seeds(fmt: &str) -> Vec<(String, Vec<u8>)> {
    crate::props::seeds::small(fmt)
}

// ---------------------------------------------------------------- mutant classes

const BOUNDARY: [u8; 6] = [0x00, 0x01, 0x7F, 0x80, 0xFE, 0xFF];

#[derive(Clone, Copy, Debug, PartialEq)]
pub enum Class {
    Subst,
    Trunc,
    Ext,
    Window,
    Pair,
    Text,
}

impl Class {
    fn name(self) -> &'static str {
        match self {
            Class::Subst => "subst",
            Class::Trunc => "trunc",
            Class::Ext => "ext",
            Class::Window => "window",
            Class::Pair => "pair",
            Class::Text => "text",
        }
    }
    fn from(s: &str) -> Class {
        match s {
            "subst" => Class::Subst,
            "trunc" => Class::Trunc,
            "ext" => Class::Ext,
            "window" => Class::Window,
            "pair" => Class::Pair,
            _ => Class::Text,
        }
    }
}

fn subst_positions(n: usize, thorough: bool) -> Vec<usize> {
    if n <= 4096 || thorough {
        (0..n).collect()
    } else {
        let mut v: Vec<usize> = (0..512.min(n)).collect();
        v.extend((512..n.saturating_sub(512)).step_by(61));
        v.extend(n.saturating_sub(512)..n);
        v.sort_unstable();
        v.dedup();
        v
    }
}

fn subst_values(n: usize, orig: u8) -> Vec<u8> {
    if n <= 4096 {
        (0..=255u8).filter(|v| *v != orig).collect()
    } else {
        let mut v: Vec<u8> = BOUNDARY.to_vec();
        v.extend([orig.wrapping_sub(1), orig.wrapping_add(1), orig ^ 0x80]);
        v.sort_unstable();
        v.dedup();
        v.retain(|x| *x != orig);
        v
    }
}

fn trunc_lengths(n: usize, thorough: bool) -> Vec<usize> {
    if n <= 4096 || thorough && n <= 65536 {
        (0..n).collect()
    } else {
        let mut v: Vec<usize> = (0..512.min(n)).collect();
        v.extend((512..n).step_by(64));
        v.extend(n.saturating_sub(512)..n);
        v.sort_unstable();
        v.dedup();
        v
    }
}

const WIDTHS: [usize; 5] = [2, 3, 4, 5, 8];

fn window_values(w: usize) -> Vec<Vec<u8>> {
    let bits = w * 8;
    let max: u128 = if bits >= 128 { u128::MAX } else { (1u128 << bits) - 1 };
    let vals: [u128; 6] = [0, 1, max >> 1, (max >> 1) + 1, max - 1, max];
    let mut out: Vec<Vec<u8>> = Vec::new();
    for v in vals {
        let le: Vec<u8> = (0..w).map(|i| (v >> (8 * i)) as u8).collect();
        let be: Vec<u8> = le.iter().rev().copied().collect();
        out.push(be.clone());
        if le != be {
            out.push(le);
        }
    }
    out.sort();
    out.dedup();
    out
}

fn window_offsets(n: usize, w: usize) -> Vec<usize> {
    if n < w {
        return vec![];
    }
    let last = n - w;
    let mut v: Vec<usize> = (0..=last.min(63)).collect();
    v.extend(last.saturating_sub(63)..=last);
    v.sort_unstable();
    v.dedup();
    v
}

/// All window mutations (offset, bytes) of a seed.
fn windows(n: usize) -> Vec<(usize, Vec<u8>)> {
    let mut out = Vec::new();
    for w in WIDTHS {
        let vals = window_values(w);
        for off in window_offsets(n, w) {
            for v in &vals {
                out.push((off, v.clone()));
            }
        }
    }
    out
}

/// Header/footer windows used for pairs (2 deviations): widths 1,2,4 at the first and last 32 bytes.
fn pair_windows(n: usize) -> Vec<(usize, Vec<u8>)> {
    let mut out = Vec::new();
    for w in [1usize, 2, 4] {
        if n < w {
            continue;
        }
        let last = n - w;
        let mut offs: Vec<usize> = (0..=last.min(31)).collect();
        offs.extend(last.saturating_sub(31)..=last);
        offs.sort_unstable();
        offs.dedup();
        let bits = w * 8;
        let max: u64 = if bits >= 64 { u64::MAX } else { (1u64 << bits) - 1 };
        for off in offs {
            for v in [0u64, max, (max >> 1) + 1] {
                let be: Vec<u8> = (0..w).rev().map(|i| (v >> (8 * i)) as u8).collect();
                out.push((off, be));
            }
        }
    }
    out
}

fn class_count(class: Class, seed: &[u8], thorough: bool, text: Option<(&'static [&'static str], usize, usize)>) -> u64 {
    let n = seed.len();
    match class {
        Class::Subst => subst_positions(n, thorough).iter().map(|p| subst_values(n, seed[*p]).len() as u64).sum(),
        Class::Trunc => trunc_lengths(n, thorough).len() as u64,
        Class::Ext => 6,
        Class::Window => windows(n).len() as u64,
        Class::Pair => {
            let k = pair_windows(n).len() as u64;
            k * k.saturating_sub(1) / 2
        }
        Class::Text => match text {
            Some((tok, lq, lt)) => {
                let l = if thorough { lt } else { lq };
                let k = tok.len() as u64;
                let mut total = 0u64;
                let mut p = 1u64;
                for _ in 0..=l {
                    total += p;
                    p *= k;
                }
                // plus every string of ≤ 2 arbitrary bytes
                total + 1 + 256 + 65536
            }
            None => 0,
        },
    }
}

/// Enumerate the cases lo..hi of a class, calling `f(idx, bytes)`.
fn for_each_case(class: Class, seed: &[u8], thorough: bool, text: Option<(&'static [&'static str], usize, usize)>, lo: u64, hi: u64, mut f: impl FnMut(u64, &[u8])) {
    let n = seed.len();
    let mut buf = seed.to_vec();
    let mut idx = 0u64;
    match class {
        Class::Subst => {
            for p in subst_positions(n, thorough) {
                let orig = seed[p];
                let vals = subst_values(n, orig);
                if idx + vals.len() as u64 <= lo {
                    idx += vals.len() as u64;
                    continue;
                }
                for v in vals {
                    if idx >= hi {
                        return;
                    }
                    if idx >= lo {
                        buf[p] = v;
                        f(idx, &buf);
                    }
                    idx += 1;
                }
                buf[p] = orig;
            }
        }
        Class::Trunc => {
            for l in trunc_lengths(n, thorough) {
                if idx >= hi {
                    return;
                }
                if idx >= lo {
                    f(idx, &seed[..l]);
                }
                idx += 1;
            }
        }
        Class::Ext => {
            for (cnt, fill) in [(1usize, 0u8), (1, 0xFF), (16, 0), (16, 0xFF), (4096, 0), (4096, 0xFF)] {
                if idx >= hi {
                    return;
                }
                if idx >= lo {
                    let mut b = seed.to_vec();
                    b.extend(std::iter::repeat_n(fill, cnt));
                    f(idx, &b);
                }
                idx += 1;
            }
        }
        Class::Window => {
            for (off, val) in windows(n) {
                if idx >= hi {
                    return;
                }
                if idx >= lo {
                    let w = val.len();
                    buf[off..off + w].copy_from_slice(&val);
                    f(idx, &buf);
                    buf[off..off + w].copy_from_slice(&seed[off..off + w]);
                }
                idx += 1;
            }
        }
        Class::Pair => {
            let ws = pair_windows(n);
            for i in 0..ws.len() {
                let rest = (ws.len() - i - 1) as u64;
                if idx + rest <= lo {
                    idx += rest;
                    continue;
                }
                for j in i + 1..ws.len() {
                    if idx >= hi {
                        return;
                    }
                    if idx >= lo {
                        let (o1, v1) = &ws[i];
                        let (o2, v2) = &ws[j];
                        buf[*o1..o1 + v1.len()].copy_from_slice(v1);
                        buf[*o2..o2 + v2.len()].copy_from_slice(v2);
                        f(idx, &buf);
                        buf[*o1..o1 + v1.len()].copy_from_slice(&seed[*o1..o1 + v1.len()]);
                        buf[*o2..o2 + v2.len()].copy_from_slice(&seed[*o2..o2 + v2.len()]);
                    }
                    idx += 1;
                }
            }
        }
        Class::Text => {
            let Some((tok, lq, lt)) = text else { return };
            let l = if thorough { lt } else { lq };
            let k = tok.len();
            // strings of 0..=l tokens in length-lexicographic order
            for len in 0..=l {
                let total = (k as u64).pow(len as u32);
                if idx + total <= lo {
                    idx += total;
                    continue;
                }
                for c in 0..total {
                    if idx >= hi {
                        return;
                    }
                    if idx >= lo {
                        let mut s = String::new();
                        let mut x = c;
                        for _ in 0..len {
                            s.push_str(tok[(x % k as u64) as usize]);
                            x /= k as u64;
                        }
                        f(idx, s.as_bytes());
                    }
                    idx += 1;
                }
            }
            // every string of ≤ 2 arbitrary bytes
            for len in 0..=2usize {
                let total = 256u64.pow(len as u32);
                for c in 0..total {
                    if idx >= hi {
                        return;
                    }
                    if idx >= lo {
                        let b: Vec<u8> = (0..len).map(|i| (c >> (8 * i)) as u8).collect();
                        f(idx, &b);
                    }
                    idx += 1;
                }
            }
        }
    }
}

// ---------------------------------------------------------------- worker

/// CPU time of the calling thread (wall time is no measure on a loaded machine).
fn thread_cpu() -> Duration {
    let mut ts = libc::timespec { tv_sec: 0, tv_nsec: 0 };
    // SAFETY: valid pointer to a timespec.
    unsafe { libc::clock_gettime(libc::CLOCK_THREAD_CPUTIME_ID, &mut ts) };
    Duration::new(ts.tv_sec as u64, ts.tv_nsec as u32)
}

/// `vcheck worker c02 <status>`
pub fn worker_main(status_path: &str) -> i32 {
    crate::util::install_quiet_panic_hook();
    let targets = targets();
    let mut seed_cache: std::collections::HashMap<String, Vec<(String, Vec<u8>)>> = Default::default();
    let seed_cache = std::cell::RefCell::new(&mut seed_cache);
    crate::enumx::worker_loop(status_path, |ctx: &WorkerCtx, task: &Value, start: u64| {
        let tname = task["target"].as_str().unwrap_or("");
        let Some(tg) = targets.iter().find(|t| t.name == tname) else { return json!({"error": "unknown target"}) };
        let seed_idx = task["seed"].as_u64().unwrap_or(0) as usize;
        let class = Class::from(task["class"].as_str().unwrap_or(""));
        let thorough = task["thorough"].as_bool().unwrap_or(false);
        let mode_c08 = task["mode"].as_str() == Some("c08");
        let lo = task["lo"].as_u64().unwrap_or(0).max(start);
        let hi = task["hi"].as_u64().unwrap_or(0);
        let mut cache = seed_cache.borrow_mut();
        let seeds = cache.entry(tname.to_string()).or_insert_with(|| (tg.seeds)());
        let empty: (String, Vec<u8>) = (String::new(), Vec::new());
        let (seed_name, seed) = seeds.get(seed_idx).unwrap_or(&empty);
        let mut evaluated = 0u64;
        let mut accepted = 0u64;
        let mut fix_checked = 0u64;
        let mut emitted: std::collections::HashSet<String> = Default::default();
        let mut suppressed = 0u64;
        let mut max_req_seen = 0usize;
        for_each_case(class, seed, thorough, tg.text, lo, hi, |idx, bytes| {
            ctx.begin_case(idx);
            evaluated += 1;
            let t0 = thread_cpu();
            crate::alloc::arm();
            let r = std::panic::catch_unwind(std::panic::AssertUnwindSafe(|| (tg.run)(bytes)));
            let max_req = crate::alloc::disarm();
            max_req_seen = max_req_seen.max(max_req);
            let mut report = |kind: &str, sig: String, detail: String| {
                if emitted.insert(sig.clone()) {
                    ctx.emit(&json!({"kind": kind, "sig": sig, "detail": detail, "target": tname, "seed": seed_name, "class": class.name(), "case": idx,
                                      "input_len": bytes.len(), "input_hex": if bytes.len() <= 8192 { json!(hex::encode(bytes)) } else { Value::Null },
                                      "replay": {"target": tname, "seed": seed_idx, "class": class.name(), "case": idx, "thorough": thorough}}));
                } else {
                    suppressed += 1;
                }
            };
            match r {
                Err(e) => {
                    let loc = take_last_panic_loc().unwrap_or_default();
                    let msg = crate::util::panic_message(&e);
                    report("panic", format!("{tname}|panic|{}|{}", norm_loc(&loc), norm_msg(&msg)), format!("panic at {loc}: {msg}"));
                }
                Ok(ok) => {
                    if ok {
                        accepted += 1;
                    }
                    let limit = (16usize << 20).max(4096 * bytes.len());
                    if !tg.decompresses && max_req > limit {
                        report("disproportionate-allocation", format!("{tname}|disproportionate-allocation"), format!("single allocation request of {max_req} bytes for an input of {} bytes", bytes.len()));
                    }
                    let cpu = thread_cpu().saturating_sub(t0);
                    if cpu > Duration::from_secs(2) {
                        report("slow", format!("{tname}|slow"), format!("case took {cpu:?} of CPU time"));
                    }
                    if ok && mode_c08 {
                        if let Some(fix) = tg.fix {
                            fix_checked += 1;
                            let fr = std::panic::catch_unwind(std::panic::AssertUnwindSafe(|| fix(bytes)));
                            match fr {
                                Ok(Ok(())) => {}
                                Ok(Err((kind, detail))) => report(&kind, format!("{tname}|{kind}"), detail),
                                Err(e) => {
                                    let loc = take_last_panic_loc().unwrap_or_default();
                                    let msg = crate::util::panic_message(&e);
                                    report("rebuild-panics", format!("{tname}|rebuild-panics|{}|{}", norm_loc(&loc), norm_msg(&msg)), format!("panic at {loc}: {msg}"));
                                }
                            }
                        }
                    }
                }
            }
        });
        json!({"evaluated": evaluated, "accepted": accepted, "fix_checked": fix_checked, "suppressed_duplicates": suppressed, "max_single_alloc": max_req_seen})
    })
}

// ---------------------------------------------------------------- parent

fn plan(tier: Tier, mode: &str, only_fix: bool) -> (Vec<Value>, u64, Vec<Value>) {
    let thorough = tier == Tier::Thorough;
    let mut tasks = Vec::new();
    let mut total = 0u64;
    let mut seed_info = Vec::new();
    for tg in targets() {
        if only_fix && tg.fix.is_none() {
            continue;
        }
        let seeds = (tg.seeds)();
        for (si, (sname, seed)) in seeds.iter().enumerate() {
            // quick tier: large fixtures only get the header/footer classes
            let big = seed.len() > 8192;
            let mut classes = vec![Class::Trunc, Class::Ext, Class::Window];
            if !big || thorough {
                classes.insert(0, Class::Subst);
            }
            if thorough {
                classes.push(Class::Pair);
            }
            if big && !thorough && seed.len() > 60_000 {
                // very large fixtures: windows + extensions only in the quick tier
                classes.retain(|c| matches!(c, Class::Window | Class::Ext));
            }
            let mut seed_total = 0u64;
            for c in classes {
                let n = class_count(c, seed, thorough, tg.text);
                seed_total += n;
                // chunk size by seed size (bigger seeds parse slower)
                let chunk = (4_000_000 / (seed.len() as u64 + 64)).clamp(200, 20_000);
                let mut lo = 0;
                while lo < n {
                    let hi = (lo + chunk).min(n);
                    tasks.push(json!({"target": tg.name, "seed": si, "class": c.name(), "thorough": thorough, "mode": mode, "lo": lo, "hi": hi}));
                    lo = hi;
                }
            }
            total += seed_total;
            seed_info.push(json!({"target": tg.name, "seed": sname, "len": seed.len(), "cases": seed_total}));
        }
        if let Some(text) = tg.text {
            let n = class_count(Class::Text, &[], thorough, Some(text));
            total += n;
            let chunk = 20_000;
            let mut lo = 0;
            while lo < n {
                let hi = (lo + chunk).min(n);
                tasks.push(json!({"target": tg.name, "seed": 0, "class": "text", "thorough": thorough, "mode": mode, "lo": lo, "hi": hi}));
                lo = hi;
            }
        }
    }
    (tasks, total, seed_info)
}

fn run_mode(prop: &str, mode: &str, tier: Tier, seed: u64) -> i32 {
    let rep = Report::new(prop, tier, seed, Level::Exploration);
    let only_fix = mode == "c08";
    let (tasks, planned, seed_info) = plan(tier, mode, only_fix);
    rep.set_rule("per target × seed: every byte substitution (all 255 values for seeds ≤4 KiB, boundary set otherwise), every truncation length, extensions by 1/16/4096 bytes of 00/FF, every 2/3/4/5/8-byte window within 64 bytes of start/end set to {0,1,mid,mid+1,max-1,max} in both endiannesses, (thorough) every pair of 1/2/4-byte boundary windows within 32 bytes of start/end; text targets additionally every string of ≤L grammar tokens and every string of ≤2 arbitrary bytes; every generated case differs from its seed and from every other case of the same (seed, class), so distinct_nontrivial = cases evaluated");
    rep.assume("isolation: each case runs in a worker process under catch_unwind with a counting allocator (single requests above 1 GiB + 64 MiB are refused; non-decompressing targets may not request more than max(16 MiB, 4096 × input length) at once); 5 s of CPU time per case (or 100 s without progress)");
    rep.assume("inputs more than one (thorough: two header/footer) deviations away from every seed are not reached");
    let cfg = PoolConfig {
        mode: "c02".to_string(),
        workers: crate::util::workers(),
        case_timeout: Duration::from_secs(5),
        max_deaths_per_task: 40,
        deadline: Some(Instant::now() + Duration::from_secs(tier.pick(150, 3000))),
    };
    let n_tasks = tasks.len();
    let res = run_pool(&cfg, tasks);
    let mut evaluated = 0u64;
    let mut accepted = 0u64;
    let mut fix_checked = 0u64;
    let mut per_target: std::collections::BTreeMap<String, (u64, u64)> = Default::default();
    for (task, s) in &res.summaries {
        let e = s["evaluated"].as_u64().unwrap_or(0);
        let a = s["accepted"].as_u64().unwrap_or(0);
        evaluated += e;
        accepted += a;
        fix_checked += s["fix_checked"].as_u64().unwrap_or(0);
        let t = per_target.entry(task["target"].as_str().unwrap_or("").to_string()).or_default();
        t.0 += e;
        t.1 += a;
    }
    for (_task, v) in &res.violations {
        let kind = v["kind"].as_str().unwrap_or("?");
        let is_c08_kind = !matches!(kind, "panic" | "disproportionate-allocation" | "slow");
        if (mode == "c08") != is_c08_kind {
            continue; // each property reports its own clauses
        }
        rep.violation(kind, v["sig"].as_str().unwrap_or("?"), v.clone(), v["detail"].as_str().unwrap_or(""));
    }
    if mode == "c02" {
        for d in &res.deaths {
            let t = d.task["target"].as_str().unwrap_or("?");
            let (kind, sig, detail) = if d.kind == "hang" {
                ("hang".to_string(), format!("{t}|hang"), format!("case {} of {:?} did not return within 5 s of CPU time", d.case_idx, d.task))
            } else if d.refused_alloc > 0 {
                (
                    "abort-oversized-allocation".to_string(),
                    format!("{t}|abort-oversized-allocation"),
                    format!("case {} of {:?}: a single allocation request of {} bytes (above the 1 GiB cap) aborted the process", d.case_idx, d.task, d.refused_alloc),
                )
            } else {
                ("abort".to_string(), format!("{t}|abort|signal-{:?}", d.signal), format!("case {} of {:?}: worker died with signal {:?}", d.case_idx, d.task, d.signal))
            };
            evaluated += 1;
            rep.violation(&kind, &sig, json!({"task": d.task, "case": d.case_idx, "signal": d.signal, "refused_alloc": d.refused_alloc, "replay": {"target": t, "seed": d.task["seed"], "class": d.task["class"], "case": d.case_idx, "thorough": d.task["thorough"]}}), &detail);
        }
    }
    if !res.abandoned_tasks.is_empty() {
        rep.cap_hit(&format!("{} of {n_tasks} tasks not completed (wall-clock budget or repeated worker deaths)", res.abandoned_tasks.len()));
    }
    rep.add_evaluations(evaluated);
    rep.add_nontrivial_count(if mode == "c08" { fix_checked } else { evaluated });
    for (t, (e, a)) in &per_target {
        rep.add_outcome(crate::util::fnv64_str(&format!("{t}|{}|{}", e > &0, a > &0)));
    }
    rep.extra("cases_planned", json!(planned));
    rep.extra("accepted_by_parser", json!(accepted));
    rep.extra("fixpoint_checked", json!(fix_checked));
    rep.extra("per_target", json!(per_target.iter().map(|(k, (e, a))| json!({"target": k, "evaluated": e, "accepted": a})).collect::<Vec<_>>()));
    rep.extra("seeds", json!(seed_info));
    for s in seed_info.iter().take(6) {
        rep.sample(s.clone());
    }
    if evaluated < planned / 2 && res.abandoned_tasks.is_empty() {
        rep.machinery_error(&format!("only {evaluated} of {planned} planned cases evaluated"));
    }
    rep.finish()
}

pub fn run(tier: Tier, seed: u64) -> i32 {
    run_mode("C02", "c02", tier, seed)
}
pub fn run_c08(tier: Tier, seed: u64) -> i32 {
    run_mode("C08", "c08", tier, seed)
}

pub fn replay(w: &Value) -> i32 {
    let wit = &w["witness"];
    let tname = wit["target"].as_str().or_else(|| wit["replay"]["target"].as_str()).unwrap_or("");
    let tgs = targets();
    let Some(tg) = tgs.iter().find(|t| t.name == tname) else {
        println!("MACHINERY-ERROR: unknown target {tname}");
        return 2;
    };
    let bytes: Vec<u8> = if let Some(h) = wit["input_hex"].as_str() {
        hex::decode(h).unwrap_or_default()
    } else {
        // regenerate from (seed, class, case)
        let r = &wit["replay"];
        let seeds = (tg.seeds)();
        let si = r["seed"].as_u64().unwrap_or(0) as usize;
        let class = Class::from(r["class"].as_str().unwrap_or(""));
        let case = r["case"].as_u64().unwrap_or(0);
        let thorough = r["thorough"].as_bool().unwrap_or(false);
        let mut out = Vec::new();
        let empty = Vec::new();
        let seed = seeds.get(si).map(|s| &s.1).unwrap_or(&empty);
        for_each_case(class, seed, thorough, tg.text, case, case + 1, |_, b| out = b.to_vec());
        out
    };
    println!("replaying {} bytes on target {tname} (in-process: a panic/abort here is the reproduction)", bytes.len());
    let r = std::panic::catch_unwind(|| (tg.run)(&bytes));
    match r {
        Err(e) => {
            println!("violates: panic: {}", crate::util::panic_message(&e));
            1
        }
        Ok(ok) => {
            if ok {
                if let Some(fix) = tg.fix {
                    if let Err((k, d)) = fix(&bytes) {
                        println!("violates: {k}: {d}");
                        return 1;
                    }
                }
            }
            println!("returned accepted={ok}, no violation");
            0
        }
    }
}
