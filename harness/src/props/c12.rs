//! C12 — layered caching is coherent and never serves content that fails validation;
//! every call returns.
//!
//! SEQ engine with **isolated worker processes**: the parent enumerates every admissible
//! history (breadth-first, level by level, no state merging) over the multi-layer op
//! alphabet and streams them as JSON lines to `vcheck worker c12` subprocesses. A worker
//! builds a fresh `MultiLayerCacheImpl` in a fresh scratch directory per history, executes
//! it op by op on the real code in lock-step with the reference model below, and answers
//! with one result line per history. The heartbeat is a per-operation progress counter that
//! a watchdog thread inside the worker observes (a line per op on the pipe would cost more
//! than the op): an operation that makes no progress is reported as a `hang` line (with the
//! index of the in-flight op) and the worker exits; the parent has its own fall-back
//! timeout, restarts the worker, prunes every extension of the hanging history and
//! continues. A hang that rests on a time limit is only believed when it repeats on a
//! second, more patient execution. Hang reports are capped per configuration so that a
//! hanging tree still terminates quickly.
//!
//! Oracle (no more than the property text; every decision where the text leaves room is taken
//! in the direction of *not* alarming and is marked `DECISION` below):
//!  * a multi-layer read (`get`, `get_with_validation`, `batch_get`) answers only with a value
//!    that was put for that key since the last `remove`/`clear`/corruption drop
//!    (`served-after-*`, `served-unknown-value`), and never with a value that a newer put had
//!    already replaced as the visible answer (`stale-value-served`: eviction from the tiny
//!    first layer may make a key disappear, it may never make an older value reappear);
//!  * an entry that a layer certainly still holds (disk layer without a fault; the most
//!    recent write into a memory layer) is found (`held-entry-not-found`);
//!  * after `remove`/`clear` no layer answers (`get_from_layer`, `contains` included);
//!  * with hooks + content key: `Ok(Some(v))` only if MD5(v) = key
//!    (`unvalidated-content-returned`); after a detected corruption nothing serves the key
//!    (`served-after-corruption-detected`); a rejected `put_with_validation` is never served;
//!  * every call returns (`hang`), no panic, no abort.

use crate::report::{Level, Report, Tier};
use crate::util::{fnv64, par_map, scratch_root};
use bytes::Bytes;
use cascette_cache::config::{
    DiskCacheConfig, MemoryCacheConfig, MultiLayerCacheConfig, PromotionStrategy,
};
use cascette_cache::key::RibbitKey;
use cascette_cache::multi_layer::MultiLayerCacheImpl;
use cascette_cache::traits::{AsyncCache, MultiLayerCache};
use cascette_cache::validation::Md5ValidationHooks;
use cascette_crypto::ContentKey;
use serde::{Deserialize, Serialize};
use serde_json::{Value, json};
use std::collections::{BTreeMap, HashMap};
use std::io::{BufRead, BufReader, Write};
use std::path::{Path, PathBuf};
use std::process::{Child, ChildStdin, Command, Stdio};
use std::sync::atomic::{AtomicBool, AtomicU64, AtomicUsize, Ordering};
use std::sync::mpsc::{Receiver, RecvTimeoutError, channel};
use std::sync::{Arc, Mutex};
use std::time::{Duration, Instant};

// ---------------------------------------------------------------------------------------
// configuration and alphabet
// ---------------------------------------------------------------------------------------

const TEN_YEARS: Duration = Duration::from_secs(10 * 365 * 24 * 3600);
const ONE_HOUR: Duration = Duration::from_secs(3600);

#[derive(Clone, Copy, Debug, PartialEq, Eq, Serialize, Deserialize)]
pub struct Cfg {
    /// 2 = [Memory(1), Disk]; 3 = [Memory(1), Memory(2), Disk]
    pub layers: u8,
    /// 0 = OnHit, 1 = AfterNHits(2), 2 = Manual
    pub strategy: u8,
    /// false = the core alphabet (deeper), true = the full alphabet
    pub full: bool,
    /// true = advance the paused clock after construction so that the background tasks'
    /// first ticks run (on the still empty cache) before the history starts
    #[serde(default)]
    pub ticks: bool,
}

impl Cfg {
    fn name(&self) -> String {
        let l = if self.layers == 2 { "[Memory(1),Disk]" } else { "[Memory(1),Memory(2),Disk]" };
        let s = ["OnHit", "AfterNHits(2)", "Manual"][self.strategy as usize % 3];
        format!(
            "{l} promotion={s} alphabet={}{}",
            if self.full { "full" } else { "core" },
            if self.ticks { " background-first-ticks=fired" } else { "" }
        )
    }
    fn disk_layer(&self) -> usize {
        self.layers as usize - 1
    }
}

#[derive(Clone, Debug, PartialEq, Eq, Serialize, Deserialize)]
pub enum Op {
    Put(u8),
    /// ttl class: 0 = Duration::ZERO, 1 = one hour
    PutTtl(u8, u8),
    PutToLayer(u8, u8),
    Get(u8),
    GetFromLayer(u8, u8),
    /// key, from, to (from > to)
    Promote(u8, u8, u8),
    Remove(u8),
    Clear,
    Contains(u8),
    /// batch_get([k0, k1])
    BatchGet,
    /// 0: batch_put([(k0,v),(k1,v')]); 1: batch_put([(k0,v),(k0,v')]) — the same key twice
    BatchPut(u8),
    /// put_with_validation(k, content key, v): true = key is MD5(v), false = key of other bytes
    PutValidated(u8, bool),
    /// get_with_validation(k, ck): 0 = None, 1 = Some(MD5 of the latest value put for k),
    /// 2 = Some(MD5 of bytes that were never stored)
    GetValidated(u8, u8),
    /// fault: overwrite the disk layer's file of k with other bytes (if it exists)
    CorruptDisk(u8),
    /// fault: delete the disk layer's file of k (if it exists)
    DeleteDisk(u8),
    /// fault: make the disk layer's file of k unreadable as a cache file (its header magic is
    /// overwritten; the payload stays) — the layer's `get` then fails instead of missing
    BreakHeader(u8),
    /// the process ends and starts again: the cache object is dropped and a new
    /// `MultiLayerCacheImpl` is built on the same directories (memory layers start empty, the
    /// disk layer starts with an empty index over the files the previous instance left)
    Restart,
}

impl Op {
    fn is_fault(&self) -> bool {
        matches!(self, Op::CorruptDisk(_) | Op::DeleteDisk(_) | Op::BreakHeader(_))
    }
    fn render(&self, nm: &mut dyn FnMut(u8) -> String) -> String {
        match self {
            Op::Put(k) => format!("put({})", nm(*k)),
            Op::PutTtl(k, 0) => format!("put_with_ttl({},0s)", nm(*k)),
            Op::PutTtl(k, _) => format!("put_with_ttl({},1h)", nm(*k)),
            Op::PutToLayer(k, l) => format!("put_to_layer({},{l})", nm(*k)),
            Op::Get(k) => format!("get({})", nm(*k)),
            Op::GetFromLayer(k, l) => format!("get_from_layer({},{l})", nm(*k)),
            Op::Promote(k, f, t) => format!("promote({},{f}->{t})", nm(*k)),
            Op::Remove(k) => format!("remove({})", nm(*k)),
            Op::Clear => "clear".into(),
            Op::Contains(k) => format!("contains({})", nm(*k)),
            Op::BatchGet => {
                let a = nm(0);
                let b = nm(1);
                format!("batch_get({a},{b})")
            }
            Op::BatchPut(0) => {
                let a = nm(0);
                let b = nm(1);
                format!("batch_put({a},{b})")
            }
            Op::BatchPut(_) => {
                let a = nm(0);
                format!("batch_put({a},{a})")
            }
            Op::PutValidated(k, good) => {
                format!("put_with_validation({},{})", nm(*k), if *good { "md5" } else { "wrong-key" })
            }
            Op::GetValidated(k, m) => format!(
                "get_with_validation({},{})",
                nm(*k),
                ["None", "Some(md5-of-latest-put)", "Some(wrong-key)"][*m as usize % 3]
            ),
            Op::CorruptDisk(k) => format!("FAULT:corrupt_disk_file({})", nm(*k)),
            Op::DeleteDisk(k) => format!("FAULT:delete_disk_file({})", nm(*k)),
            Op::BreakHeader(k) => format!("FAULT:break_disk_file_header({})", nm(*k)),
            Op::Restart => "RESTART".into(),
        }
    }
}

/// The op universe of a layer count, simplest first. Deterministic; both sides (parent and
/// worker) derive it from the configuration, histories travel as index lists into it.
/// The second component says whether the op belongs to the *core* alphabet (explored one
/// level deeper); the full alphabet is the whole universe.
fn universe_tagged(layers: u8) -> Vec<(Op, bool)> {
    let l = layers;
    let mut a: Vec<(Op, bool)> = Vec::new();
    for k in 0..2 {
        a.push((Op::Put(k), true));
    }
    for k in 0..2 {
        for layer in 0..l {
            a.push((Op::PutToLayer(k, layer), true));
        }
    }
    for k in 0..2 {
        a.push((Op::Get(k), true));
    }
    for k in 0..2 {
        a.push((Op::Remove(k), true));
    }
    a.push((Op::Clear, true));
    for k in 0..2 {
        for from in 1..l {
            for to in 0..from {
                a.push((Op::Promote(k, from, to), true));
            }
        }
    }
    for k in 0..2 {
        a.push((Op::PutTtl(k, 0), true));
    }
    for k in 0..2 {
        a.push((Op::GetValidated(k, 1), true));
    }
    for k in 0..2 {
        a.push((Op::CorruptDisk(k), true));
    }
    // the observers of the final sweep; as *operations inside a history* they belong to the
    // full alphabet only
    for k in 0..2 {
        for layer in 0..l {
            a.push((Op::GetFromLayer(k, layer), false));
        }
    }
    for k in 0..2 {
        a.push((Op::Contains(k), false));
    }
    for k in 0..2 {
        a.push((Op::GetValidated(k, 0), false));
    }
    for k in 0..2 {
        a.push((Op::PutTtl(k, 1), false));
    }
    a.push((Op::BatchGet, false));
    a.push((Op::BatchPut(0), false));
    a.push((Op::BatchPut(1), false));
    for k in 0..2 {
        a.push((Op::PutValidated(k, true), false));
        a.push((Op::PutValidated(k, false), false));
    }
    for k in 0..2 {
        a.push((Op::GetValidated(k, 2), false));
    }
    for k in 0..2 {
        a.push((Op::DeleteDisk(k), false));
    }
    // appended last: the indices of everything above are part of stored witnesses
    for k in 0..2 {
        a.push((Op::BreakHeader(k), false));
    }
    // core: a restart in front of a put needs put_to_layer; restart; put; put(other) + sweep
    a.push((Op::Restart, true));
    a
}

pub fn universe(layers: u8) -> Vec<Op> {
    universe_tagged(layers).into_iter().map(|x| x.0).collect()
}

/// Indices (into the universe) of the ops a configuration enumerates.
fn enum_alphabet(cfg: &Cfg) -> Vec<u16> {
    universe_tagged(cfg.layers)
        .iter()
        .enumerate()
        .filter(|(_, (_, core))| cfg.full || *core)
        .map(|(i, _)| i as u16)
        .collect()
}

/// The observers executed after the last op of every history (not part of the history):
/// per key every layer, `contains`, and the multi-layer read that cannot be confused with the
/// op under test (`get_with_validation(k, None)`, the code path `batch_get` uses).
fn sweep_ops(cfg: &Cfg, hist: &[Op]) -> Vec<Op> {
    let mut s = Vec::new();
    // after a header fault the batch read goes first: the per-layer observers below make the disk
    // layer notice (and discard) the unreadable file, which would hide what the batch read does
    // when it is the one that runs into it
    let batch_first = hist.iter().any(|o| matches!(o, Op::BreakHeader(_)));
    if batch_first {
        s.push(Op::BatchGet);
    }
    for k in 0..2 {
        for layer in 0..cfg.layers {
            s.push(Op::GetFromLayer(k, layer));
        }
        s.push(Op::Contains(k));
        s.push(Op::GetValidated(k, 0));
    }
    // both keys in one call — one key's damaged file must not fail the other key's answer
    if !batch_first {
        s.push(Op::BatchGet);
    }
    s
}

/// Bounds beyond depth: at most two fault injections and at most one restart per history; a
/// restart is never the first operation (an empty cache restarted is an empty cache).
fn admissible(hist: &[Op]) -> bool {
    hist.iter().filter(|o| o.is_fault()).count() <= 2
        && hist.iter().filter(|o| matches!(o, Op::Restart)).count() <= 1
        && !matches!(hist.first(), Some(Op::Restart))
}

pub fn canon(hist: &[Op]) -> String {
    let mut names: Vec<u8> = Vec::new();
    let mut nm = |k: u8| -> String {
        let p = match names.iter().position(|x| *x == k) {
            Some(p) => p,
            None => {
                names.push(k);
                names.len() - 1
            }
        };
        ["a", "b", "c"][p.min(2)].to_string()
    };
    hist.iter().map(|o| o.render(&mut nm)).collect::<Vec<_>>().join(";")
}

fn plain(hist: &[Op]) -> Vec<String> {
    let mut nm = |k: u8| format!("k{k}");
    hist.iter().map(|o| o.render(&mut nm)).collect()
}

fn key_of(k: u8) -> RibbitKey {
    if k == 0 { RibbitKey::new("summary", "us") } else { RibbitKey::new("versions", "eu") }
}

fn value_bytes(seed: u64, op_index: usize, sub: usize, k: u8) -> Vec<u8> {
    // distinct per (op, sub): the value identifies the put that wrote it; the seed only
    // selects filler
    format!("c12:{:04x}:op{op_index}.{sub}:k{k}", seed & 0xffff).into_bytes()
}

fn md5_of(b: &[u8]) -> ContentKey {
    // cascette-crypto's MD5 (md-5 crate); the hooks under test use the `md5` crate
    ContentKey::from_data(b)
}

// ---------------------------------------------------------------------------------------
// reference model: latest value per key across layers, with "may hold / certainly holds"
// ---------------------------------------------------------------------------------------

#[derive(Clone, Debug)]
struct Ent {
    seq: u32,
    bytes: Vec<u8>,
    /// true: the layer certainly still holds it (disk layer, or the most recent write into a
    /// memory layer). false: a later write into the same memory layer may have evicted it
    /// (DECISION: eviction may drop any entry at any put into that layer).
    sure: bool,
}

#[derive(Clone, Copy, PartialEq)]
enum Kind {
    Memory,
    Disk,
}

struct Model {
    kinds: Vec<Kind>,
    layers: Vec<BTreeMap<u8, Ent>>,
    /// values a layer may legitimately still answer with: everything put for the key since
    /// the last remove / clear / corruption drop (placement-agnostic on purpose, so that a
    /// write-through or write-invalidate implementation is judged the same way)
    live: BTreeMap<u8, Vec<(u32, Vec<u8>)>>,
    /// values put earlier and dropped since: (bytes, why)
    dead: BTreeMap<u8, Vec<(Vec<u8>, &'static str)>>,
    /// values whose put_with_validation was given a non-matching key and still returned Ok
    rejected: Vec<Vec<u8>>,
    /// per key: the newest write that has been the visible answer; older values are superseded
    floor: BTreeMap<u8, u32>,
    last_put: BTreeMap<u8, Vec<u8>>,
    next_seq: u32,
    /// classes of events this history has shown (vacuity guard), see `EVENT_NAMES`
    events: u16,
    /// keys whose disk file was made unreadable by `BreakHeader` (sticky for the history)
    broken: std::collections::BTreeSet<u8>,
    /// sequence number of the first write after the (only) restart; 0 = no restart so far
    restart_seq: u32,
}

const EV_SLOWER_LAYER_SERVED: u16 = 1;
const EV_MISS_AFTER_EVICTION: u16 = 2;
const EV_CORRUPTION_DETECTED: u16 = 4;
const EV_VALIDATED_PUT_REJECTED: u16 = 8;
const EV_FAULT_APPLIED: u16 = 16;
const EV_PROMOTED: u16 = 32;
const EV_VALIDATED_READ_OK: u16 = 64;
const EV_SHADOWED_COPY_GONE: u16 = 128;
const EV_PREVIOUS_RUN_SERVED: u16 = 256;
const EVENT_NAMES: [&str; 9] = [
    "multi-layer read answered by a slower layer",
    "multi-layer read missed a key that an evicting layer had held",
    "get_with_validation reported corruption",
    "put_with_validation rejected a value",
    "fault changed a disk file",
    "promote copied an entry",
    "get_with_validation returned a value matching its content key",
    "a read missed although a slower layer had held a (superseded) copy",
    "after a restart a multi-layer read was answered with a value the previous instance wrote",
];

type Verdict = Result<(), (String, String)>;

fn short(b: &[u8]) -> String {
    String::from_utf8_lossy(b).chars().take(48).collect()
}

impl Model {
    fn new(cfg: &Cfg) -> Model {
        let kinds = if cfg.layers == 2 {
            vec![Kind::Memory, Kind::Disk]
        } else {
            vec![Kind::Memory, Kind::Memory, Kind::Disk]
        };
        let n = kinds.len();
        Model {
            kinds,
            layers: vec![BTreeMap::new(); n],
            live: BTreeMap::new(),
            dead: BTreeMap::new(),
            rejected: Vec::new(),
            floor: BTreeMap::new(),
            last_put: BTreeMap::new(),
            next_seq: 1,
            events: 0,
            broken: std::collections::BTreeSet::new(),
            restart_seq: 0,
        }
    }

    /// The cache object is dropped and built again on the same directories.
    fn restart(&mut self) {
        for (i, l) in self.layers.iter_mut().enumerate() {
            if self.kinds[i] == Kind::Memory {
                l.clear();
            }
        }
        // DECISION: what was the visible answer died with the memory layers; the text says
        // nothing about which of the surviving (older) copies a new instance may answer with,
        // so nothing put before the restart is "superseded" any more. Puts after the restart
        // supersede as usual — also copies the previous instance left in the disk layer.
        self.floor.clear();
        self.restart_seq = self.next_seq;
    }

    fn floor_of(&self, k: u8) -> u32 {
        self.floor.get(&k).copied().unwrap_or(0)
    }

    fn touch_memory_layer(&mut self, layer: usize, k: u8) {
        if self.kinds[layer] == Kind::Memory {
            for (kk, e) in self.layers[layer].iter_mut() {
                if *kk != k {
                    e.sure = false;
                }
            }
        }
    }

    /// A write into `layer` shadows the slower layers' copies of the key: an implementation
    /// may keep them or drop them (write-invalidate), so they are no longer *certainly* held.
    fn shadow_slower(&mut self, layer: usize, k: u8) {
        for j in layer + 1..self.layers.len() {
            if let Some(e) = self.layers[j].get_mut(&k) {
                e.sure = false;
            }
        }
    }

    /// A put of `bytes` for key `k` into `layer`.
    fn write(&mut self, layer: usize, k: u8, bytes: Vec<u8>, ttl_zero: bool) {
        let seq = self.next_seq;
        self.next_seq += 1;
        self.touch_memory_layer(layer, k);
        self.shadow_slower(layer, k);
        self.live.entry(k).or_default().push((seq, bytes.clone()));
        self.last_put.insert(k, bytes.clone());
        if ttl_zero {
            // replaces whatever the layer held for k and is expired at once
            // DECISION: an immediately expired put supersedes nothing (the text speaks of
            // values a layer "still holds")
            self.layers[layer].remove(&k);
            return;
        }
        self.layers[layer].insert(k, Ent { seq, bytes, sure: true });
        // the write is the visible answer from now on iff no faster layer may hold the key
        // DECISION: a per-layer put *below* a layer that (possibly) holds an older value does
        // not supersede that value — "searching faster layers first" then answers with the
        // faster layer's value and the text leaves that case open.
        if (0..layer).all(|j| !self.layers[j].contains_key(&k)) {
            let f = self.floor.entry(k).or_insert(0);
            *f = (*f).max(seq);
        }
    }

    fn drop_key(&mut self, k: u8, why: &'static str) {
        for l in &mut self.layers {
            l.remove(&k);
        }
        if let Some(v) = self.live.remove(&k) {
            let d = self.dead.entry(k).or_default();
            for (_, b) in v {
                d.push((b, why));
            }
        }
    }

    fn clear(&mut self) {
        for k in [0u8, 1] {
            self.drop_key(k, "clear");
        }
    }

    fn live_seq(&self, k: u8, b: &[u8]) -> Option<u32> {
        self.live.get(&k).and_then(|v| v.iter().find(|(_, x)| x == b).map(|x| x.0))
    }

    /// Why a value that is not live must not be answered.
    fn not_live_kind(&self, k: u8, b: &[u8], prefix: &str) -> (String, String) {
        if let Some((_, why)) = self.dead.get(&k).and_then(|d| d.iter().rev().find(|(x, _)| x == b)) {
            (
                format!("{prefix}-after-{why}"),
                format!("k{k}: answered {:?}, a value dropped by {why} and not put again since", short(b)),
            )
        } else {
            (
                format!("{prefix}-unknown-value"),
                format!("k{k}: answered {:?}, which was never put for this key", short(b)),
            )
        }
    }

    /// Judge the answer of a multi-layer read of `k`.
    fn judge_get(&mut self, k: u8, r: Option<&[u8]>, what: &str) -> Verdict {
        match r {
            Some(b) => {
                let Some(seq) = self.live_seq(k, b) else {
                    let (kind, d) = self.not_live_kind(k, b, "served");
                    return Err((kind, format!("{what}: {d}")));
                };
                if self.rejected.iter().any(|x| x == b) {
                    return Err((
                        "served-rejected-content".into(),
                        format!("{what}: k{k}: answered {:?}, whose put_with_validation did not match its content key", short(b)),
                    ));
                }
                let floor = self.floor_of(k);
                if seq < floor {
                    let newer = self
                        .live
                        .get(&k)
                        .and_then(|v| v.iter().find(|(s, _)| *s == floor).map(|x| short(&x.1)))
                        .unwrap_or_default();
                    return Err((
                        "stale-value-served".into(),
                        format!(
                            "{what}: k{k}: answered {:?} (put #{seq}) although the newer put #{floor} ({newer:?}) had already replaced it as the visible value — an older value reappeared",
                            short(b)
                        ),
                    ));
                }
                // narrowing: every layer in front of the first possible holder missed
                let cands: Vec<usize> =
                    (0..self.layers.len()).filter(|i| self.layers[*i].get(&k).is_some_and(|e| e.bytes == b)).collect();
                if self.restart_seq != 0 && seq < self.restart_seq {
                    self.events |= EV_PREVIOUS_RUN_SERVED;
                }
                if let Some(&j0) = cands.first() {
                    if j0 > 0 {
                        self.events |= EV_SLOWER_LAYER_SERVED;
                    }
                    for i in 0..j0 {
                        if self.layers[i].get(&k).is_some_and(|e| !e.sure) {
                            self.layers[i].remove(&k);
                        }
                    }
                    if cands.len() == 1 {
                        if let Some(e) = self.layers[j0].get_mut(&k) {
                            e.sure = true;
                        }
                    }
                }
                let f = self.floor.entry(k).or_insert(0);
                *f = (*f).max(seq);
                Ok(())
            }
            None => {
                let floor = self.floor_of(k);
                for (i, l) in self.layers.iter().enumerate() {
                    if let Some(e) = l.get(&k) {
                        // a superseded copy may be dropped or kept by the implementation
                        if e.sure && e.seq >= floor {
                            let only_slower = i > 0;
                            return Err((
                                "held-entry-not-found".into(),
                                format!(
                                    "{what}: k{k}: answered None although layer {i} holds {:?} (put #{}){}",
                                    short(&e.bytes),
                                    e.seq,
                                    if only_slower { " — an entry present in a slower layer was not found" } else { "" }
                                ),
                            ));
                        }
                    }
                }
                // nothing holds the key any more; a later answer without a new put would be
                // a reappearance
                for (i, l) in self.layers.iter().enumerate() {
                    if let Some(e) = l.get(&k) {
                        if !e.sure && self.kinds[i] == Kind::Memory {
                            self.events |= EV_MISS_AFTER_EVICTION;
                        }
                        if e.seq < floor && self.kinds[i] == Kind::Disk {
                            self.events |= EV_SHADOWED_COPY_GONE;
                        }
                    }
                }
                self.drop_key(k, "miss");
                Ok(())
            }
        }
    }

    fn judge_layer_get(&mut self, k: u8, layer: usize, r: Option<&[u8]>) -> Verdict {
        match r {
            Some(b) => {
                let Some(seq) = self.live_seq(k, b) else {
                    let (kind, d) = self.not_live_kind(k, b, "layer-answers");
                    return Err((kind, format!("get_from_layer(k{k},{layer}): {d}")));
                };
                self.layers[layer].insert(k, Ent { seq, bytes: b.to_vec(), sure: true });
                Ok(())
            }
            None => {
                // DECISION: a layer losing an entry is that layer's business (C10), not
                // judged here
                self.layers[layer].remove(&k);
                Ok(())
            }
        }
    }

    fn judge_contains(&mut self, k: u8, r: bool) -> Verdict {
        if r && self.live.get(&k).is_none_or(|v| v.is_empty()) {
            let why = self.dead.get(&k).and_then(|d| d.last()).map(|x| x.1).unwrap_or("never-put");
            return Err((
                format!("contains-after-{why}"),
                format!("contains(k{k}) = true although nothing can hold the key ({why})"),
            ));
        }
        Ok(())
    }
}

// ---------------------------------------------------------------------------------------
// worker side: execute one history on the real code, in lock-step with the model
// ---------------------------------------------------------------------------------------

static W_BUSY: AtomicBool = AtomicBool::new(false);
static W_PROGRESS: AtomicU64 = AtomicU64::new(0);
static W_CUR_ID: AtomicU64 = AtomicU64::new(0);
static W_CUR_OP: AtomicU64 = AtomicU64::new(0);
static W_STALL_MS: AtomicU64 = AtomicU64::new(0);

/// One history for a worker: `c` = [layers, strategy], `h` = indices into the op universe,
/// `f` = flags (1 = run the observer sweep after the history, 2 = return a per-op log),
/// `s` = seed (filler only).
#[derive(Serialize, Deserialize, Debug, Clone)]
struct JobLine {
    id: u64,
    c: [u8; 2],
    h: Vec<u16>,
    f: u8,
    s: u64,
    /// per-operation time limit in ms for this job (0 = the default)
    #[serde(default)]
    t: u64,
}

fn is_zero(v: &i64) -> bool {
    *v == 0
}
fn is_false(v: &bool) -> bool {
    !*v
}

#[derive(Serialize, Deserialize, Debug, Clone, Default)]
struct ResLine {
    id: u64,
    /// "ok" | "vio" | "hang"
    r: String,
    /// index of the op at fault (>= history length: index into the sweep + length)
    #[serde(default, skip_serializing_if = "is_zero")]
    at: i64,
    #[serde(default, skip_serializing_if = "String::is_empty")]
    kind: String,
    #[serde(default, skip_serializing_if = "String::is_empty")]
    detail: String,
    /// hash of everything observed
    #[serde(default)]
    o: u64,
    /// real calls executed for history ops / for sweep observers
    #[serde(default)]
    n: u64,
    #[serde(default)]
    sn: u64,
    /// the last op was a fault that touched nothing (no file): the state equals the prefix's
    #[serde(default, skip_serializing_if = "is_false")]
    noop_tail: bool,
    /// the model could not follow the implementation (not a verdict); reason
    #[serde(default, skip_serializing_if = "String::is_empty")]
    unjudged: String,
    #[serde(default, skip_serializing_if = "Vec::is_empty")]
    log: Vec<String>,
    /// event classes seen (bit set, see `EVENT_NAMES`)
    #[serde(default)]
    ev: u16,
}

fn build_cache(cfg: &Cfg, dir: &Path) -> MultiLayerCacheImpl<RibbitKey> {
    let mem = |n: usize| {
        let mut m = MemoryCacheConfig::new().with_max_entries(n).with_default_ttl(ONE_HOUR);
        m.cleanup_interval = TEN_YEARS;
        m
    };
    let mut disk = DiskCacheConfig::new(dir).with_max_files(1000).with_default_ttl(ONE_HOUR);
    disk.cleanup_interval = TEN_YEARS;
    disk.sync_interval = TEN_YEARS;
    let mut c = MultiLayerCacheConfig::new().add_memory_layer(mem(1));
    if cfg.layers == 3 {
        c = c.add_memory_layer(mem(2));
    }
    c = c.add_disk_layer(disk).with_promotion_strategy(match cfg.strategy {
        0 => PromotionStrategy::OnHit,
        1 => PromotionStrategy::AfterNHits(2),
        _ => PromotionStrategy::Manual,
    });
    let mut cache = MultiLayerCacheImpl::new(c).expect("multi-layer cache construction");
    cache.set_validation_hooks(Some(Arc::new(Md5ValidationHooks::new())));
    cache
}

fn find_file(dir: &Path, name: &str) -> Option<PathBuf> {
    let rd = std::fs::read_dir(dir).ok()?;
    for e in rd.flatten() {
        let p = e.path();
        if p.is_dir() {
            if let Some(f) = find_file(&p, name) {
                return Some(f);
            }
        } else if p.file_name().and_then(|n| n.to_str()) == Some(name) {
            return Some(p);
        }
    }
    None
}

thread_local! {
    // tokio's clock is paused and never advanced: no `interval` tick of the background
    // cleanup/sync tasks (not even the first one) can fire while a history runs. TTLs use
    // std's clocks and stay real.
    static WRT: tokio::runtime::Runtime = tokio::runtime::Builder::new_current_thread()
        .enable_all()
        .start_paused(true)
        .build()
        .expect("tokio runtime");
}

fn rt_block_on<F: std::future::Future>(f: F) -> F::Output {
    WRT.with(|rt| rt.block_on(f))
}

/// What one real call observed.
enum Obs {
    Unit(Result<(), String>),
    Val(Result<Option<Vec<u8>>, String>),
    Bool(Result<bool, String>),
    Vals(Result<Vec<Option<Vec<u8>>>, String>),
    Fault { existed: bool, old: Option<Vec<u8>>, new: Option<Vec<u8>> },
}

impl Obs {
    fn render(&self) -> String {
        let v = |o: &Option<Vec<u8>>| match o {
            Some(b) => format!("Some({:?})", short(b)),
            None => "None".to_string(),
        };
        match self {
            Obs::Unit(Ok(())) => "Ok".into(),
            Obs::Unit(Err(e)) | Obs::Val(Err(e)) | Obs::Bool(Err(e)) | Obs::Vals(Err(e)) => format!("Err({e})"),
            Obs::Val(Ok(o)) => v(o),
            Obs::Bool(Ok(b)) => format!("{b}"),
            Obs::Vals(Ok(l)) => format!("[{}]", l.iter().map(v).collect::<Vec<_>>().join(", ")),
            Obs::Fault { existed, .. } => if *existed { "file changed".into() } else { "no such file (no-op)".into() },
        }
    }
}

struct Exec<'a> {
    cfg: &'a Cfg,
    cache: Option<MultiLayerCacheImpl<RibbitKey>>,
    dir: PathBuf,
    model: Model,
    seed: u64,
}

fn es<T>(r: Result<T, cascette_cache::error::CacheError>) -> Result<T, String> {
    r.map_err(|e| {
        let s = e.to_string();
        // keep the class of the error, not run-specific text
        s.split(':').next().unwrap_or("").trim().to_string()
    })
}

impl Exec<'_> {
    /// Execute one real call.
    fn call(&mut self, op: &Op, idx: usize) -> Obs {
        if matches!(op, Op::Restart) {
            // drop inside the runtime (the background tasks are aborted there), then build the
            // next instance exactly like the first one
            let old = self.cache.take();
            rt_block_on(async {
                drop(old);
                tokio::task::yield_now().await;
            });
            self.cache = Some(construct(self.cfg, &self.dir, self.cfg.ticks));
            return Obs::Unit(Ok(()));
        }
        let c = self.cache.as_ref().expect("cache instance");
        let val = |sub: usize, k: u8| Bytes::from(value_bytes(self.seed, idx, sub, k));
        match op {
            Op::Put(k) => Obs::Unit(es(rt_block_on(c.put(key_of(*k), val(0, *k))))),
            Op::PutTtl(k, t) => {
                let ttl = if *t == 0 { Duration::ZERO } else { ONE_HOUR };
                Obs::Unit(es(rt_block_on(c.put_with_ttl(key_of(*k), val(0, *k), ttl))))
            }
            Op::PutToLayer(k, l) => Obs::Unit(es(rt_block_on(c.put_to_layer(key_of(*k), val(0, *k), *l as usize)))),
            Op::Get(k) => Obs::Val(es(rt_block_on(c.get(&key_of(*k)))).map(|o| o.map(|b| b.to_vec()))),
            Op::GetFromLayer(k, l) => {
                match rt_block_on(c.get_from_layer(&key_of(*k), *l as usize)) {
                    Ok(o) => Obs::Val(Ok(o.map(|b| b.to_vec()))),
                    // a read error of the disk layer (deleted file) is a miss of that layer
                    Err(cascette_cache::error::CacheError::Io(_)) => Obs::Val(Ok(None)),
                    Err(e) => Obs::Val(es(Err(e))),
                }
            }
            Op::Promote(k, f, t) => Obs::Bool(es(rt_block_on(c.promote(&key_of(*k), *f as usize, *t as usize)))),
            Op::Remove(k) => Obs::Bool(es(rt_block_on(c.remove(&key_of(*k))))),
            Op::Clear => Obs::Unit(es(rt_block_on(c.clear()))),
            Op::Contains(k) => Obs::Bool(es(rt_block_on(c.contains(&key_of(*k))))),
            Op::BatchGet => Obs::Vals(
                es(rt_block_on(c.batch_get(&[key_of(0), key_of(1)])))
                    .map(|l| l.into_iter().map(|o| o.map(|b| b.to_vec())).collect()),
            ),
            Op::BatchPut(v) => {
                let items = if *v == 0 {
                    vec![(key_of(0), val(0, 0)), (key_of(1), val(1, 1))]
                } else {
                    vec![(key_of(0), val(0, 0)), (key_of(0), val(1, 0))]
                };
                Obs::Unit(es(rt_block_on(c.batch_put(items))))
            }
            Op::PutValidated(k, good) => {
                let v = val(0, *k);
                let ck = if *good { md5_of(&v) } else { md5_of(b"c12: bytes that are not this value") };
                Obs::Unit(es(rt_block_on(c.put_with_validation(key_of(*k), ck, v))).map(|_| ()))
            }
            Op::GetValidated(k, m) => {
                let ck = self.content_key(*k, *m);
                Obs::Val(
                    es(rt_block_on(c.get_with_validation(&key_of(*k), ck))).map(|o| o.map(|b| b.into_bytes().to_vec())),
                )
            }
            Op::Restart => unreachable!(),
            Op::BreakHeader(k) => {
                let key = key_of(*k);
                let name = cascette_cache::key::CacheKey::as_cache_key(&key).to_string();
                match find_file(&self.dir, &name) {
                    None => Obs::Fault { existed: false, old: None, new: None },
                    Some(p) => {
                        let mut raw = std::fs::read(&p).unwrap_or_default();
                        let off = crate::util::disk_cache_payload_offset(&raw);
                        if off == 0 {
                            // a tree whose cache files carry no header: nothing to break
                            Obs::Fault { existed: false, old: None, new: None }
                        } else {
                            let old = Some(raw[off..].to_vec());
                            raw[..8].copy_from_slice(b"XXXXXXXX");
                            std::fs::write(&p, &raw).expect("fault: overwrite disk file header");
                            Obs::Fault { existed: true, old, new: None }
                        }
                    }
                }
            }
            Op::CorruptDisk(k) | Op::DeleteDisk(k) => {
                let key = key_of(*k);
                let name = cascette_cache::key::CacheKey::as_cache_key(&key).to_string();
                match find_file(&self.dir, &name) {
                    None => Obs::Fault { existed: false, old: None, new: None },
                    Some(p) => {
                        // the file is header + payload: the fault changes the payload only
                        let raw = std::fs::read(&p).unwrap_or_default();
                        let off = crate::util::disk_cache_payload_offset(&raw);
                        let old = Some(raw[off..].to_vec());
                        if matches!(op, Op::CorruptDisk(_)) {
                            let mut nb = b"CORRUPTED:".to_vec();
                            nb.extend_from_slice(&raw[off..]);
                            let mut file = raw[..off].to_vec();
                            file.extend_from_slice(&nb);
                            std::fs::write(&p, &file).expect("fault: overwrite disk file");
                            Obs::Fault { existed: true, old, new: Some(nb) }
                        } else {
                            std::fs::remove_file(&p).expect("fault: delete disk file");
                            Obs::Fault { existed: true, old, new: None }
                        }
                    }
                }
            }
        }
    }

    fn content_key(&self, k: u8, mode: u8) -> Option<ContentKey> {
        match mode {
            0 => None,
            1 => Some(md5_of(self.model.last_put.get(&k).map(Vec::as_slice).unwrap_or(b"c12: nothing was put"))),
            _ => Some(md5_of(b"c12: bytes that were never stored")),
        }
    }

    /// Update the model with the observation and judge it. `Err(Ok(reason))` = the model
    /// cannot follow (unjudged), `Err(Err((kind, detail)))` = violation.
    fn judge(&mut self, op: &Op, idx: usize, obs: &Obs) -> Result<(), Result<String, (String, String)>> {
        let vio = |v: Verdict| -> Result<(), Result<String, (String, String)>> { v.map_err(Err) };
        let m = &mut self.model;
        let val = |sub: usize, k: u8| value_bytes(self.seed, idx, sub, k);
        match (op, obs) {
            (Op::Put(k), Obs::Unit(Ok(()))) | (Op::PutTtl(k, 1), Obs::Unit(Ok(()))) => {
                m.write(0, *k, val(0, *k), false);
                Ok(())
            }
            (Op::PutTtl(k, _), Obs::Unit(Ok(()))) => {
                m.write(0, *k, val(0, *k), true);
                Ok(())
            }
            (Op::PutToLayer(k, l), Obs::Unit(Ok(()))) => {
                m.write(*l as usize, *k, val(0, *k), false);
                Ok(())
            }
            (Op::BatchPut(v), Obs::Unit(Ok(()))) => {
                if *v == 0 {
                    m.write(0, 0, val(0, 0), false);
                    m.write(0, 1, val(1, 1), false);
                } else {
                    m.write(0, 0, val(0, 0), false);
                    m.write(0, 0, val(1, 0), false);
                }
                Ok(())
            }
            (Op::PutValidated(k, good), Obs::Unit(r)) => {
                match (r, *good) {
                    (Ok(()), true) => m.write(0, *k, val(0, *k), false),
                    (Ok(()), false) => {
                        // accepted although the key does not match: never to be served
                        let b = val(0, *k);
                        m.rejected.push(b.clone());
                        m.write(0, *k, b, false);
                    }
                    // DECISION: a rejected put stores nothing; rejecting a matching value is
                    // not covered by the text and not judged
                    (Err(_), _) => m.events |= EV_VALIDATED_PUT_REJECTED,
                }
                Ok(())
            }
            (Op::Get(k), Obs::Val(Ok(r))) => vio(m.judge_get(*k, r.as_deref(), "get")),
            (Op::GetValidated(k, 0), Obs::Val(Ok(r))) => vio(m.judge_get(*k, r.as_deref(), "get_with_validation(None)")),
            (Op::BatchGet, Obs::Vals(Ok(l))) => {
                if l.len() != 2 {
                    return Err(Err(("batch-get-shape".into(), format!("batch_get of 2 keys returned {} answers", l.len()))));
                }
                vio(m.judge_get(0, l[0].as_deref(), "batch_get[0]"))?;
                vio(m.judge_get(1, l[1].as_deref(), "batch_get[1]"))
            }
            (Op::GetFromLayer(k, l), Obs::Val(Ok(r))) => vio(m.judge_layer_get(*k, *l as usize, r.as_deref())),
            (Op::Contains(k), Obs::Bool(Ok(r))) => vio(m.judge_contains(*k, *r)),
            (Op::Remove(k), Obs::Bool(Ok(_))) => {
                m.drop_key(*k, "remove");
                Ok(())
            }
            (Op::Clear, Obs::Unit(Ok(()))) => {
                m.clear();
                Ok(())
            }
            (Op::Restart, Obs::Unit(Ok(()))) => {
                m.restart();
                Ok(())
            }
            (Op::Promote(k, f, t), Obs::Bool(Ok(done))) => {
                let (f, t) = (*f as usize, *t as usize);
                if *done {
                    let Some(src) = m.layers[f].get(k).cloned() else {
                        return Err(Ok(format!("promote(k{k},{f}->{t}) = true but the model has nothing in layer {f}")));
                    };
                    if let Some(e) = m.layers[f].get_mut(k) {
                        e.sure = true;
                    }
                    m.events |= EV_PROMOTED;
                    m.touch_memory_layer(t, *k);
                    m.shadow_slower(t, *k);
                    // DECISION: a promotion is a copy, not a put: it supersedes nothing
                    m.layers[t].insert(*k, Ent { seq: src.seq, bytes: src.bytes, sure: true });
                } else {
                    m.layers[f].remove(k);
                }
                Ok(())
            }
            (Op::Promote(k, f, _), Obs::Bool(Err(e))) if e.starts_with("IO error") => {
                // the source layer could not read its file (fault): nothing was promoted and
                // the layer no longer answers for the key
                m.layers[*f as usize].remove(k);
                Ok(())
            }
            (Op::GetValidated(k, mode), Obs::Val(r)) if *mode != 0 => {
                let ck = match *mode {
                    1 => md5_of(m.last_put.get(k).map(Vec::as_slice).unwrap_or(b"c12: nothing was put")),
                    _ => md5_of(b"c12: bytes that were never stored"),
                };
                let ents: Vec<Ent> = m.layers.iter().filter_map(|l| l.get(k).cloned()).collect();
                let all_match = !ents.is_empty() && ents.iter().all(|e| md5_of(&e.bytes) == ck);
                let floor = m.floor_of(*k);
                let sure_current = ents.iter().any(|e| e.sure && e.seq >= floor);
                match r {
                    Ok(Some(b)) => {
                        if md5_of(b) != ck {
                            return Err(Err((
                                "unvalidated-content-returned".into(),
                                format!(
                                    "get_with_validation(k{k}, Some({})) returned {:?} whose MD5 is {} — hooks and content key were supplied",
                                    ck.to_hex(),
                                    short(b),
                                    md5_of(b).to_hex()
                                ),
                            )));
                        }
                        m.events |= EV_VALIDATED_READ_OK;
                        vio(m.judge_get(*k, Some(b), "get_with_validation(Some)"))
                    }
                    Ok(None) => {
                        if all_match && sure_current {
                            return Err(Err((
                                "held-entry-not-found".into(),
                                format!("get_with_validation(k{k}, Some(matching key)) = None although a layer holds the matching value"),
                            )));
                        }
                        let had_mismatch = ents.iter().any(|e| md5_of(&e.bytes) != ck);
                        m.drop_key(*k, if had_mismatch { "corruption-detected" } else { "miss" });
                        Ok(())
                    }
                    Err(_) => {
                        if all_match && sure_current {
                            return Err(Err((
                                "valid-entry-reported-corrupt".into(),
                                format!("get_with_validation(k{k}, Some(matching key)) failed although every layer that can hold the key holds the matching value"),
                            )));
                        }
                        // found corrupted: must be dropped from all layers
                        m.events |= EV_CORRUPTION_DETECTED;
                        m.drop_key(*k, "corruption-detected");
                        Ok(())
                    }
                }
            }
            (Op::CorruptDisk(k), Obs::Fault { existed, old, new })
            | (Op::DeleteDisk(k), Obs::Fault { existed, old, new })
            | (Op::BreakHeader(k), Obs::Fault { existed, old, new }) => {
                if !*existed {
                    return Ok(());
                }
                if matches!(op, Op::BreakHeader(_)) {
                    // modelled like a deleted file (the layer cannot answer with it any more);
                    // in addition reads of this key may fail from now on
                    m.broken.insert(*k);
                }
                m.events |= EV_FAULT_APPLIED;
                let d = self.cfg.disk_layer();
                match m.layers[d].get(k).cloned() {
                    Some(e) => {
                        if old.as_deref() != Some(e.bytes.as_slice()) {
                            return Err(Ok(format!("disk file of k{k} does not hold what the model expects")));
                        }
                        match new {
                            Some(nb) => {
                                m.live.entry(*k).or_default().push((e.seq, nb.clone()));
                                m.layers[d].insert(*k, Ent { seq: e.seq, bytes: nb.clone(), sure: true });
                            }
                            None => {
                                m.layers[d].remove(k);
                            }
                        }
                    }
                    None => {
                        // a file the disk layer no longer answers for (expired / superseded
                        // copy the model already dropped): the fault changes nothing visible,
                        // but a corrupted copy is a value the layer could answer with
                        if let (Some(nb), Some(ob)) = (new, old) {
                            if let Some(seq) = m.live_seq(*k, ob) {
                                m.live.entry(*k).or_default().push((seq, nb.clone()));
                            }
                        }
                    }
                }
                Ok(())
            }
            // a batch read must not fail for a healthy key because another key's file is damaged
            (Op::BatchGet, Obs::Vals(Err(e))) if !m.broken.is_empty() => {
                for kk in [0u8, 1] {
                    if m.broken.contains(&kk) {
                        continue;
                    }
                    let floor = m.floor_of(kk);
                    if let Some((i, ent)) = m.layers.iter().enumerate().find_map(|(i, l)| l.get(&kk).filter(|e| e.sure && e.seq >= floor).map(|e| (i, e.clone()))) {
                        return Err(Err((
                            "healthy-key-not-answered".into(),
                            format!(
                                "batch_get(k0,k1) failed ({e}) because the disk file of another key is damaged, although layer {i} holds {:?} (put #{}) for k{kk}, whose files were never touched",
                                short(&ent.bytes),
                                ent.seq
                            ),
                        )));
                    }
                }
                Ok(())
            }
            // reads of a key whose disk file was made unreadable may fail (DECISION: an unreadable
            // file is "found corrupted"; whether the call then reports an error or a miss is not
            // judged, and the model state does not change)
            (Op::Get(k), Obs::Val(Err(_))) | (Op::GetValidated(k, _), Obs::Val(Err(_))) | (Op::GetFromLayer(k, _), Obs::Val(Err(_))) if m.broken.contains(k) => Ok(()),
            (Op::Contains(k), Obs::Bool(Err(_))) | (Op::Remove(k), Obs::Bool(Err(_))) if m.broken.contains(k) => Ok(()),
            (Op::Promote(k, _, _), Obs::Bool(Err(_))) if m.broken.contains(k) => Ok(()),
            // errors of calls that cannot fail in this environment: not a verdict
            (_, Obs::Unit(Err(e))) | (_, Obs::Val(Err(e))) | (_, Obs::Bool(Err(e))) | (_, Obs::Vals(Err(e))) => {
                Err(Ok(format!("{op:?} failed: {e}")))
            }
            _ => Err(Ok(format!("unexpected observation shape for {op:?}"))),
        }
    }
}

/// Construct inside the runtime (the constructor spawns the background tasks) and let the
/// tasks run up to their first `tick().await`, where they stay: the runtime's clock is paused.
fn construct(cfg: &Cfg, dir: &Path, fire_first_ticks: bool) -> MultiLayerCacheImpl<RibbitKey> {
    rt_block_on(async {
        let c = build_cache(cfg, dir);
        tokio::task::yield_now().await;
        if fire_first_ticks {
            // the "immediate" first ticks are armed for the next millisecond of the paused
            // clock: let them run now (on the still empty cache, or — after a restart — on
            // what the previous instance left); the next ones are ten years away
            tokio::time::advance(Duration::from_millis(2)).await;
            tokio::task::yield_now().await;
        }
        tokio::task::yield_now().await;
        c
    })
}

fn run_history(job: &JobLine, root: &Path) -> ResLine {
    let cfg = Cfg { layers: job.c[0], strategy: job.c[1], full: true, ticks: job.f & 4 != 0 };
    let cfg = &cfg;
    let uni = universe(cfg.layers);
    let hist: Vec<Op> = job.h.iter().map(|i| uni[*i as usize].clone()).collect();
    let sweep = if job.f & 1 != 0 { sweep_ops(cfg, &hist) } else { Vec::new() };
    let verbose = job.f & 2 != 0;
    let dir = root.join(format!("h{}", job.id));
    let _ = std::fs::remove_dir_all(&dir);
    std::fs::create_dir_all(&dir).expect("scratch dir");

    let mut res = ResLine { id: job.id, r: "ok".into(), ..Default::default() };
    W_STALL_MS.store(if job.t == 0 { stall_ms() } else { job.t }, Ordering::SeqCst);
    W_CUR_ID.store(job.id, Ordering::SeqCst);
    W_CUR_OP.store(u64::MAX, Ordering::SeqCst);
    W_PROGRESS.fetch_add(1, Ordering::SeqCst);
    W_BUSY.store(true, Ordering::SeqCst);

    let cache = construct(cfg, &dir, job.f & 4 != 0);
    let mut ex = Exec { cfg, cache: Some(cache), dir: dir.clone(), model: Model::new(cfg), seed: job.s };
    let mut obs_hash: u64 = 0xcbf2_9ce4_8422_2325;

    let total = hist.len() + sweep.len();
    for i in 0..total {
        let in_sweep = i >= hist.len();
        let op = if in_sweep { &sweep[i - hist.len()] } else { &hist[i] };
        W_CUR_OP.store(i as u64, Ordering::SeqCst);
        W_PROGRESS.fetch_add(1, Ordering::SeqCst);
        let obs = std::panic::catch_unwind(std::panic::AssertUnwindSafe(|| ex.call(op, i)));
        W_PROGRESS.fetch_add(1, Ordering::SeqCst);
        if in_sweep {
            res.sn += 1;
        } else {
            res.n += 1;
        }
        let obs = match obs {
            Ok(o) => o,
            Err(e) => {
                let loc = crate::util::take_last_panic_loc().unwrap_or_default();
                res.r = "vio".into();
                res.at = i as i64;
                res.kind = "panic".into();
                res.detail = format!(
                    "{op:?} panicked at {}: {}",
                    crate::util::norm_loc(&loc),
                    crate::util::norm_msg(&crate::util::panic_message(&e))
                );
                break;
            }
        };
        let rendered = obs.render();
        if verbose {
            let mut nm = |k: u8| format!("k{k}");
            res.log.push(format!("{}{} -> {rendered}", if in_sweep { "(observer) " } else { "" }, op.render(&mut nm)));
        }
        obs_hash = fnv64(format!("{obs_hash:x}{rendered}").as_bytes());
        if !in_sweep && i + 1 == hist.len() {
            if let Obs::Fault { existed: false, .. } = obs {
                res.noop_tail = true;
            }
        }
        match ex.judge(op, i, &obs) {
            Ok(()) => {}
            Err(Ok(reason)) => {
                res.unjudged = reason;
                break;
            }
            Err(Err((kind, detail))) => {
                res.r = "vio".into();
                res.at = i as i64;
                res.kind = kind;
                res.detail = detail;
                break;
            }
        }
    }
    W_BUSY.store(false, Ordering::SeqCst);
    res.ev = ex.model.events;
    drop(ex);
    // let the runtime drop the aborted background tasks
    rt_block_on(async { tokio::task::yield_now().await });
    let _ = std::fs::remove_dir_all(&dir);
    res.o = obs_hash;
    res
}

fn stall_ms() -> u64 {
    std::env::var("VERIF_C12_STALL_MS").ok().and_then(|s| s.parse().ok()).unwrap_or(2500)
}

/// `true` iff the syscall line of a thread shows an *untimed* futex wait.
fn is_untimed_futex_wait(line: &str) -> bool {
    let f: Vec<&str> = line.split_whitespace().collect();
    if f.len() < 5 {
        return false;
    }
    let nr: i64 = f[0].parse().unwrap_or(-1);
    if nr != libc::SYS_futex as i64 {
        return false;
    }
    let hex = |s: &str| u64::from_str_radix(s.trim_start_matches("0x"), 16).unwrap_or(u64::MAX);
    let cmd = hex(f[2]) & 0x7f;
    (cmd == 0 || cmd == 9) && hex(f[4]) == 0
}

/// Watchdog: reports the in-flight op as a hang when it makes no progress, then exits.
///
/// Fast path: the executing thread sits in the same untimed futex wait over many consecutive
/// polls and this watchdog is the only other thread of the process — nobody can ever wake it
/// (this is what a re-entered `std::sync::RwLock` looks like), so waiting longer proves
/// nothing. Slow path: no progress for `stall_ms()`.
fn watchdog(main_tid: i64) {
    let fast = std::env::var_os("VERIF_C12_NO_FUTEX_PROOF").is_none();
    let sys_path = format!("/proc/self/task/{main_tid}/syscall");
    let mut last = u64::MAX;
    let mut since = Instant::now();
    let mut futex_polls = 0u32;
    let mut last_line = String::new();
    loop {
        std::thread::sleep(Duration::from_millis(5));
        if !W_BUSY.load(Ordering::SeqCst) {
            last = u64::MAX;
            futex_polls = 0;
            continue;
        }
        let p = W_PROGRESS.load(Ordering::SeqCst);
        if p != last {
            last = p;
            since = Instant::now();
            futex_polls = 0;
            continue;
        }
        let mut why = "";
        if fast {
            let line = std::fs::read_to_string(&sys_path).unwrap_or_default();
            let threads = std::fs::read_dir("/proc/self/task").map(|d| d.count()).unwrap_or(99);
            if threads == 2 && is_untimed_futex_wait(&line) && (futex_polls == 0 || line == last_line) {
                futex_polls += 1;
                last_line = line;
            } else {
                futex_polls = 0;
            }
            if futex_polls >= 12 && since.elapsed() >= Duration::from_millis(60) {
                why = "blocked forever: the only executing thread waits on a lock (untimed futex wait) that no other thread can release";
            }
        }
        if why.is_empty() && since.elapsed() >= Duration::from_millis(W_STALL_MS.load(Ordering::SeqCst).max(100)) {
            why = "no progress within the per-operation time limit";
        }
        if !why.is_empty() {
            // make sure it is still the same operation
            if W_PROGRESS.load(Ordering::SeqCst) != p || !W_BUSY.load(Ordering::SeqCst) {
                continue;
            }
            let cur = W_CUR_OP.load(Ordering::SeqCst);
            let line = serde_json::to_string(&ResLine {
                id: W_CUR_ID.load(Ordering::SeqCst),
                r: "hang".into(),
                at: if cur == u64::MAX { -1 } else { cur as i64 },
                kind: "hang".into(),
                detail: why.into(),
                ..Default::default()
            })
            .unwrap()
                + "\n";
            // raw write: the executing thread may never release anything again
            #[allow(unsafe_code)]
            unsafe {
                libc::write(1, line.as_ptr().cast(), line.len());
                libc::_exit(3);
            }
        }
    }
}

/// Entry point of `vcheck worker c12 <scratch-dir>`.
pub fn worker_main() -> i32 {
    crate::util::install_quiet_panic_hook();
    let args: Vec<String> = std::env::args().collect();
    let root = PathBuf::from(args.get(3).cloned().unwrap_or_else(|| scratch_root().join("c12w").display().to_string()));
    let _ = std::fs::create_dir_all(&root);
    #[allow(unsafe_code)]
    let tid = unsafe { libc::syscall(libc::SYS_gettid) } as i64;
    std::thread::spawn(move || watchdog(tid));

    // tokio's paused clock starts on a millisecond boundary, where a timer armed for "now"
    // fires at once; half a millisecond off the boundary such a timer is armed for the next
    // millisecond and — the clock standing still — never fires unless the clock is advanced
    rt_block_on(async { tokio::time::advance(Duration::from_micros(500)).await });

    let stdin = std::io::stdin();
    let stdout = std::io::stdout();
    let mut line = String::new();
    let mut rd = stdin.lock();
    loop {
        line.clear();
        match rd.read_line(&mut line) {
            Ok(0) | Err(_) => break,
            Ok(_) => {}
        }
        let t = line.trim();
        if t.is_empty() {
            continue;
        }
        let job: JobLine = match serde_json::from_str(t) {
            Ok(j) => j,
            Err(e) => {
                eprintln!("c12 worker: bad job line: {e}");
                return 2;
            }
        };
        let res = run_history(&job, &root);
        let mut out = stdout.lock();
        let _ = serde_json::to_writer(&mut out, &res);
        let _ = out.write_all(b"\n");
        let _ = out.flush();
    }
    0
}

// ---------------------------------------------------------------------------------------
// parent side: worker pool
// ---------------------------------------------------------------------------------------

struct Worker {
    child: Child,
    stdin: ChildStdin,
    rx: Receiver<String>,
    next_id: u64,
}

impl Drop for Worker {
    fn drop(&mut self) {
        let _ = self.child.kill();
        let _ = self.child.wait();
    }
}

struct Pool {
    exe: PathBuf,
    idle: Mutex<Vec<Worker>>,
    spawned: AtomicU64,
    seed: u64,
    parent_timeout: Duration,
    suspects_reexecuted: AtomicU64,
    transient_stalls: AtomicU64,
}

#[derive(Clone, Debug)]
enum Outcome {
    Done(ResLine),
    /// the worker reported a hang or stopped answering; `at` = op index, -1 if unknown;
    /// `proof` = the worker showed that the executing thread can never be woken (as opposed
    /// to a time limit, which machine load can trip)
    Hang { at: i64, why: String, proof: bool },
    /// the worker died without a hang report (abort, signal)
    Died { status: String },
}

#[derive(Clone)]
struct Job {
    cfg: Cfg,
    h: Vec<u16>,
    sweep: bool,
    verbose: bool,
    /// re-execution of a suspected hang: four times the per-operation time limit
    patient: bool,
}

const PATIENCE: u64 = 4;

impl Pool {
    fn new(seed: u64) -> Pool {
        Pool {
            exe: std::env::current_exe().expect("current_exe"),
            idle: Mutex::new(Vec::new()),
            spawned: AtomicU64::new(0),
            seed,
            parent_timeout: Duration::from_millis(stall_ms() + 4000),
            suspects_reexecuted: AtomicU64::new(0),
            transient_stalls: AtomicU64::new(0),
        }
    }

    fn spawn(&self) -> Worker {
        let n = self.spawned.fetch_add(1, Ordering::Relaxed);
        let dir = scratch_root().join(format!("c12-w{n}"));
        let _ = std::fs::create_dir_all(&dir);
        let mut child = Command::new(&self.exe)
            .arg("worker")
            .arg("c12")
            .arg(&dir)
            // belt and braces: should the disk layer's sync task ever get to run, its
            // `sync(1)` spawn fails instead of flushing every file system of the machine
            .env("PATH", "/nonexistent-c12")
            .stdin(Stdio::piped())
            .stdout(Stdio::piped())
            .stderr(Stdio::null())
            .spawn()
            .expect("spawn c12 worker");
        let stdin = child.stdin.take().expect("worker stdin");
        let stdout = child.stdout.take().expect("worker stdout");
        let (tx, rx) = channel();
        std::thread::spawn(move || {
            let mut rd = BufReader::new(stdout);
            let mut line = String::new();
            loop {
                line.clear();
                match rd.read_line(&mut line) {
                    Ok(0) | Err(_) => break,
                    Ok(_) => {
                        if tx.send(line.trim().to_string()).is_err() {
                            break;
                        }
                    }
                }
            }
        });
        Worker { child, stdin, rx, next_id: 1 }
    }

    fn take(&self) -> Worker {
        if let Some(w) = self.idle.lock().unwrap().pop() {
            return w;
        }
        self.spawn()
    }

    fn give(&self, w: Worker) {
        self.idle.lock().unwrap().push(w);
    }

    /// Execute the jobs in order on one worker (restarted as often as needed).
    fn exec(&self, jobs: &[Job]) -> Vec<Outcome> {
        let mut out: Vec<Option<Outcome>> = vec![None; jobs.len()];
        let mut w = self.take();
        let mut start = 0usize;
        let mut send_failures = 0;
        // a batch stays well below the pipe capacity in both directions
        const BATCH: usize = 160;
        while start < jobs.len() {
            let end = (start + BATCH).min(jobs.len());
            let first_id = w.next_id;
            let mut buf = Vec::new();
            for (n, j) in jobs[start..end].iter().enumerate() {
                let jl = JobLine {
                    id: first_id + n as u64,
                    c: [j.cfg.layers, j.cfg.strategy],
                    h: j.h.clone(),
                    f: u8::from(j.sweep) | (u8::from(j.verbose) << 1) | (u8::from(j.cfg.ticks) << 2),
                    s: self.seed,
                    t: if j.patient { stall_ms() * PATIENCE } else { 0 },
                };
                serde_json::to_writer(&mut buf, &jl).unwrap();
                buf.push(b'\n');
            }
            w.next_id += (end - start) as u64;
            let send_ok = w.stdin.write_all(&buf).and_then(|_| w.stdin.flush()).is_ok();
            let mut failed_at: Option<usize> = None;
            if !send_ok {
                failed_at = Some(start);
            } else {
                for n in start..end {
                    let want = first_id + (n - start) as u64;
                    let limit = if jobs[n].patient { self.parent_timeout * PATIENCE as u32 } else { self.parent_timeout };
                    match w.rx.recv_timeout(limit) {
                        Ok(line) => match serde_json::from_str::<ResLine>(&line) {
                            Ok(r) if r.id == want && r.r == "hang" => {
                                let proof = r.detail.starts_with("blocked forever");
                                out[n] = Some(Outcome::Hang { at: r.at, why: r.detail, proof });
                                failed_at = Some(n + 1);
                                break;
                            }
                            Ok(r) if r.id == want => out[n] = Some(Outcome::Done(r)),
                            _ => {
                                out[n] = Some(Outcome::Died {
                                    status: format!("unparsable or out-of-order worker answer: {}", line.chars().take(120).collect::<String>()),
                                });
                                failed_at = Some(n + 1);
                                break;
                            }
                        },
                        Err(RecvTimeoutError::Timeout) => {
                            out[n] = Some(Outcome::Hang {
                                at: -1,
                                why: "the worker process stopped answering (killed by the parent's time limit)".into(),
                                proof: false,
                            });
                            failed_at = Some(n + 1);
                            break;
                        }
                        Err(RecvTimeoutError::Disconnected) => {
                            let _ = w.child.kill();
                            let st = w.child.wait().map(|s| format!("{s}")).unwrap_or_default();
                            out[n] = Some(Outcome::Died { status: st });
                            failed_at = Some(n + 1);
                            break;
                        }
                    }
                }
            }
            match failed_at {
                None => start = end,
                Some(resume) => {
                    drop(w);
                    w = self.spawn();
                    if resume == start && !send_ok {
                        // could not even send: the fresh worker gets the same batch
                        send_failures += 1;
                        assert!(send_failures < 5, "c12: cannot talk to worker processes");
                        continue;
                    }
                    start = resume;
                }
            }
        }
        self.give(w);
        out.into_iter().map(|o| o.expect("every job answered")).collect()
    }

    /// Execute one history. A hang that rests on a time limit, and a dead worker, are only
    /// believed if they happen again on a second, four times more patient execution
    /// (machine load can stall a healthy worker for seconds); otherwise the second
    /// execution's answer is the answer.
    fn exec_one(&self, cfg: Cfg, h: &[u16], sweep: bool, verbose: bool) -> Outcome {
        let first = self.exec(&[Job { cfg, h: h.to_vec(), sweep, verbose, patient: false }]).pop().unwrap();
        self.confirm(first, cfg, h, sweep, verbose)
    }

    fn confirm(&self, first: Outcome, cfg: Cfg, h: &[u16], sweep: bool, verbose: bool) -> Outcome {
        match first {
            Outcome::Hang { proof: false, .. } | Outcome::Died { .. } => {
                self.suspects_reexecuted.fetch_add(1, Ordering::Relaxed);
                let second = self.exec(&[Job { cfg, h: h.to_vec(), sweep, verbose, patient: true }]).pop().unwrap();
                if matches!(second, Outcome::Done(_)) {
                    self.transient_stalls.fetch_add(1, Ordering::Relaxed);
                }
                second
            }
            other => other,
        }
    }

    fn shutdown(&self) {
        self.idle.lock().unwrap().clear();
    }
}

// ---------------------------------------------------------------------------------------
// parent side: breadth-first exploration
// ---------------------------------------------------------------------------------------

/// Kind of the violation a history shows (None = none), for minimisation.
fn kind_of(o: &Outcome) -> Option<String> {
    match o {
        Outcome::Done(r) if r.r == "vio" => Some(r.kind.clone()),
        Outcome::Done(_) => None,
        Outcome::Hang { .. } => Some("hang".into()),
        Outcome::Died { .. } => Some("abort".into()),
    }
}

/// Normal form of a violating history, executed on workers:
/// 1. 1-minimal core under op removal (same scheme as `seq::minimise`);
/// 2. every op replaced by the simplest op (earliest in the universe) that still shows a
///    violation of the same kind — so that the many spellings of one defect (which put
///    flavour wrote the value, which write evicted it, which read observed it) share one
///    signature, while a defect that needs a particular API keeps naming it;
/// repeated until nothing changes.
fn normal_form(pool: &Pool, cfg: Cfg, uni: &[Op], hist: &[u16], kind: &str, ctl: &Ctl) -> Vec<u16> {
    let ops = |h: &[u16]| -> Vec<Op> { h.iter().map(|i| uni[*i as usize].clone()).collect() };
    let still = |h: &[u16]| -> bool {
        if !admissible(&ops(h)) {
            return false;
        }
        ctl.minimise_execs.fetch_add(1, Ordering::Relaxed);
        kind_of(&pool.exec_one(cfg, h, false, false)).as_deref() == Some(kind)
    };
    let remove_pass = |start: Vec<u16>, try_suffix: bool| -> Vec<u16> {
        let mut cur = start.clone();
        if try_suffix {
            for s in (1..start.len()).rev() {
                if still(&start[s..]) {
                    cur = start[s..].to_vec();
                    break;
                }
            }
        }
        loop {
            let mut changed = false;
            let mut i = 0;
            while i < cur.len() {
                let mut cand = cur.clone();
                cand.remove(i);
                if still(&cand) {
                    cur = cand;
                    changed = true;
                } else {
                    i += 1;
                }
            }
            if !changed {
                return cur;
            }
        }
    };
    let mut cur = remove_pass(hist.to_vec(), true);
    for _round in 0..3 {
        let key = format!("L{}|{kind}|{}", cfg.layers, canon(&ops(&cur)));
        if let Some(nf) = ctl.nf_cache.lock().unwrap().get(&key).cloned() {
            // same removal core up to key renaming: its normal form has the same canonical
            // rendering, which is all the signature uses
            return nf;
        }
        let before = cur.clone();
        for pos in 0..cur.len() {
            for cand_idx in 0..cur[pos] {
                let mut cand = cur.clone();
                cand[pos] = cand_idx;
                if still(&cand) {
                    cur = cand;
                    break;
                }
            }
        }
        let after_removal = remove_pass(cur.clone(), false);
        let changed = after_removal != before;
        cur = after_removal;
        if !changed {
            ctl.nf_cache.lock().unwrap().insert(key, cur.clone());
            break;
        }
    }
    cur
}

struct Found {
    /// the violating history (sweep observer appended if the sweep found it)
    h: Vec<u16>,
    kind: String,
    detail: String,
}

struct Ctl {
    hang_total: AtomicUsize,
    hang_cap_per_cfg: usize,
    minimised: AtomicUsize,
    minimise_cap: usize,
    minimise_execs: AtomicU64,
    sig_cache: Mutex<HashMap<String, String>>,
    nf_cache: Mutex<HashMap<String, Vec<u16>>>,
    deadline: Instant,
}

#[derive(Default)]
struct CfgStats {
    histories: u64,
    ops: u64,
    sweep_calls: u64,
    violating: u64,
    hanging: u64,
    unjudged: u64,
    noop_pruned: u64,
    completed_depth: usize,
    stopped: bool,
    events: [u64; 9],
}

fn explore_cfg(pool: &Pool, cfg: Cfg, depth: usize, rep: &Report, ctl: &Ctl) -> CfgStats {
    let uni = universe(cfg.layers);
    let alpha = enum_alphabet(&cfg);
    let to_ops = |h: &[u16]| -> Vec<Op> { h.iter().map(|i| uni[*i as usize].clone()).collect() };
    // universe index of the i-th observer of the sweep that follows history `h`
    let sweep_idx_of = |h: &[u16], i: usize| -> u16 {
        let sweep = sweep_ops(&cfg, &to_ops(h));
        uni.iter().position(|a| *a == sweep[i]).expect("sweep op in universe") as u16
    };
    let mut st = CfgStats::default();
    let mut frontier: Vec<Vec<u16>> = vec![vec![]];
    let unjudged_samples: Mutex<Vec<String>> = Mutex::new(Vec::new());
    let hang_here = AtomicUsize::new(0);
    let stop = AtomicBool::new(false);

    for level in 1..=depth {
        if frontier.is_empty() {
            st.completed_depth = depth;
            break;
        }
        let last_level = level == depth;
        // chunks of frontier entries; each chunk is one sequence of jobs on one worker
        let chunk = if frontier.len() < 64 { 1 } else { 8 };
        let n_chunks = frontier.len().div_ceil(chunk);
        let timed_out = AtomicBool::new(false);
        let results = par_map(n_chunks, |ci| {
            let mut children: Vec<Vec<u16>> = Vec::new();
            let mut found: Vec<Found> = Vec::new();
            let mut s = CfgStats::default();
            let mut outcomes: Vec<u64> = Vec::new();
            if stop.load(Ordering::Relaxed) {
                return (children, found, s, outcomes);
            }
            if Instant::now() > ctl.deadline {
                timed_out.store(true, Ordering::Relaxed);
                return (children, found, s, outcomes);
            }
            let mut jobs: Vec<Job> = Vec::new();
            for base in &frontier[ci * chunk..((ci + 1) * chunk).min(frontier.len())] {
                let mut ops: Vec<Op> = to_ops(base);
                for ai in &alpha {
                    ops.push(uni[*ai as usize].clone());
                    if admissible(&ops) {
                        let mut h = base.clone();
                        h.push(*ai);
                        jobs.push(Job { cfg, h, sweep: true, verbose: false, patient: false });
                    }
                    ops.pop();
                }
            }
            let res = pool.exec(&jobs);
            for (job, o) in jobs.iter().zip(res) {
                s.histories += 1;
                let o = pool.confirm(o, cfg, &job.h, true, false);
                match o {
                    Outcome::Done(r) => {
                        s.ops += r.n;
                        s.sweep_calls += r.sn;
                        for b in 0..9 {
                            if r.ev & (1 << b) != 0 {
                                s.events[b] += 1;
                            }
                        }
                        outcomes.push(r.o);
                        if r.r == "vio" {
                            s.violating += 1;
                            let mut h = job.h.clone();
                            let at = r.at as usize;
                            if at >= job.h.len() {
                                // found by the final sweep: the observer becomes the last op
                                // of the reported history; the state is observably bad and,
                                // like every violating history, is not extended
                                h.push(sweep_idx_of(&job.h, at - job.h.len()));
                            } else if at + 1 != job.h.len() {
                                rep.bump("violations_reported_at_earlier_index", 1);
                            }
                            found.push(Found { h, kind: r.kind, detail: r.detail });
                        } else if !r.unjudged.is_empty() {
                            s.unjudged += 1;
                            let mut g = unjudged_samples.lock().unwrap();
                            if g.len() < 5 {
                                g.push(format!("{} :: {}", plain(&to_ops(&job.h)).join("; "), r.unjudged));
                            }
                        } else if r.noop_tail {
                            // the fault touched nothing: same state as the prefix, whose
                            // extensions are explored anyway
                            s.noop_pruned += 1;
                        } else if !last_level {
                            children.push(job.h.clone());
                        }
                    }
                    Outcome::Hang { at, why, .. } => {
                        s.hanging += 1;
                        ctl.hang_total.fetch_add(1, Ordering::Relaxed);
                        if hang_here.fetch_add(1, Ordering::Relaxed) + 1 >= ctl.hang_cap_per_cfg {
                            stop.store(true, Ordering::Relaxed);
                        }
                        let mut h = job.h.clone();
                        let mut where_ = String::new();
                        if at >= 0 {
                            let at = at as usize;
                            if at >= job.h.len() {
                                h.push(sweep_idx_of(&job.h, at - job.h.len()));
                            } else {
                                h.truncate(at + 1);
                            }
                            let mut nm = |k: u8| format!("k{k}");
                            where_ = format!("{} (op {at}) never returned: ", uni[*h.last().unwrap() as usize].render(&mut nm));
                        }
                        found.push(Found { h, kind: "hang".into(), detail: format!("{where_}{why}") });
                    }
                    Outcome::Died { status } => {
                        s.violating += 1;
                        found.push(Found {
                            h: job.h.clone(),
                            kind: "abort".into(),
                            detail: format!("the worker process died while executing the history: {status}"),
                        });
                    }
                }
            }
            (children, found, s, outcomes)
        });

        let mut next: Vec<Vec<u16>> = Vec::new();
        let mut all_found: Vec<Found> = Vec::new();
        for (children, found, s, outcomes) in results {
            next.extend(children);
            all_found.extend(found);
            st.histories += s.histories;
            st.ops += s.ops;
            st.sweep_calls += s.sweep_calls;
            st.violating += s.violating;
            st.hanging += s.hanging;
            st.unjudged += s.unjudged;
            st.noop_pruned += s.noop_pruned;
            for b in 0..9 {
                st.events[b] += s.events[b];
            }
            for o in outcomes {
                rep.add_outcome(o);
            }
        }

        // signatures: normal form (in parallel), replay of the normal form, report
        let sigs = par_map(all_found.len(), |fi| {
            let f = &all_found[fi];
            let full = format!("L{}|{}|{}", cfg.layers, f.kind, canon(&to_ops(&f.h)));
            if let Some(s) = ctl.sig_cache.lock().unwrap().get(&full).cloned() {
                return (s, None);
            }
            let n = ctl.minimised.fetch_add(1, Ordering::Relaxed);
            let core = if n < ctl.minimise_cap { normal_form(pool, cfg, &uni, &f.h, &f.kind, ctl) } else { f.h.clone() };
            let core_ops = to_ops(&core);
            let sig = format!("C12|{}|{}", f.kind, canon(&core_ops));
            ctl.sig_cache.lock().unwrap().insert(full, sig.clone());
            (sig, Some(core))
        });
        let mut reported_now: HashMap<String, ()> = HashMap::new();
        for (f, (sig, core)) in all_found.iter().zip(sigs) {
            let first_time = core.is_some() && !rep.violations_snapshot().iter().any(|v| v.sig == sig) && !reported_now.contains_key(&sig);
            if !first_time {
                rep.violation(&f.kind, &sig, json!(null), &f.detail);
                continue;
            }
            reported_now.insert(sig.clone(), ());
            let core = core.unwrap();
            let core_ops = to_ops(&core);
            // replay before report
            ctl.minimise_execs.fetch_add(1, Ordering::Relaxed);
            let again = pool.exec_one(cfg, &core, false, true);
            if kind_of(&again).as_deref() != Some(f.kind.as_str()) {
                rep.machinery_error(&format!("violation did not reproduce on replay: {sig}"));
            }
            let (log, detail) = match &again {
                Outcome::Done(r) => (r.log.clone(), if r.detail.is_empty() { f.detail.clone() } else { r.detail.clone() }),
                _ => (Vec::new(), f.detail.clone()),
            };
            rep.violation(
                &f.kind,
                &sig,
                json!({
                    "config": cfg,
                    "config_name": cfg.name(),
                    "history": plain(&to_ops(&f.h)),
                    "core": plain(&core_ops),
                    "core_ops": core_ops,
                    "observed_on_replay": log,
                }),
                &detail,
            );
        }

        if stop.load(Ordering::Relaxed) || timed_out.load(Ordering::Relaxed) {
            let why = if stop.load(Ordering::Relaxed) {
                format!("hang cap ({} hanging histories per configuration) reached", ctl.hang_cap_per_cfg)
            } else {
                "wall-clock budget hit".to_string()
            };
            rep.cap_hit(&format!("{}: {why} inside depth {level}; depths < {level} fully covered", cfg.name()));
            st.stopped = true;
            break;
        }
        st.completed_depth = level;
        if let Some(h) = next.get(next.len() / 2).or(frontier.first()) {
            rep.sample(json!({"config": cfg.name(), "depth": h.len(), "history": plain(&to_ops(h))}));
        }
        frontier = next;
    }
    for u in unjudged_samples.into_inner().unwrap() {
        rep.sample(json!({"config": cfg.name(), "unjudged": u}));
    }
    st
}

pub fn run(tier: Tier, seed: u64) -> i32 {
    let rep = Report::new("C12", tier, seed, Level::ModelChecking);
    rep.set_rule(
        "every admissible history (≤2 fault injections, ≤1 RESTART — the cache object dropped and a new MultiLayerCacheImpl built on the same directories, never as first operation) up to the depth bound over the multi-layer op alphabet × keys {k0,k1}, per layer configuration and promotion strategy (full alphabet to depth d, core alphabet — put, put_to_layer, get, remove, clear, promote, put_with_ttl(0), get_with_validation(md5), corrupt, RESTART — to depth d+1); each history is executed on a fresh real MultiLayerCacheImpl (fresh scratch directory, MD5 hooks installed) inside an isolated worker process, in lock-step with a latest-value-per-key model, and followed by an observer sweep (every layer, contains, multi-layer read, for both keys); no state merging (tracker, LRU stamps and counters are hidden state), so states = histories; a history whose last op is a fault that found no file is counted but not extended (the call touched nothing: its state is its prefix's); violating histories are not extended; every history is distinct and non-trivial (≥1 operation, judged by the model)",
    );
    rep.assume("reference model: per layer key → (value, certainly/possibly held); a write into a memory layer makes every other entry of that layer 'possibly held' (eviction may drop any entry); the disk layer (max_files 1000, TTL 1 h) holds what was written unless a fault removed it; RESTART empties the memory layers of the model, keeps the disk layer's holdings, and forgets which value had been the visible answer (nothing put before the restart counts as superseded afterwards; puts after it supersede as usual)");
    rep.assume("background tasks: both intervals are ten years and tokio's clock is paused in the worker runtime (offset half a millisecond from the boundary), so no interval tick — not even the first, 'immediate' one, which tokio arms for the next millisecond — fires during a history; in the 'background-first-ticks=fired' configurations the clock is advanced by 2 ms right after construction so that the first ticks run on the still empty cache (the disk layer's `sync(1)` spawn fails there: workers get an empty PATH); std clocks (TTL) are real; the cleanup/sync tasks themselves are not explored");
    rep.assume("hang verdict: the single executing thread of the worker sits in the same untimed futex wait over ≥12 polls/60 ms while no other thread exists that could release it (exact), or no progress of the in-flight operation for the per-operation limit (2.5 s) *and again* for four times that limit on a second execution of the same history (a stall that does not repeat is counted as transient machine load, not as a verdict)");
    rep.assume("MD5 of the oracle is cascette-crypto's ContentKey::from_data (md-5 crate); the hooks under test use the md5 crate");

    let pool = Pool::new(seed);
    let ctl = Ctl {
        hang_total: AtomicUsize::new(0),
        hang_cap_per_cfg: tier.pick(40, 80),
        minimised: AtomicUsize::new(0),
        minimise_cap: 20_000,
        minimise_execs: AtomicU64::new(0),
        sig_cache: Mutex::new(HashMap::new()),
        nf_cache: Mutex::new(HashMap::new()),
        deadline: Instant::now() + Duration::from_secs(tier.pick(90, 1500)),
    };

    // plan: (configuration, depth). The promotion strategy only feeds should_promote(), whose
    // verdict the code under test does not act on (automatic promotion is deferred), so the
    // deepest level is run for every strategy on two layers and for OnHit on three layers.
    let mut plan: Vec<(Cfg, usize)> = Vec::new();
    let (d_full, d_core) = tier.pick((3, 4), (4, 5));
    for full in [true, false] {
        for layers in [2u8, 3] {
            for strategy in [0u8, 1, 2] {
                let mut d = if full { d_full } else { d_core };
                if tier == Tier::Thorough && layers == 3 && strategy != 0 {
                    d -= 1;
                }
                plan.push((Cfg { layers, strategy, full, ticks: false }, d));
            }
        }
    }
    // the same alphabet with the background tasks' first ticks fired before the history
    for layers in [2u8, 3] {
        plan.push((Cfg { layers, strategy: 0, full: true, ticks: true }, d_full - 1));
    }
    // debugging aid: VERIF_C12_PLAN="layers,strategy,full(0|1),depth;..." replaces the plan
    // (the evidence then says so and is not exhaustive for the tier)
    if let Ok(p) = std::env::var("VERIF_C12_PLAN") {
        plan.clear();
        for item in p.split(';').filter(|x| !x.trim().is_empty()) {
            let f: Vec<usize> = item.split(',').filter_map(|x| x.trim().parse().ok()).collect();
            if f.len() == 4 {
                plan.push((Cfg { layers: f[0] as u8, strategy: f[1] as u8, full: f[2] != 0, ticks: false }, f[3]));
            }
        }
        rep.cap_hit(&format!("VERIF_C12_PLAN override in effect: {p}"));
    }

    let mut per_cfg = Vec::new();
    let (mut histories, mut ops, mut sweeps, mut unjudged) = (0u64, 0u64, 0u64, 0u64);
    let mut events = [0u64; 9];
    for (cfg, depth) in plan {
        let t0 = Instant::now();
        let st = explore_cfg(&pool, cfg, depth, &rep, &ctl);
        per_cfg.push(json!({
            "config": cfg.name(), "alphabet_size": enum_alphabet(&cfg).len(), "depth_bound": depth,
            "depth_completed": st.completed_depth, "histories": st.histories, "ops": st.ops,
            "observer_calls": st.sweep_calls, "violating_histories": st.violating,
            "hanging_histories": st.hanging, "unjudged_histories": st.unjudged,
            "noop_fault_histories_not_extended": st.noop_pruned, "stopped_by_cap": st.stopped,
            "wall_s": (t0.elapsed().as_secs_f64() * 100.0).round() / 100.0,
        }));
        histories += st.histories;
        ops += st.ops;
        sweeps += st.sweep_calls;
        unjudged += st.unjudged;
        for b in 0..9 {
            events[b] += st.events[b];
        }
    }
    pool.shutdown();

    rep.add_states(histories);
    rep.add_traces(histories);
    rep.add_transitions(ops);
    rep.add_evaluations(histories);
    rep.add_nontrivial_count(histories - unjudged);
    rep.extra(
        "bounds",
        json!({
            "keys": 2, "max_fault_ops_per_history": 2, "max_restarts_per_history": 1, "depth_full_alphabet": d_full, "depth_core_alphabet": d_core,
            "per_config": per_cfg, "hang_cap_per_config": ctl.hang_cap_per_cfg, "per_op_time_limit_ms": stall_ms(),
        }),
    );
    rep.extra("observer_calls", json!(sweeps));
    rep.extra("unjudged_histories", json!(unjudged));
    rep.extra("hanging_histories", json!(ctl.hang_total.load(Ordering::Relaxed)));
    rep.extra("worker_processes_spawned", json!(pool.spawned.load(Ordering::Relaxed)));
    rep.extra("suspected_hangs_reexecuted", json!(pool.suspects_reexecuted.load(Ordering::Relaxed)));
    rep.extra("transient_stalls_not_reproduced", json!(pool.transient_stalls.load(Ordering::Relaxed)));
    rep.extra("minimisation_and_replay_executions", json!(ctl.minimise_execs.load(Ordering::Relaxed)));
    if unjudged > 0 && unjudged * 100 > histories {
        rep.machinery_error(&format!("{unjudged} of {histories} histories could not be followed by the model"));
    }
    let ev: serde_json::Map<String, Value> =
        EVENT_NAMES.iter().enumerate().map(|(b, n)| ((*n).to_string(), json!(events[b]))).collect();
    rep.extra("histories_showing_event_class", Value::Object(ev));
    // vacuity guard: the alphabet must really collide — eviction from the tiny first layer,
    // answers from slower layers, detected corruption, rejected puts, applied faults and
    // promotions all have to occur (the last class only exists once writes invalidate)
    if std::env::var_os("VERIF_C12_PLAN").is_none() {
        for b in [0usize, 1, 2, 3, 4, 5, 6, 8] {
            if events[b] == 0 && rep.violation_count() == 0 {
                rep.machinery_error(&format!("vacuous exploration: no history showed: {}", EVENT_NAMES[b]));
            }
        }
    }
    if rep.violation_count() == 0 && rep.outcomes() < 50 {
        rep.machinery_error("vacuous exploration: fewer than 50 distinct observation sequences");
    }
    rep.finish()
}

/// Replay a witness in an isolated worker and print what every call observed.
pub fn replay(w: &Value) -> i32 {
    let wit = &w["witness"];
    let cfg: Cfg = match serde_json::from_value(wit["config"].clone()) {
        Ok(c) => c,
        Err(e) => {
            println!("MACHINERY-ERROR: witness has no usable config: {e}");
            return 2;
        }
    };
    let ops: Vec<Op> = match serde_json::from_value(wit["core_ops"].clone()) {
        Ok(o) => o,
        Err(e) => {
            println!("MACHINERY-ERROR: witness has no usable core_ops: {e}");
            return 2;
        }
    };
    let uni = universe(cfg.layers);
    let mut h = Vec::new();
    for o in &ops {
        match uni.iter().position(|a| a == o) {
            Some(i) => h.push(i as u16),
            None => {
                println!("MACHINERY-ERROR: op {o:?} is not in the op universe of {}", cfg.name());
                return 2;
            }
        }
    }
    println!("replaying on {}: {}", cfg.name(), plain(&ops).join("; "));
    let seed: u64 = std::env::var("VERIF_SEED").ok().and_then(|s| s.parse().ok()).unwrap_or(0);
    let pool = Pool::new(seed);
    let o = pool.exec_one(cfg, &h, false, true);
    pool.shutdown();
    match o {
        Outcome::Done(r) => {
            for l in &r.log {
                println!("  {l}");
            }
            if r.r == "vio" {
                println!("violates at op {}: {}: {}", r.at, r.kind, r.detail);
                1
            } else {
                if !r.unjudged.is_empty() {
                    println!("not judged: {}", r.unjudged);
                }
                println!("no violation");
                0
            }
        }
        Outcome::Hang { at, why, .. } => {
            let mut nm = |k: u8| format!("k{k}");
            let opn = if at >= 0 && (at as usize) < ops.len() { ops[at as usize].render(&mut nm) } else { "?".into() };
            println!("violates at op {at}: hang: {opn} never returned ({why}); the worker process was killed");
            1
        }
        Outcome::Died { status } => {
            println!("violates: abort: worker died: {status}");
            1
        }
    }
}
