//! Builder-made small artifacts used as mutation seeds by C02/C08/C07.

pub fn small(_fmt: &str) -> Vec<(String, Vec<u8>)> {
    Vec::new()
}
