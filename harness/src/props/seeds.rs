//! Builder-made small artifacts used as mutation seeds by C02/C08/C07.
//!
//! Every artifact is produced by the repository's own builder for the format (never assembled
//! by hand), is as small as the format allows (tens to a few hundred bytes; an encoding file
//! cannot be smaller than two 1 KiB pages, a non-empty archive index not smaller than one 4 KiB
//! block) and is deterministic. Small seeds are what make the one-deviation enumeration of
//! C02/C08 exhaustive over all 255 substitute values at every byte position.

use cascette_crypto::{ContentKey, EncodingKey};
use cascette_formats::CascFormat;
use std::io::Cursor;

fn key(tag: u8, i: u8) -> [u8; 16] {
    let mut k = [0u8; 16];
    for (j, b) in k.iter_mut().enumerate() {
        *b = tag.wrapping_mul(31).wrapping_add((j as u8).wrapping_mul(7)).wrapping_add(i.wrapping_mul(59)) | 1;
    }
    k[0] = 0x10u8.wrapping_mul(i + 1).wrapping_add(tag & 0x0F);
    k
}

fn push(out: &mut Vec<(String, Vec<u8>)>, name: &str, r: Result<Vec<u8>, String>) {
    // a builder that refuses its own small program is reported by C08's builder part, not here
    if let Ok(b) = r {
        out.push((format!("built:{name}"), b));
    }
}

fn e2s<E: std::fmt::Display>(e: E) -> String {
    e.to_string()
}

// ---------------------------------------------------------------- encoding

pub fn encoding_file(n_ckeys: u8, two_especs: bool, trailing: bool) -> Result<cascette_formats::encoding::EncodingFile, String> {
    use cascette_formats::encoding::{CKeyEntryData, EKeyEntryData, EncodingBuilder};
    let mut b = EncodingBuilder::new().with_page_sizes(1, 1);
    if trailing {
        b = b.with_trailing_espec("b:{22=n,54=z,*=n}".to_string());
    }
    for i in 0..n_ckeys {
        let ek = EncodingKey::from_bytes(key(0xE0, i));
        let mut eks = vec![ek];
        if i == 1 {
            eks.push(EncodingKey::from_bytes(key(0xE8, i)));
        }
        b.add_ckey_entry(CKeyEntryData { content_key: ContentKey::from_bytes(key(0xC0, i)), file_size: 1000 + u64::from(i) * 0x1_0000_0001, encoding_keys: eks.clone() });
        for (j, ek) in eks.iter().enumerate() {
            let espec = if two_especs && (i + j as u8) % 2 == 1 { "n" } else { "z" };
            b.add_ekey_entry(EKeyEntryData { encoding_key: *ek, espec: espec.to_string(), file_size: 500 + u64::from(i) });
        }
    }
    b.build().map_err(e2s)
}

fn encoding(out: &mut Vec<(String, Vec<u8>)>) {
    push(out, "encoding-1ckey-1espec", encoding_file(1, false, false).and_then(|f| f.build().map_err(e2s)));
    push(out, "encoding-3ckeys-2especs-trailing", encoding_file(3, true, true).and_then(|f| f.build().map_err(e2s)));
}

fn encoding_blte(out: &mut Vec<(String, Vec<u8>)>) {
    push(out, "encoding-blte-zlib-single", encoding_file(2, true, true).and_then(|f| f.build_blte().map_err(e2s)));
    // the same table as an uncompressed two-chunk BLTE (chunk table in front)
    push(
        out,
        "encoding-blte-plain-2chunks",
        encoding_file(1, false, false).and_then(|f| f.build().map_err(e2s)).and_then(|raw| {
            let f = cascette_formats::blte::BlteFile::compress(&raw, 1100, cascette_formats::blte::CompressionMode::None).map_err(e2s)?;
            CascFormat::build(&f).map_err(e2s)
        }),
    );
}

// ---------------------------------------------------------------- archive index / group

pub fn archive_index_bytes(key_size: u8, offset_bytes: u8, n: u8) -> Result<Vec<u8>, String> {
    use cascette_formats::archive::ArchiveIndexBuilder;
    let mut b = ArchiveIndexBuilder::with_config(key_size, offset_bytes, 4);
    for i in 0..n {
        let k = key(0xA0, i);
        let off = if offset_bytes == 5 { 0x1_0000_0000u64 + u64::from(i) * 4096 } else { u64::from(i) * 4096 };
        b.add_entry(k[..key_size as usize].to_vec(), 100 + u32::from(i), off);
    }
    let mut buf = Vec::new();
    b.build(Cursor::new(&mut buf)).map_err(e2s)?;
    Ok(buf)
}

fn archive_index(out: &mut Vec<(String, Vec<u8>)>) {
    push(out, "archive-index-empty", archive_index_bytes(16, 4, 0));
    push(out, "archive-index-k16-o4-3", archive_index_bytes(16, 4, 3));
    push(out, "archive-index-k9-o5-2", archive_index_bytes(9, 5, 2));
}

pub fn archive_group_bytes(n: u8) -> Result<Vec<u8>, String> {
    use cascette_formats::archive::{ArchiveGroupBuilder, ArchiveGroupEntry};
    let mut b = ArchiveGroupBuilder::new();
    for i in 0..n {
        b.add_entry(ArchiveGroupEntry::new(key(0xB0, i).to_vec(), u16::from(i) + 1, 4096 * u32::from(i), 200 + u32::from(i)));
    }
    let mut buf = Vec::new();
    b.build(Cursor::new(&mut buf)).map_err(e2s)?;
    Ok(buf)
}

fn archive_group(out: &mut Vec<(String, Vec<u8>)>) {
    push(out, "archive-group-3", archive_group_bytes(3));
}

// ---------------------------------------------------------------- root

pub fn root_bytes(v: u8) -> Result<Vec<u8>, String> {
    use cascette_formats::root::{ContentFlags, LocaleFlags, RootBuilder, RootVersion};
    let ver = match v {
        1 => RootVersion::V1,
        2 => RootVersion::V2,
        3 => RootVersion::V3,
        _ => RootVersion::V4,
    };
    let mut b = RootBuilder::new(ver);
    let en = LocaleFlags::new(LocaleFlags::ENUS);
    let de = LocaleFlags::new(LocaleFlags::ENUS | LocaleFlags::DEDE);
    let inst = ContentFlags::new(ContentFlags::INSTALL);
    let noname = ContentFlags::new(ContentFlags::INSTALL | ContentFlags::NO_NAME_HASH);
    b.add_file(cascette_crypto::md5::FileDataId::new(100), ContentKey::from_bytes(key(0xD0, 0)), Some("interface/icons/a.blp"), en, inst);
    b.add_file(cascette_crypto::md5::FileDataId::new(103), ContentKey::from_bytes(key(0xD0, 1)), Some("world/maps/b.wdt"), en, inst);
    b.add_file(cascette_crypto::md5::FileDataId::new(200), ContentKey::from_bytes(key(0xD0, 2)), Some("sound/c.ogg"), de, inst);
    // V1 stores a name hash for every record; the unnamed block only exists from V2 on
    let unnamed_path = if v == 1 { Some("d.txt") } else { None };
    b.add_file(cascette_crypto::md5::FileDataId::new(300), ContentKey::from_bytes(key(0xD0, 3)), unnamed_path, LocaleFlags::new(LocaleFlags::ALL), if v == 1 { inst } else { noname });
    b.build().map_err(e2s)
}

/// One block of `n` records without name hashes under an extended (V3) header. With 16..=99
/// records and fewer than 10 named ones the 12-byte classic V2 header of the same manifest is
/// indistinguishable from an extended header (known finding of C03); this seed is one deviation
/// (the version field) away from a V2 manifest whose rebuild runs into exactly that.
pub fn root_unnamed_bytes(n: u32) -> Result<Vec<u8>, String> {
    use cascette_formats::root::{ContentFlags, LocaleFlags, RootBuilder, RootVersion};
    let mut b = RootBuilder::new(RootVersion::V3);
    for i in 0..n {
        b.add_file(cascette_crypto::md5::FileDataId::new(1000 + 3 * i), ContentKey::from_bytes(key(0xD8, i as u8)), None, LocaleFlags::new(LocaleFlags::ENUS), ContentFlags::new(ContentFlags::INSTALL | ContentFlags::NO_NAME_HASH));
    }
    b.build().map_err(e2s)
}

fn root(out: &mut Vec<(String, Vec<u8>)>) {
    for v in 1..=4u8 {
        push(out, &format!("root-v{v}-3blocks"), root_bytes(v));
    }
    push(out, "root-v3-20-unnamed-records", root_unnamed_bytes(20));
}

// ---------------------------------------------------------------- install / download / size

pub fn install_bytes(v2: bool) -> Result<Vec<u8>, String> {
    use cascette_formats::install::{InstallManifest, InstallManifestBuilder, TagType};
    let m = InstallManifestBuilder::new()
        .add_tag("Windows".to_string(), TagType::Platform)
        .add_tag("enUS".to_string(), TagType::Locale)
        .add_file("a/b.exe".to_string(), ContentKey::from_bytes(key(0x10, 0)), 1024)
        .add_file("c.dll".to_string(), ContentKey::from_bytes(key(0x10, 1)), 0x0102_0304)
        .add_file("d".to_string(), ContentKey::from_bytes(key(0x10, 2)), 7)
        .associate_file_with_tag(0, "Windows")
        .map_err(e2s)?
        .associate_file_with_tag(2, "Windows")
        .map_err(e2s)?
        .associate_file_with_tag(1, "enUS")
        .map_err(e2s)?
        .build()
        .map_err(e2s)?;
    if !v2 {
        return m.build().map_err(e2s);
    }
    // V2 is reachable through the builder only by re-opening a V2 manifest
    let mut m2: InstallManifest = m;
    m2.header = cascette_formats::install::InstallHeader::new_v2(m2.header.tag_count, m2.header.entry_count, 16, 0);
    for (i, e) in m2.entries.iter_mut().enumerate() {
        e.file_type = Some(i as u8 + 1);
    }
    let reopened = InstallManifestBuilder::from_manifest(&m2).build().map_err(e2s)?;
    reopened.build().map_err(e2s)
}

fn install(out: &mut Vec<(String, Vec<u8>)>) {
    push(out, "install-v1-2tags-3files", install_bytes(false));
    push(out, "install-v2-2tags-3files", install_bytes(true));
}

pub fn download_bytes(v: u8) -> Result<Vec<u8>, String> {
    use cascette_formats::download::{DownloadManifestBuilder, TagType};
    let mut b = DownloadManifestBuilder::new(v).map_err(e2s)?;
    b = b.with_checksums(v != 1);
    // V2 with three flag bytes per entry, V3 with the largest flag field (four bytes)
    let flag_size: u8 = if v == 2 { 3 } else { 4 };
    if v >= 2 {
        b = b.with_flags(flag_size).map_err(e2s)?;
    }
    if v >= 3 {
        b = b.with_base_priority(-2).map_err(e2s)?;
    }
    b = b.add_file(EncodingKey::from_bytes(key(0x20, 0)), 1024, 0).map_err(e2s)?;
    b = b.add_file(EncodingKey::from_bytes(key(0x20, 1)), 0x01_0203_0405, -3).map_err(e2s)?;
    b = b.add_file(EncodingKey::from_bytes(key(0x20, 2)), 9, 5).map_err(e2s)?;
    b = b.add_tag("Windows".to_string(), TagType::Platform).add_tag("Alt".to_string(), TagType::Alternate);
    b = b.associate_file_with_tag(0, "Windows").map_err(e2s)?;
    b = b.associate_file_with_tag(2, "Windows").map_err(e2s)?;
    b = b.associate_file_with_tag(1, "Alt").map_err(e2s)?;
    if v != 1 {
        for i in 0..3usize {
            b = b.set_file_checksum(i, 0x1111_1111 * (i as u32 + 1)).map_err(e2s)?;
        }
    }
    if v >= 2 {
        for i in 0..3usize {
            let fl: Vec<u8> = (0..flag_size).map(|j| 0xA0 + 0x10 * j + i as u8).collect();
            b = b.set_file_flags(i, fl).map_err(e2s)?;
        }
    }
    b.build().map_err(e2s)?.build().map_err(e2s)
}

fn download(out: &mut Vec<(String, Vec<u8>)>) {
    for v in 1..=3u8 {
        push(out, &format!("download-v{v}-3files-2tags"), download_bytes(v));
    }
}

pub fn size_bytes(v: u8, n: u8) -> Result<Vec<u8>, String> {
    use cascette_formats::install::TagType;
    use cascette_formats::size::SizeManifestBuilder;
    let mut b = SizeManifestBuilder::new().version(v).ekey_size(if n > 8 { 4 } else { 9 });
    if v == 1 {
        b = b.esize_bytes(3);
    }
    b = b.add_tag("Windows".to_string(), TagType::Platform).add_tag("enUS".to_string(), TagType::Locale);
    for i in 0..n {
        b = b.add_entry(key(0x30, i)[..if n > 8 { 4 } else { 9 }].to_vec(), 1000 + u64::from(i) * 0x0101);
    }
    b = b.tag_file(0, 0).tag_file(0, 2).tag_file(1, 1);
    if n > 8 {
        // a second mask byte
        b = b.tag_file(0, 8).tag_file(1, 7);
    }
    b.build().map_err(e2s)?.build().map_err(e2s)
}

/// A V1 manifest with the widest esize field the format allows (8 bytes) and 4-byte keys: the
/// records are 12 bytes apart, which is one of the record strides of the coordinated-deviation
/// class (the same field of two or three consecutive records set high — a sum over all records
/// only goes wrong when more than one record lies).
pub fn size_wide_bytes() -> Result<Vec<u8>, String> {
    use cascette_formats::install::TagType;
    use cascette_formats::size::SizeManifestBuilder;
    let mut b = SizeManifestBuilder::new().version(1).ekey_size(4).esize_bytes(8);
    b = b.add_tag("Windows".to_string(), TagType::Platform);
    for i in 0..3u8 {
        b = b.add_entry(key(0x30, i)[..4].to_vec(), 0x0100_0000_0000 + u64::from(i) * 0x0101);
    }
    b = b.tag_file(0, 0).tag_file(0, 2);
    b.build().map_err(e2s)?.build().map_err(e2s)
}

fn size(out: &mut Vec<(String, Vec<u8>)>) {
    push(out, "size-v1-3entries-2tags", size_bytes(1, 3));
    push(out, "size-v2-3entries-2tags", size_bytes(2, 3));
    push(out, "size-v2-9entries-2tags", size_bytes(2, 9));
    push(out, "size-v1-8byte-esizes-3entries-1tag", size_wide_bytes());
}

// ---------------------------------------------------------------- TVFS

pub fn tvfs_bytes(flags: u32) -> Result<Vec<u8>, String> {
    use cascette_formats::tvfs::{TVFS_FLAG_ENCODING_SPEC, TvfsBuilder};
    let mut b = TvfsBuilder::with_flags(flags);
    let est = flags & TVFS_FLAG_ENCODING_SPEC != 0;
    if est {
        b.add_est_spec("z".to_string());
        b.add_est_spec("b:{*=n}".to_string());
    }
    let files = [("a/b.txt", 0u8), ("a/c.txt", 1), ("d", 2)];
    for (p, i) in files {
        let mut ek = [0u8; 9];
        ek.copy_from_slice(&key(0x40, i)[..9]);
        if est {
            b.add_file_with_est(p.to_string(), ek, 100 + u32::from(i), 200 + u32::from(i), Some(key(0x48, i)), u32::from(i % 2));
        } else {
            b.add_file(p.to_string(), ek, 100 + u32::from(i), 200 + u32::from(i), Some(key(0x48, i)));
        }
    }
    b.build().map_err(e2s)
}

fn tvfs(out: &mut Vec<(String, Vec<u8>)>) {
    use cascette_formats::tvfs::{TVFS_FLAG_ENCODING_SPEC, TVFS_FLAG_INCLUDE_CKEY, TVFS_FLAG_PATCH_SUPPORT};
    push(out, "tvfs-ckey-3files", tvfs_bytes(TVFS_FLAG_INCLUDE_CKEY));
    push(out, "tvfs-ckey-est-patch-3files", tvfs_bytes(TVFS_FLAG_INCLUDE_CKEY | TVFS_FLAG_ENCODING_SPEC | TVFS_FLAG_PATCH_SUPPORT));
    push(out, "tvfs-bare-3files", tvfs_bytes(0));
    push(out, "tvfs-path-table-200000-levels", tvfs_deep_path_table(200_000));
}

/// A builder-made TVFS whose path table is replaced by `depth` nested folder nodes with empty
/// names around one file node (5 bytes per level). The repository's own `build` writes the
/// raw path table back and computes the header from it.
pub fn tvfs_deep_path_table(depth: usize) -> Result<Vec<u8>, String> {
    let base = tvfs_bytes(0)?;
    let mut f = cascette_formats::tvfs::TvfsFile::parse(&base).map_err(e2s)?;
    // innermost: file node "a" -> VFS offset 0
    let mut table: Vec<u8> = vec![0x01, b'a', 0xFF, 0, 0, 0, 0];
    let mut levels: Vec<u32> = Vec::with_capacity(depth);
    let mut children = table.len() as u32;
    for _ in 0..depth {
        levels.push(children + 4);
        children += 5;
    }
    let mut out = Vec::with_capacity(children as usize);
    for l in levels.iter().rev() {
        out.push(0xFF);
        out.extend_from_slice(&(0x8000_0000u32 | l).to_be_bytes());
    }
    out.append(&mut table);
    f.path_table.data = out;
    f.build().map_err(e2s)
}

fn tvfs_blte(out: &mut Vec<(String, Vec<u8>)>) {
    use cascette_formats::tvfs::{TVFS_FLAG_ENCODING_SPEC, TVFS_FLAG_INCLUDE_CKEY};
    push(
        out,
        "tvfs-blte-zlib-single",
        tvfs_bytes(TVFS_FLAG_INCLUDE_CKEY | TVFS_FLAG_ENCODING_SPEC).and_then(|raw| {
            let f = cascette_formats::blte::BlteFile::single_chunk(raw, cascette_formats::blte::CompressionMode::ZLib).map_err(e2s)?;
            CascFormat::build(&f).map_err(e2s)
        }),
    );
}

// ---------------------------------------------------------------- ZBSDIFF, patch archive, patch index

fn zbsdiff(out: &mut Vec<(String, Vec<u8>)>) {
    use cascette_formats::zbsdiff::ZbsdiffBuilder;
    let old = b"the quick brown fox jumps over the lazy dog".to_vec();
    let new = b"the quick brown cat jumps over the lazy dog!".to_vec();
    push(out, "zbsdiff-simple", ZbsdiffBuilder::new(old.clone(), new.clone()).build_simple_patch().map_err(e2s));
    push(out, "zbsdiff-chunked", ZbsdiffBuilder::new(old, new).with_max_diff_block_size(16).build_chunked_patch().map_err(e2s));
}

pub fn patch_archive_bytes(with_encoding_info: bool) -> Result<Vec<u8>, String> {
    use cascette_formats::patch_archive::{PatchArchiveBuilder, PatchArchiveEncodingInfo};
    let mut b = PatchArchiveBuilder::new().block_size_bits(12);
    if with_encoding_info {
        b = b.encoding_info(PatchArchiveEncodingInfo { encoding_ckey: key(0x50, 0), encoding_ekey: key(0x50, 1), decoded_size: 1000, encoded_size: 600, espec: "b:{*=z}".to_string() });
    }
    b.add_file_entry(key(0x58, 0), 0x01_0000_0001, vec![(key(0x5A, 0), 500, key(0x5C, 0), 200, 0), (key(0x5A, 1), 501, key(0x5C, 1), 201, 1)]);
    b.add_file_entry(key(0x58, 1), 2000, vec![(key(0x5A, 2), 700, key(0x5C, 2), 300, 0)]);
    b.build().map_err(e2s)
}

fn patch_archive(out: &mut Vec<(String, Vec<u8>)>) {
    push(out, "patch-archive-2files", patch_archive_bytes(false));
    push(out, "patch-archive-2files-encoding-info", patch_archive_bytes(true));
    push(out, "patch-archive-keys-9-9-12-encoding-info", {
        use cascette_formats::patch_archive::{PatchArchiveBuilder, PatchArchiveEncodingInfo};
        let mut b = PatchArchiveBuilder::new().block_size_bits(12).key_sizes(9, 9, 12);
        b = b.encoding_info(PatchArchiveEncodingInfo { encoding_ckey: key(0x50, 0), encoding_ekey: key(0x50, 1), decoded_size: 1000, encoded_size: 600, espec: "b:{*=z}".to_string() });
        b.add_file_entry(key(0x58, 0), 0x01_0000_0001, vec![(key(0x5A, 0), 500, key(0x5C, 0), 200, 0)]);
        b.add_file_entry(key(0x58, 1), 2000, vec![(key(0x5A, 2), 700, key(0x5C, 2), 300, 0)]);
        b.build().map_err(e2s)
    });
}

pub fn patch_index_bytes(key_size: u8, n: u8) -> Result<Vec<u8>, String> {
    use cascette_formats::patch_index::{PatchIndexBuilder, PatchIndexEntry};
    let mut b = PatchIndexBuilder::new().key_size(key_size);
    let cut = |k: [u8; 16]| {
        let mut o = [0u8; 16];
        o[..key_size as usize].copy_from_slice(&k[..key_size as usize]);
        o
    };
    for i in 0..n {
        b.add_entry(PatchIndexEntry { source_ekey: cut(key(0x60, i)), source_size: 1000 + u32::from(i), target_ekey: cut(key(0x62, i)), target_size: 2000 + u32::from(i), encoded_size: 1500, suffix_offset: 1, patch_ekey: cut(key(0x64, i)) });
    }
    b.build().map_err(e2s)
}

fn patch_index(out: &mut Vec<(String, Vec<u8>)>) {
    push(out, "patch-index-k16-2", patch_index_bytes(16, 2));
    push(out, "patch-index-k9-1", patch_index_bytes(9, 1));
}

/// Small builder-made artifacts of one format: `(name, bytes)`, smallest first.
pub fn small(fmt: &str) -> Vec<(String, Vec<u8>)> {
    let mut out = Vec::new();
    match fmt {
        "encoding" => encoding(&mut out),
        "encoding_blte" => encoding_blte(&mut out),
        "archive_index" => archive_index(&mut out),
        "archive_group" => archive_group(&mut out),
        "root" => root(&mut out),
        "install" => install(&mut out),
        "download" => download(&mut out),
        "size" => size(&mut out),
        "tvfs" => tvfs(&mut out),
        "tvfs_blte" => tvfs_blte(&mut out),
        "zbsdiff" => zbsdiff(&mut out),
        "patch_archive" => patch_archive(&mut out),
        "patch_index" => patch_index(&mut out),
        _ => {}
    }
    out
}

/// All format names `small` knows (used by the self-check of C08's builder part).
pub const FORMATS: &[&str] = &["encoding", "encoding_blte", "archive_index", "archive_group", "root", "install", "download", "size", "tvfs", "tvfs_blte", "zbsdiff", "patch_archive", "patch_index"];
